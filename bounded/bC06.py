"""C06 bounded stand-in: config_str() round-trips, is canonical and always parses.

Oracle (no gin serialiser/parser result is compared with itself except where the
property itself is a fixpoint statement): every case is built from JSON value
*descriptors*; the expected configuration after the round trip is computed from
the descriptors alone (`_canon`), the configuration gin holds after
`parse_config(config_str())` is normalised by `_norm` (exact types, references as
(scopes, wrapped function, evaluate)) and the two are compared.

Clause labels -> sentence of the property
  serialises           "the text returned by config_str()" exists: config_str() returns for
                       every reachable configuration (it may not raise)
  always_parses        "always parses: values that have no literal form are omitted rather
                       than emitted unparseably"
  roundtrip_bindings   "restores every literally representable binding (same scope,
                       configurable, parameter and an equal value of the same type)"; a
                       binding that comes back although its value has no literal form, or
                       under another key, is reported here as `extra`
  roundtrip_imports    "... and the recorded imports"
  reserialise_identical "serialising again yields the identical text"
  order_independent    "depends only on the set of bindings, not on the order in which they
                       were made"
  grouped_sorted       "groups configurables alphabetically with parameters sorted"
  markdown_verbatim    "Its Markdown rendering keeps every binding line verbatim"
Every clause is evaluated "with or without dynamic registration and for any line width
larger than the continuation indent" (case fields `mode`, `widths`).
"""
import itertools
import re
import sys
import types

import gin
from gin import config as gc

BOUNDS = ('configurations of <= 5 bindings (<= 6 in fixed corner cases) over 8 configurables '
          '(2 same-named in different modules, 2 differing only in case, a class, a method, '
          'gin.singleton) x 6 scopes x 4 macro names x 2 constants; values of nesting depth '
          '<= 3 over a fixed pool of literals, references, macros and 14 kinds of non-literal '
          'object; static registration (bind_parameter or parsed text) or dynamic '
          'registration (5 import forms); all orders of <= 4 bindings, 12 sampled (quick) / '
          'all 120 (thorough) orders of 5; per case 3 (quick) / 8 (thorough) pairs '
          '(max_line_length, continuation_indent) with indent in {0,1,2,4,8} and '
          'indent < length <= 120, always including length = indent + 1')
EXHAUSTIVE = {'quick': False, 'thorough': False}

# ---------------------------------------------------------------- the universe
_SRC = '''
def fa(x=None, y=None, z=None, w=None): return (x, y, z, w)
def Foo(x=None, y=None, z=None, w=None): return (x, y, z, w)
def foo(x=None, y=None, z=None, w=None): return (x, y, z, w)
def gg(x=None, y=None, z=None, w=None): return (x, y, z, w)
class Cls:
  def __init__(self, x=None, y=None): self.v = (x, y)
  def meth(self, x=None, y=None): return (x, y)
'''


def _module(name):
  if name not in sys.modules:
    mod = types.ModuleType(name)
    mod.__path__ = []
    exec(_SRC, mod.__dict__)  # functions get __module__ == name
    sys.modules[name] = mod
    if '.' in name:
      parent, child = name.rsplit('.', 1)
      setattr(_module(parent), child, mod)
  return sys.modules[name]


_ALPHA, _BETA, _TOP = (_module(n) for n in ('vq_pkg.alpha', 'vq_pkg.beta', 'vq_top'))
# target name -> (module, qualified name, object)
TARGETS = {
    'a_fa': ('vq_pkg.alpha', 'fa', _ALPHA.fa), 'b_fa': ('vq_pkg.beta', 'fa', _BETA.fa),
    'a_Foo': ('vq_pkg.alpha', 'Foo', _ALPHA.Foo), 'a_foo': ('vq_pkg.alpha', 'foo', _ALPHA.foo),
    't_gg': ('vq_top', 'gg', _TOP.gg), 'a_Cls': ('vq_pkg.alpha', 'Cls', _ALPHA.Cls),
    'a_meth': ('vq_pkg.alpha', 'Cls.meth', _ALPHA.Cls.meth),
    'singleton': ('gin', 'singleton', gc.singleton),
}
_NAME_OF = {id(v[2]): k for k, v in TARGETS.items()}
_NAME_OF[id(gc.macro)] = '<macro>'
_NAME_OF[id(gc._retrieve_constant)] = '<constant>'
PARAMS = {'singleton': ['constructor']}
SCOPES = ['', 'a', 'a/b', 'A', 'B/a', 'zz/a']
MACROS = ['mm', 'MM', 'a/mm', 'zeta']
CONSTS = {'CC': ['i', 5], 'vq.KK': ['o', 'object']}
_last = lambda m: m.rsplit('.', 1)[-1]
IMPORT_FORMS = {  # form -> (statement, prefix under which the module's names are reached)
    'plain': lambda m: ('import %s' % m, m),
    'plain_as': lambda m: ('import %s as %s_al' % (m, _last(m)), _last(m) + '_al'),
    'from': lambda m: ('from %s import %s' % tuple(m.rsplit('.', 1)), m.rsplit('.', 1)[1]),
    'from_as': lambda m: ('from %s import %s as %s_fr' % (tuple(m.rsplit('.', 1)) + (_last(m),)),
                          _last(m) + '_fr'),
    'parent': lambda m: ('import %s' % m.split('.')[0], m),
}
_ALL_SELECTORS = ['%s.%s' % v[:2] for v in TARGETS.values()] + ['gin.macro', 'gin.constant']


class _Repr:

  def __init__(self, text):
    self.text = text

  def __repr__(self):
    return self.text


_OBJECTS = {
    'object': object, 'lambda': lambda: (lambda: 0), 'set': lambda: {1, 2}, 'emptyset': set,
    'frozenset': lambda: frozenset([1]), 'inf': lambda: float('inf'),
    'neginf': lambda: float('-inf'), 'nan': lambda: float('nan'), 'type': lambda: int,
    'range': lambda: range(3), 'ellipsis': lambda: Ellipsis,
    'repr_multiline': lambda: _Repr('Foo(\n  1)'), 'repr_words': lambda: _Repr('some thing'),
    'unknown_ref': lambda: gc._UnknownConfigurableReference('nope', True),
    # adversarial reprs, used by fixed corner cases only
    'repr_unterminated': lambda: _Repr("'abc"), 'repr_atref': lambda: _Repr('@nope'),
}
_OBJ_KINDS = list(_OBJECTS)[:14]

_WORDS = 'lorem ipsum dolor sit amet consectetur adipiscing elit sed do eiusmod tempor'
STRINGS = ['', 'abc', "it's", 'say "hi"', 'both \' and "', 'back\\slash', 'c:\\', 'nl\ntab\t',
           'uni \u00e9 \u6f22', '# not a comment', '@fa', '%mm', 'x = 1', "'''", ' lead',
           '\x00nul', _WORDS, _WORDS * 3, 'x' * 100, 'a.b/c', 'import os']
LEAVES = ([['n'], ['b', True], ['b', False]] + [['i', i] for i in (0, 1, -1, 7, 2**63, -10**20)] +
          [['f', f] for f in ('0.0', '-0.0', '1.5', '-2.5e-07', '1e+100', '3.14159')] +
          [['s', s] for s in STRINGS] +
          [['y', 'ab'], ['y', '\xff\x00'], ['y', 'ab cd ' * 20]])
DICT_KEYS = [['s', 'k1'], ['s', 'k2'], ['i', 3], ['i', -4], ['t', [['i', 1], ['s', 'a']]], ['n'],
             ['f', '2.5'], ['y', 'k'], ['s', 'K1']]


# ---------------------------------------------------- descriptors -> everything
def _literal(d):
  return all(_literal(x) for x in _children(d)) and d[0] != 'o'


def _children(d):
  if d[0] in 'lt':
    return d[1]
  if d[0] == 'd':
    return [x for kv in d[1] for x in kv]
  return []


def _canon(d):
  """Expected normal form of the value after a round trip (from the descriptor only)."""
  t = d[0]
  if t in 'lt':
    return [t, [_canon(x) for x in d[1]]]
  if t == 'd':
    return ['d', sorted(([_canon(k), _canon(v)] for k, v in d[1]), key=repr)]
  if t == 'r':
    return ['ref', d[1], d[2], d[4]]
  if t == 'm':
    return ['ref', d[1], '<macro>', True]
  if t == 'c':
    return ['ref', d[1], '<constant>', True]
  if t == 'f':
    return ['f', repr(float(d[1]))]
  return list(d)


def _norm(v):
  """Normal form of a value held by gin (exact types only)."""
  t = type(v)
  if t is gc.ConfigurableReference:
    return ['ref', '/'.join(v.scopes), _NAME_OF.get(id(v.configurable.wrapped), '?'), v.evaluate]
  if t is list or t is tuple:
    return ['l' if t is list else 't', [_norm(x) for x in v]]
  if t is dict:
    return ['d', sorted(([_norm(k), _norm(x)] for k, x in v.items()), key=repr)]
  if v is None:
    return ['n']
  for tag, typ in (('b', bool), ('i', int), ('s', str)):
    if t is typ:
      return [tag, v]
  if t is float:
    return ['f', repr(v)]
  if t is bytes:
    return ['y', v.decode('latin1')]
  return ['?', t.__name__]


def _source(d, spell):
  """Gin source text of a descriptor, written independently of gin's serialiser."""
  t = d[0]
  if t == 'l':
    return '[' + ', '.join(_source(x, spell) for x in d[1]) + ']'
  if t == 't':
    return '(' + ''.join(_source(x, spell) + ', ' for x in d[1]) + ')'
  if t == 'd':
    return '{' + ', '.join('%s: %s' % (_source(k, spell), _source(v, spell)) for k, v in d[1]) + '}'
  if t == 'r':
    return '@' + (d[1] + '/' if d[1] else '') + spell(d[2], d[3]) + ('()' if d[4] else '')
  if t in 'mc':
    return '%' + d[1]
  return repr(_python(d, spell))


def _python(d, spell):
  """The Python object a descriptor stands for (references are made by gin.parse_value)."""
  t = d[0]
  if t in 'lt':
    return (list if t == 'l' else tuple)(_python(x, spell) for x in d[1])
  if t == 'd':
    return {_python(k, spell): _python(v, spell) for k, v in d[1]}
  if t in 'rmc':
    return gc.parse_value(_source(d, spell))
  if t == 'o':
    return _OBJECTS[d[1]]()
  return {'n': lambda: None, 'f': lambda: float(d[1]),
          'y': lambda: d[1].encode('latin1')}.get(t, lambda: d[1])()


def _static_spellings(target):
  """Unambiguous dotted suffixes of the target's selector, shortest first."""
  mod, name, _ = TARGETS[target]
  parts = (mod + '.' + name).split('.')
  keep = 2 if target == 'a_meth' else 1    # a method needs `Class.method`
  out = []
  for i in range(len(parts) - keep, -1, -1):
    suffix = '.'.join(parts[i:])
    hits = [s for s in _ALL_SELECTORS if s == suffix or s.endswith('.' + suffix)]
    if len(hits) == 1 or i == 0:
      out.append(suffix)
  return out


# ------------------------------------------------------------- case generation
def _gen_value(rng, depth, targets, allow_obj=True):
  r = rng.random()
  if depth < 3 and r < 0.25:
    kind = rng.choice('ltd')
    n = rng.choice([0, 1, 1, 2, 3, 5])
    if kind == 'd':
      keys = rng.sample(DICT_KEYS, min(n, len(DICT_KEYS)))
      return ['d', [[k, _gen_value(rng, depth + 1, targets, allow_obj)] for k in keys]]
    return [kind, [_gen_value(rng, depth + 1, targets, allow_obj) for _ in range(n)]]
  if r < 0.37:
    return ['r', rng.choice(SCOPES), rng.choice(targets), rng.randrange(3), rng.random() < 0.5]
  if r < 0.43:
    return ['m', rng.choice(MACROS)]
  if r < 0.47:
    return ['c', rng.choice(sorted(CONSTS))]
  if r < 0.55 and allow_obj:
    return ['o', rng.choice(_OBJ_KINDS)]
  return rng.choice(LEAVES)


def _gen_case(rng, tier, mode=None, n=None):
  mode = mode or rng.choice(['static', 'static', 'dynamic'])
  pool = list(TARGETS) if mode == 'static' or rng.random() < 0.3 else list(TARGETS)[:-1]
  targets = rng.sample(pool, rng.randint(1, 4))
  n = n or rng.choice([1, 2, 3, 3, 4, 4, 5])
  keys, bindings = set(), []
  while len(bindings) < n:
    if rng.random() < 0.2:
      key = ('', '%', rng.choice(MACROS))
    else:
      tgt = rng.choice(targets)
      key = (rng.choice(SCOPES), tgt, rng.choice(PARAMS.get(tgt, ['x', 'y', 'z', 'w'][:2 if tgt in (
          'a_Cls', 'a_meth') else 4])))
    if key in keys:
      continue
    keys.add(key)
    value = _gen_value(rng, 0, targets)
    while mode == 'dynamic' and not _literal(value) and any(d[0] == 'r' for d in _walk(value)):
      value = _gen_value(rng, 0, targets)  # programmatic values cannot use import aliases
    bindings.append({'scope': key[0], 'target': key[1], 'param': key[2],
                     'spell': rng.randrange(3), 'value': value})
  case = {'mode': mode, 'bindings': bindings,
          'via': rng.choice(['bind', 'parse']) if mode == 'static' else 'parse'}
  if mode == 'dynamic':
    used = sorted({TARGETS[t][0] for t in _used_targets(bindings)} - {'gin'})
    case['imports'] = [[m, rng.choice(['plain', 'plain_as'] if m == 'vq_top' else
                                      ['plain_as', 'from', 'from_as', 'from', 'parent'])]
                       for m in used]
    if rng.random() < 0.5:  # at most one import may bind the bare name `vq_pkg`
      for imp in case['imports']:
        if imp[0] == rng.choice(['vq_pkg.alpha', 'vq_pkg.beta']):
          imp[1] = 'plain'
    need = sorted({b['target'] for b in bindings if b['target'] != '%' and not _literal(b['value'])})
    case['prereg'] = sorted(set(need) | set(rng.sample(targets, rng.randint(0, 1))))
  else:
    case['imports'] = [[m, rng.choice(['plain', 'from'])]
                       for m in rng.sample(['vq_pkg.alpha', 'vq_top'], rng.choice([0, 0, 1, 2]))]
  idx = list(range(n))
  perms = list(itertools.permutations(idx))[1:]
  if n == 5 and tier == 'quick':
    perms = rng.sample(perms, 12)
  case['orders'] = [idx] + [list(p) for p in perms]
  case['widths'] = _gen_widths(rng, 3 if tier == 'quick' else 8)
  return case


def _gen_widths(rng, k):
  out = [[80, 4]]
  ind = rng.choice([0, 1, 2, 4, 8])
  out.append([ind + 1, ind])
  while len(out) < k:
    ind = rng.choice([0, 1, 2, 4, 8])
    out.append([rng.randint(ind + 1, 120), ind])
  return out


def _used_targets(bindings):
  used = set()

  def walk(d):
    if d[0] == 'r':
      used.add(d[2])
    for x in _children(d):
      walk(x)
  for b in bindings:
    if b['target'] != '%':
      used.add(b['target'])
    walk(b['value'])
  return used


def _b(scope, target, param, value, spell=0):
  return {'scope': scope, 'target': target, 'param': param, 'spell': spell, 'value': value}


def _corner_cases():
  ref = lambda t, scope='', ev=False, sp=0: ['r', scope, t, sp, ev]
  obj = lambda k: ['o', k]
  base = {'mode': 'static', 'via': 'bind', 'imports': [], 'widths': [[80, 4], [5, 4], [1, 0]]}
  groups = [
      # selectors / scopes / macro names that tie case-insensitively
      [_b('', 'a_Foo', 'x', ['i', 1]), _b('', 'a_foo', 'x', ['i', 2])],
      [_b('a', 'a_fa', 'x', ['i', 1]), _b('A', 'a_fa', 'x', ['i', 2]), _b('', 'b_fa', 'y', ['n'])],
      [_b('', '%', 'mm', ['i', 1]), _b('', '%', 'MM', ['i', 2]), _b('', 't_gg', 'x', ['m', 'MM'])],
      # macros and parameters without a literal form
      [_b('', '%', 'mm', obj('object')), _b('', '%', 'zeta', obj('unknown_ref')),
       _b('', 't_gg', 'x', ['m', 'mm']), _b('', 't_gg', 'y', obj('lambda'))],
      [_b('', 't_gg', 'x', ['l', [['i', 1], obj('inf')]]), _b('', 't_gg', 'y', ['d', [[['s', 'k1'],
                                                                                    obj('set')]]])],
      # methods, classes, same name in two modules, references of every spelling
      [_b('', 'a_meth', 'x', ref('a_Cls', 'a/b', True)), _b('zz/a', 'a_Cls', 'y', ref('a_meth')),
       _b('', 'a_fa', 'x', ref('b_fa', '', True, 2)), _b('', 'b_fa', 'x', ref('a_fa', 'B/a'))],
      [_b('a', 'singleton', 'constructor', ref('a_Cls')), _b('', 't_gg', 'x', ['c', 'CC']),
       _b('', 't_gg', 'y', ['c', 'vq.KK'])],
      [_b('', 't_gg', 'x', ['s', _WORDS * 3]), _b('', 't_gg', 'y', ['y', 'ab cd ' * 20]),
       _b('a/b', 't_gg', 'z', ['d', [[['s', 'k1'], ['l', [['s', _WORDS], ['t', [['i', 1]]]]]],
                                     [['i', 3], ['t', []]]]])],
  ]
  for g in groups:
    for mode, via in (('static', 'bind'), ('static', 'parse'), ('dynamic', 'parse')):
      if mode == 'dynamic' and any(b['target'] == 'singleton' for b in g):
        continue
      case = dict(base, mode=mode, via=via, bindings=g,
                  orders=[list(p) for p in itertools.permutations(range(len(g)))])
      if mode == 'dynamic':
        case['imports'] = [[m, 'from'] for m in sorted(
            {TARGETS[t][0] for t in _used_targets(g)})]
        case['prereg'] = sorted({b['target'] for b in g
                                 if b['target'] != '%' and not _literal(b['value'])})
      yield case
  # dynamic registration: every import form, two imports binding the same name, pre-registered
  for form in IMPORT_FORMS:
    yield dict(base, mode='dynamic', via='parse', prereg=['t_gg'], orders=[[0, 1, 2], [2, 1, 0]],
               imports=[['vq_pkg.alpha', form], ['vq_pkg.beta', 'from_as'], ['vq_top', 'plain']],
               bindings=[_b('a', 'a_fa', 'x', ref('b_fa', 'a', True)), _b('', 'b_fa', 'y', ['m', 'mm']),
                         _b('', 't_gg', 'x', obj('object'))])
  yield dict(base, mode='dynamic', via='parse', prereg=[], orders=[[0, 1], [1, 0]],
             imports=[['vq_pkg.alpha', 'plain'], ['vq_pkg.beta', 'plain']],
             bindings=[_b('', 'a_fa', 'x', ['i', 1]), _b('', 'b_fa', 'x', ref('a_Foo'))])
  yield dict(base, mode='dynamic', via='parse', prereg=['singleton', 'a_meth'], orders=[[0, 1]],
             imports=[['vq_top', 'plain_as']],
             bindings=[_b('s', 'singleton', 'constructor', obj('type')), _b('', 'a_meth', 'x', obj('nan'))])
  # a reference spelled with a selector that a later registration makes ambiguous
  yield dict(base, late=['b_fa'], orders=[[0, 1]],
             bindings=[_b('', 't_gg', 'x', ref('a_fa')), _b('', 't_gg', 'y', ['i', 1])])
  # a macro whose name contains a period (only reachable through bind_parameter)
  yield dict(base, orders=[[0, 1]], dotted_macro=True,
             bindings=[_b('', '%', 'vq.dotted', ['i', 3]), _b('', 't_gg', 'x', ['m', 'vq.dotted'])])
  # objects whose repr() is not even tokenisable / names an unknown configurable
  for kind in ('repr_unterminated', 'repr_atref'):
    yield dict(base, orders=[[0, 1]], bindings=[_b('', 't_gg', 'x', obj(kind)),
                                                _b('', 't_gg', 'y', ['i', 1])])


def cases(tier, rng):
  for case in _corner_cases():
    yield case
  for _ in range(400 if tier == 'quick' else 9000):
    yield _gen_case(rng, tier)
  for _ in range(20 if tier == 'quick' else 400):   # five bindings, every mode
    yield _gen_case(rng, tier, n=5)


def nontrivial(case):
  return bool(case['bindings'])


# ------------------------------------------------------------------- the check
def _features(case):
  """Stable description of the kind of input, for failure signatures."""
  f = [case['mode']]
  kinds = sorted({d[1] for b in case['bindings'] for d in _walk(b['value']) if d[0] == 'o'})
  f += ['late_registration'] * bool(case.get('late')) + ['dotted_macro'] * bool(case.get('dotted_macro'))
  f += ['obj=' + k for k in kinds if k.startswith('repr_')]
  return ' '.join(f)


def _walk(d):
  yield d
  for x in _children(d):
    for y in _walk(x):
      yield y


def _register(names):
  if 'a_meth' in names:
    gin.register(_ALPHA.Cls.meth)
  for name in names:
    mod, _, obj = TARGETS[name]
    if name not in ('a_meth', 'singleton'):
      gin.external_configurable(obj, module=mod)
  if 'a_meth' in names and 'a_Cls' not in names:
    gin.external_configurable(_ALPHA.Cls, module='vq_pkg.alpha')


def _apply(case, order):
  """Makes the bindings of the case, in the given order, into a cleared configuration."""
  gin.clear_config()
  dynamic = case['mode'] == 'dynamic'
  prefix = {}
  lines = ['from __gin__ import dynamic_registration'] if dynamic else []
  for mod, form in case['imports']:
    stmt, prefix[mod] = IMPORT_FORMS[form](mod)
    lines.append(stmt)
  prefix['gin'] = 'gin'

  def spell(target, i):
    mod, name, _ = TARGETS[target]
    if dynamic:
      return prefix[mod] + '.' + name
    options = _static_spellings(target)
    return options[i % len(options)]

  later = []
  for i in order:
    b = case['bindings'][i]
    if b['target'] == '%':
      key = b['param'] if case['via'] == 'parse' else '%' + b['param']
    else:
      key = (b['scope'] + '/' if b['scope'] else '') + spell(b['target'], b['spell']) + '.' + b['param']
    if case['via'] == 'parse' and _literal(b['value']) and '.' not in b['param']:
      lines.append('%s = %s' % (key, _source(b['value'], spell)))
    else:
      later.append((b, key))
  gin.parse_config('\n'.join(lines))
  for b, key in later:   # programmatic bindings (always after the parsed text)
    if b['target'] == '%':
      key = '%' + b['param']
    elif dynamic:
      key = (b['scope'], gc._INVERSE_REGISTRY[TARGETS[b['target']][2]].selector, b['param'])
    gin.bind_parameter(key, _python(b['value'], spell))


def _expected(case):
  exp = {}
  for b in case['bindings']:
    if _literal(b['value']):
      key = ((b['param'], '<macro>', 'value') if b['target'] == '%' else
             (b['scope'], b['target'], b['param']))
      exp[key] = _canon(b['value'])
  return exp


def _observed():
  obs = {}
  for (scope, selector), params in gc._CONFIG.items():
    name = _NAME_OF.get(id(gc._REGISTRY[selector].wrapped), selector)
    for param, value in params.items():
      obs[(scope, name, param)] = _norm(value)
  return obs


def _imports():
  return sorted((s.module, s.is_from, s.alias or '') for s in gc._IMPORTS)


_STMT = re.compile(r'^([A-Za-z_][\w./]*) = ')


def _structure(text):
  """Problems with 'groups configurables alphabetically with parameters sorted'."""
  problems, headers, names, section, params = [], [], [], None, []
  for line in text.split('\n'):
    if line.startswith('# Parameters for ') and line.endswith(':'):
      section = line[len('# Parameters for '):-1]
      headers.append(section)
      sel = section.rsplit('/', 1)[-1].lower().split('.')
      names.append('.'.join(sel[-2:]) if sel[-2:] == ['cls', 'meth'] else sel[-1])
      params = []
    elif line.startswith('# Macros:'):
      section = None
    m = _STMT.match(line)
    if m and not line.startswith(('import ', 'from ')) and section is not None:
      owner, _, param = m.group(1).rpartition('.')
      if owner != section:
        problems.append('binding %s under header %s' % (m.group(1), section))
      params.append(param)
      if params != sorted(set(params)):
        problems.append('parameters of %s not sorted: %s' % (section, params))
  if len(set(headers)) != len(headers):
    problems.append('repeated section: %s' % headers)
  if names != sorted(names):
    problems.append('sections not in alphabetical order of configurable name: %s' % headers)
  return problems


def _markdown(text):
  want = ['    ' + l for l in text.splitlines() if not l.startswith('#')]
  got = [l for l in gc.markdown(text).splitlines() if l.startswith('    ') and l != '    # None.']
  return [] if want == got else [[l for l in want if l not in got][:2], len(want), len(got)]


def check(case):
  fails = []
  feat = _features(case)

  def fail(clause, expected, observed, sig):
    fails.append({'clause': clause, 'expected': expected, 'observed': str(observed)[:300],
                  'signature': '%s: %s [%s]' % (clause, sig, feat)})

  def attempt(clause, fn, *args):
    try:
      return fn(*args)
    except Exception as e:  # gin may not raise here; the harness would report it less precisely
      fail(clause, 'no exception', '%s: %s' % (type(e).__name__, e), 'exc=' + type(e).__name__)
      return None

  for name, d in CONSTS.items():
    gin.constant(name, _python(d, None))
  if case['mode'] == 'static':
    _register([t for t in TARGETS if t not in case.get('late', [])])
  else:
    _register(case['prereg'])
  expected = _expected(case)
  (w0, i0), reference = case['widths'][0], None
  for oi, order in enumerate(case['orders']):
    _apply(case, order)
    if oi == 0:
      _register(case.get('late', []))
      imports0 = _imports()
    text = attempt('serialises', gc.config_str, w0, i0)
    if text is None:
      return fails
    if oi == 0:
      reference = text
    elif text != reference:
      fail('order_independent', reference, text, 'text differs between binding orders')
      break
  if len(case['orders']) > 1:
    _apply(case, case['orders'][0])
  texts = [(w, i, attempt('serialises', gc.config_str, w, i)) for w, i in case['widths']]
  for w, i, text in texts:
    if text is None:
      continue
    where = 'width=%d indent=%d' % (w, i)
    for p in _structure(text):
      fail('grouped_sorted', 'one sorted section per configurable', p + ' ' + where, p.split(':')[0][:40])
    bad = _markdown(text)
    if bad:
      fail('markdown_verbatim', 'every binding line kept', bad, 'binding lines altered')
    gin.clear_config()
    if attempt('always_parses', gc.parse_config, text) is None:
      fails[-1]['observed'] += ' ' + where
      continue
    observed = _observed()
    for key in sorted(set(expected) | set(observed), key=repr):
      if expected.get(key) != observed.get(key):
        kind = 'lost' if key not in observed else 'extra' if key not in expected else 'changed'
        fail('roundtrip_bindings', [key, expected.get(key)], [observed.get(key), where],
             '%s binding of a %s' % (kind, (expected.get(key) or observed.get(key))[0]))
    now = _imports()
    names = [s[2] or (s[0].split('.')[-1] if s[1] else s[0].split('.')[0]) for s in imports0]
    lost = [s for s in imports0 if s[0] not in [n[0] for n in now] or
            (len(set(names)) == len(names) and s not in now)]
    if lost:
      fail('roundtrip_imports', imports0, now, 'recorded import missing or rewritten')
    again = attempt('serialises', gc.config_str, w, i)
    if again is not None and again != text:
      fail('reserialise_identical', text, again, 'second serialisation differs')
    if again is not None:   # the recorded imports are themselves a fixpoint
      gin.clear_config()
      if attempt('always_parses', gc.parse_config, again) is not None and _imports() != now:
        fail('roundtrip_imports', now, _imports(), 'imports change on the second round trip')
  return fails
