"""C06 bounded stand-in: config_str() round-trips, is canonical and always parses.

Oracle (no gin serialiser/parser result is compared with itself except where the
property itself is a fixpoint statement): every case is built from JSON value
*descriptors*; the expected configuration after the round trip is computed from
the descriptors alone (`_canon`), the configuration gin holds after
`parse_config(config_str())` is normalised by `_norm` (exact types, references as
(scopes, wrapped function, evaluate)) and the two are compared.

Clause labels -> sentence of the property
  serialises           "the text returned by config_str()" exists: config_str() returns for
                       every reachable configuration (it may not raise)
  always_parses        "always parses: values that have no literal form are omitted rather
                       than emitted unparseably"
  roundtrip_bindings   "restores every literally representable binding (same scope,
                       configurable, parameter and an equal value of the same type)"; a
                       binding that comes back although its value has no literal form, or
                       under another key, is reported here as `extra`
  roundtrip_imports    "... and the recorded imports"
  reserialise_identical "serialising again yields the identical text"
  order_independent    "depends only on the set of bindings, not on the order in which they
                       were made"
  grouped_sorted       "groups configurables alphabetically with parameters sorted"
  markdown_verbatim    "Its Markdown rendering keeps every binding line verbatim"
Every clause is evaluated "with or without dynamic registration and for any line width
larger than the continuation indent" (case fields `mode`, `widths`).

Histories (case field `history`, dynamic registration; quantifier "configurations reachable
by parsing ... histories"): (a) a first file imports module M1 and binds values holding
`@references` (plain and evaluated) into M1; (b) config_str() is called and/or repr()/hash()
of every stored reference is taken; (c) a second file imports a different module M2 whose
bound name equals that of M1's import, and binds into M2 -- when M2 sorts before M1 the
import manager must now re-alias M1's import and spell M1's references through the new alias;
(d) config_str() must still serialise, parse into a cleared configuration, restore the
bindings of both files (references are compared by the function they resolve to) and
re-serialise identically.  The expected bindings come from the descriptors of the two files.
"""
import itertools
import re
import sys
import types

import gin
from gin import config as gc

BOUNDS = ('configurations of <= 5 bindings with distinct keys over 8 configurables (2 same-named in '
          'different modules, 2 differing only in case, a class, its method, gin.singleton) x 6 '
          'scopes x 4 macro names x 2 constants; values of nesting depth <= 3 over a fixed pool of '
          'literals, references, macros and 16 kinds of non-literal object; static registration '
          '(bind_parameter and/or parsed text) or dynamic registration (5 import forms per module, '
          'bindings in the text and/or programmatic on pre-registered configurables); all orders '
          'of <= 4 bindings, 12 sampled (quick) / all 120 (thorough) orders of 5; per case 3 '
          '(quick) / 8 (thorough) pairs (max_line_length, continuation_indent) with indent in '
          '{0,1,2,4,8} and indent < length <= 120, always (80, 4) and one length = indent + 1. '
          'Six input shapes on which /repo is known to fail (see _features and the end of '
          '_corner_cases) occur only as fixed corner cases, not in the sampled part.  Histories '
          'under dynamic registration: two parsed files whose imports (5 pairs of import forms x '
          'either order of 2 same-named synthetic modules) bind the same name, <= 4 bindings each '
          'over 5 configurables per module with values of depth <= 2 holding references, between '
          'them one of 6 probe sequences over {config_str, repr, hash} of the stored references: '
          '60 fixed + 60 (quick) / 1500 (thorough) sampled.')
EXHAUSTIVE = {'quick': False, 'thorough': False}

# ---------------------------------------------------------------- the universe
_SRC = '''
def fa(x=None, y=None, z=None, w=None): return (x, y, z, w)
def Foo(x=None, y=None, z=None, w=None): return (x, y, z, w)
def foo(x=None, y=None, z=None, w=None): return (x, y, z, w)
def gg(x=None, y=None, z=None, w=None): return (x, y, z, w)
class Cls:
  def __init__(self, x=None, y=None): self.v = (x, y)
  def meth(self, x=None, y=None): return (x, y)
'''


def _module(name):
  if name not in sys.modules:
    mod = types.ModuleType(name)
    mod.__path__ = []
    exec(_SRC, mod.__dict__)  # functions get __module__ == name
    sys.modules[name] = mod
    if '.' in name:
      parent, child = name.rsplit('.', 1)
      setattr(_module(parent), child, mod)
  return sys.modules[name]


_ALPHA, _BETA, _TOP = (_module(n) for n in ('vq_pkg.alpha', 'vq_pkg.beta', 'vq_top'))
# target name -> (module, qualified name, object)
TARGETS = {
    'a_fa': ('vq_pkg.alpha', 'fa', _ALPHA.fa), 'b_fa': ('vq_pkg.beta', 'fa', _BETA.fa),
    'a_Foo': ('vq_pkg.alpha', 'Foo', _ALPHA.Foo), 'a_foo': ('vq_pkg.alpha', 'foo', _ALPHA.foo),
    't_gg': ('vq_top', 'gg', _TOP.gg), 'a_Cls': ('vq_pkg.alpha', 'Cls', _ALPHA.Cls),
    'a_meth': ('vq_pkg.alpha', 'Cls.meth', _ALPHA.Cls.meth),
    'singleton': ('gin', 'singleton', gc.singleton),
}
_NAME_OF = {id(v[2]): k for k, v in TARGETS.items()}
_NAME_OF[id(gc.macro)] = '<macro>'
_NAME_OF[id(gc._retrieve_constant)] = '<constant>'
PARAMS = {'singleton': ['constructor'], 'a_Cls': ['x', 'y'], 'a_meth': ['x', 'y']}
SCOPES = ['', 'a', 'a/b', 'A', 'B/a', 'zz/a']
MACROS = ['mm', 'MM', 'a/mm', 'zeta']
CONSTS = {'CC': ['i', 5], 'vq.KK': ['o', 'object']}
_last = lambda m: m.rsplit('.', 1)[-1]
IMPORT_FORMS = {  # form -> (statement, prefix under which the module's names are reached)
    'plain': lambda m: ('import %s' % m, m),
    'plain_as': lambda m: ('import %s as %s_al' % (m, _last(m)), _last(m) + '_al'),
    'from': lambda m: ('from %s import %s' % tuple(m.rsplit('.', 1)), m.rsplit('.', 1)[1]),
    'from_as': lambda m: ('from %s import %s as %s_fr' % (tuple(m.rsplit('.', 1)) + (_last(m),)),
                          _last(m) + '_fr'),
    'parent': lambda m: ('import %s' % m.split('.')[0], m),
    # corner cases only: the alias is the name of another module that config_str() must import
    'clash': lambda m: ('from %s import %s as vq_top' % tuple(m.rsplit('.', 1)), 'vq_top'),
}
_ALL_SELECTORS = ['%s.%s' % v[:2] for v in TARGETS.values()] + ['gin.macro', 'gin.constant']


# Histories: two modules with the same last name; the first one sorts after the second.
H_MODS = ['vq_zed.shared', 'vq_abc.shared']
H_NAMES = ['fa', 'Foo', 'foo', 'gg', 'Cls']
for _m in H_MODS:
  for _n in H_NAMES:
    _NAME_OF[id(getattr(_module(_m), _n))] = '%s_%s' % (_m.split('.')[0][3:], _n)
# pair -> (first import, its prefix, second import, its prefix); {m} module, {p} its package,
# {q} the package of the other file's module
H_PAIRS = {
    'from_from': ('from {p} import shared', 'shared', 'from {p} import shared', 'shared'),
    'as_as': ('import {m} as sh', 'sh', 'import {m} as sh', 'sh'),
    'from_vs_as': ('from {p} import shared', 'shared', 'import {m} as shared', 'shared'),
    'fromas_fromas': ('from {p} import shared as sh', 'sh', 'from {p} import shared as sh', 'sh'),
    'plain_vs_as': ('import {m}', '{m}', 'import {m} as {q}', '{q}'),
}
H_PROBES = [['config_str', 'repr', 'hash'], ['repr', 'config_str'], ['config_str'], ['hash'],
            ['repr', 'hash', 'config_str', 'config_str'], []]


class _Repr:

  def __init__(self, text):
    self.text = text

  def __repr__(self):
    return self.text


_OBJECTS = {
    'object': object, 'lambda': lambda: (lambda: 0), 'set': lambda: {1, 2}, 'emptyset': set,
    'frozenset': lambda: frozenset([1]), 'inf': lambda: float('inf'),
    'neginf': lambda: float('-inf'), 'nan': lambda: float('nan'), 'type': lambda: int,
    'range': lambda: range(3), 'ellipsis': lambda: Ellipsis,
    'repr_multiline': lambda: _Repr('Foo(\n  1)'), 'repr_words': lambda: _Repr('some thing'),
    'repr_int': lambda: _Repr('42'), 'repr_list': lambda: _Repr("[1, 'a']"),
    'unknown_ref': lambda: gc._UnknownConfigurableReference('nope', True),
    # adversarial reprs, used by fixed corner cases only
    'repr_unterminated': lambda: _Repr("'abc"), 'repr_atref': lambda: _Repr('@nope'),
}
_OBJ_KINDS = list(_OBJECTS)[:16]

_WORDS = 'lorem ipsum dolor sit amet consectetur adipiscing elit sed do eiusmod tempor'
STRINGS = ['', 'abc', "it's", 'say "hi"', 'both \' and "', 'back\\slash', 'c:\\', 'nl\ntab\t',
           'uni \u00e9 \u6f22', '# not a comment', '@fa', '%mm', 'x = 1', "'''", ' lead',
           '\x00nul', _WORDS, _WORDS * 3, 'x' * 100, 'a.b/c', 'import os']
LEAVES = ([['n'], ['b', True], ['b', False]] + [['i', i] for i in (0, 1, -1, 7, 2**63, -10**20)] +
          [['f', f] for f in ('0.0', '-0.0', '1.5', '-2.5e-07', '1e+100', '3.14159')] +
          [['s', s] for s in STRINGS] +
          [['y', 'ab'], ['y', '\xff\x00'], ['y', 'ab cd ' * 20]])
DICT_KEYS = [['s', 'k1'], ['s', 'k2'], ['i', 3], ['i', -4], ['t', [['i', 1], ['s', 'a']]], ['n'],
             ['f', '2.5'], ['y', 'k'], ['s', 'K1']]


# ---------------------------------------------------- descriptors -> everything
def _literal(d):
  return all(_literal(x) for x in _children(d)) and d[0] != 'o'


def _children(d):
  if d[0] in 'lt':
    return d[1]
  if d[0] == 'd':
    return [x for kv in d[1] for x in kv]
  return []


def _canon(d):
  """Expected normal form of the value after a round trip (from the descriptor only)."""
  t = d[0]
  if t in 'lt':
    return [t, [_canon(x) for x in d[1]]]
  if t == 'd':
    return ['d', sorted(([_canon(k), _canon(v)] for k, v in d[1]), key=repr)]
  if t == 'r':
    return ['ref', d[1], d[2], d[4]]
  if t == 'm':
    return ['ref', d[1], '<macro>', True]
  if t == 'c':
    return ['ref', d[1], '<constant>', True]
  if t == 'f':
    return ['f', repr(float(d[1]))]
  return list(d)


def _norm(v):
  """Normal form of a value held by gin (exact types only)."""
  t = type(v)
  if t is gc.ConfigurableReference:
    return ['ref', '/'.join(v.scopes), _NAME_OF.get(id(v.configurable.wrapped), '?'), v.evaluate]
  if t is list or t is tuple:
    return ['l' if t is list else 't', [_norm(x) for x in v]]
  if t is dict:
    return ['d', sorted(([_norm(k), _norm(x)] for k, x in v.items()), key=repr)]
  if v is None:
    return ['n']
  for tag, typ in (('b', bool), ('i', int), ('s', str)):
    if t is typ:
      return [tag, v]
  if t is float:
    return ['f', repr(v)]
  if t is bytes:
    return ['y', v.decode('latin1')]
  return ['?', t.__name__]


def _source(d, spell):
  """Gin source text of a descriptor, written independently of gin's serialiser."""
  t = d[0]
  if t == 'l':
    return '[' + ', '.join(_source(x, spell) for x in d[1]) + ']'
  if t == 't':
    return '(' + ''.join(_source(x, spell) + ', ' for x in d[1]) + ')'
  if t == 'd':
    return '{' + ', '.join('%s: %s' % (_source(k, spell), _source(v, spell)) for k, v in d[1]) + '}'
  if t == 'r':
    return '@' + (d[1] + '/' if d[1] else '') + spell(d[2], d[3]) + ('()' if d[4] else '')
  if t in 'mc':
    return '%' + d[1]
  return repr(_python(d, spell))


def _python(d, spell):
  """The Python object a descriptor stands for (references are made by gin.parse_value)."""
  t = d[0]
  if t in 'lt':
    return (list if t == 'l' else tuple)(_python(x, spell) for x in d[1])
  if t == 'd':
    return {_python(k, spell): _python(v, spell) for k, v in d[1]}
  if t in 'rmc':
    return gc.parse_value(_source(d, spell))
  if t == 'o':
    return _OBJECTS[d[1]]()
  return {'n': lambda: None, 'f': lambda: float(d[1]),
          'y': lambda: d[1].encode('latin1')}.get(t, lambda: d[1])()


def _static_spellings(target, absent=()):
  """Unambiguous dotted suffixes of the target's selector, shortest first."""
  mod, name, _ = TARGETS[target]
  parts = (mod + '.' + name).split('.')
  keep = 2 if target == 'a_meth' else 1    # a method needs `Class.method`
  out = []
  for i in range(len(parts) - keep, -1, -1):
    suffix = '.'.join(parts[i:])
    hits = [s for s in _ALL_SELECTORS if (s == suffix or s.endswith('.' + suffix)) and s not in absent]
    if len(hits) == 1 or i == 0:
      out.append(suffix)
  return out


# ------------------------------------------------------------- case generation
def _walk(d):
  yield d
  for x in _children(d):
    for y in _walk(x):
      yield y


def _refs(b):
  return {d[2] for d in _walk(b['value']) if d[0] == 'r'}


def _b(scope, target, param, value, spell=0, prog=False):
  """One binding; `prog`: made with bind_parameter (else written into the parsed text)."""
  return {'scope': scope, 'target': target, 'param': param, 'spell': spell, 'value': value,
          'prog': bool(prog or not _literal(value) or (target == '%' and '.' in param))}


def _features(case):
  """Stable description of the kind of input, for failure signatures.  Everything after
  the mode is an input shape on which the current /repo is known to violate the property."""
  f, groups = [case['mode']], {}
  for b in case['bindings']:
    if b['target'] != '%':
      groups.setdefault((b['scope'], b['target']), []).append(_literal(b['value']))
  if not all(any(g) for g in groups.values()):
    f.append('configurable_with_only_nonliteral_values')
  if case['mode'] == 'dynamic' and 'a_meth' not in case['prereg'] and any(
      'a_Cls' in _refs(b) and 'a_meth' in _refs(b) | {b['target']} for b in case['bindings']):
    f.append('class_ref_in_statement_that_registers_its_method')
  f += ['late_registration'] * bool(case.get('late'))
  f += ['dotted_macro'] * any(b['target'] == '%' and '.' in b['param'] for b in case['bindings'])
  return f + sorted({'obj=' + d[1] for b in case['bindings'] for d in _walk(b['value'])
                     if d[0] == 'o' and d[1] not in _OBJ_KINDS})


def _gen_value(rng, depth, targets):
  r = rng.random()
  if depth < 3 and r < 0.25:
    kind, n = rng.choice('ltd'), rng.choice([0, 1, 1, 2, 3, 5])
    if kind == 'd':
      return ['d', [[k, _gen_value(rng, depth + 1, targets)] for k in rng.sample(DICT_KEYS, n)]]
    return [kind, [_gen_value(rng, depth + 1, targets) for _ in range(n)]]
  if r < 0.37:
    return ['r', rng.choice(SCOPES), rng.choice(targets), rng.randrange(3), rng.random() < 0.5]
  if r < 0.47:
    return ['m', rng.choice(MACROS)] if r < 0.43 else ['c', rng.choice(sorted(CONSTS))]
  return ['o', rng.choice(_OBJ_KINDS)] if r < 0.57 else rng.choice(LEAVES)


def _finish(case):
  """Derives the imports needed by the parsed text and the pre-registrations needed by the
  programmatic bindings (dynamic registration only)."""
  text = [b for b in case['bindings'] if not b['prog']]
  used = {b['target'] for b in text if b['target'] != '%'}.union(*map(_refs, text))
  case['modules'] = sorted({TARGETS[t][0] for t in used} - {'gin'})
  prog = [b for b in case['bindings'] if b['prog']]
  prereg = set(case.get('prereg', [])).union(
      {b['target'] for b in prog if b['target'] != '%'}, *map(_refs, prog))
  # a class is always pre-registered together with its method (registering the method later
  # would re-register the class under the selector of the import alias)
  case['prereg'] = sorted(prereg | ({'a_meth'} if 'a_Cls' in prereg else set()))
  return case


def _gen_case(rng, tier, n=None):
  mode = rng.choice(['static', 'static', 'dynamic'])
  pool = list(TARGETS) if mode == 'static' or rng.random() < 0.3 else list(TARGETS)[:-1]
  targets = rng.sample(pool, rng.randint(1, 4))
  n = n or rng.choice([1, 2, 3, 3, 4, 4, 5])
  all_prog = mode == 'static' and rng.random() < 0.5
  while True:
    keys, bindings = set(), []
    while len(bindings) < n:
      tgt = '%' if rng.random() < 0.2 else rng.choice(targets)
      params = MACROS if tgt == '%' else PARAMS.get(tgt, ['x', 'y', 'z', 'w'])
      key = ('' if tgt == '%' else rng.choice(SCOPES), tgt, rng.choice(params))
      if key not in keys:
        keys.add(key)
        bindings.append(_b(*key, _gen_value(rng, 0, targets), rng.randrange(3),
                           all_prog or rng.random() < 0.2))
    case = _finish({'mode': mode, 'bindings': bindings, 'prereg': rng.sample(targets, rng.randint(0, 1))})
    if len(_features(case)) == 1:   # the known-defect shapes are confined to the corner cases
      break
  forms = list(IMPORT_FORMS)[:5] if mode == 'dynamic' else ['plain', 'from']
  mods = case.pop('modules')
  if mode == 'static':   # imports are recorded and re-emitted without dynamic registration too
    mods = rng.sample(['vq_pkg.alpha', 'vq_top'], rng.choice([0, 0, 1, 2]))
  case['imports'] = [[m, rng.choice(forms if '.' in m else ['plain', 'plain_as'][:len(forms) - 1])]
                     for m in mods]
  perms = list(itertools.permutations(range(n)))
  if n == 5 and tier == 'quick':
    perms = perms[:1] + rng.sample(perms[1:], 12)
  case['orders'] = [list(p) for p in perms]
  case['widths'] = [[80, 4]]
  for k in range(2 if tier == 'quick' else 7):
    ind = rng.choice([0, 1, 2, 4, 8])
    case['widths'].append([ind + 1 if k == 0 else rng.randint(ind + 1, 120), ind])
  return case


def _corner_cases():
  ref = lambda t, scope='', ev=False, sp=0: ['r', scope, t, sp, ev]
  obj = lambda k: ['o', k]
  one = ['i', 1]
  widths = [[80, 4], [5, 4], [1, 0]]

  def make(mode, bindings, orders=None, prog=False, imports=None, **kw):
    bindings = [_b(*b[:4], prog=b[1] == 't_gg' if prog is None else prog) for b in bindings]
    case = _finish(dict(kw, mode=mode, bindings=bindings, widths=widths, orders=orders or [
        list(p) for p in itertools.permutations(range(len(bindings)))]))
    mods = case.pop('modules')
    case['imports'] = imports or [[m, 'from' if '.' in m else 'plain'] for m in mods] * (mode == 'dynamic')
    return case

  groups = [
      # selectors / scopes / macro names that tie case-insensitively
      [('', 'a_Foo', 'x', one), ('', 'a_foo', 'x', ['i', 2])],
      [('a', 'a_fa', 'x', one), ('A', 'a_fa', 'x', ['i', 2]), ('', 'b_fa', 'y', ['n'])],
      [('', '%', 'mm', one), ('', '%', 'MM', ['i', 2]), ('', 't_gg', 'x', ['m', 'MM'])],
      # macros and parameters without a literal form, next to ones that have it
      [('', '%', 'mm', obj('object')), ('', '%', 'zeta', obj('unknown_ref')),
       ('', 't_gg', 'x', ['m', 'mm']), ('', 't_gg', 'y', obj('lambda'))],
      [('', 't_gg', 'x', ['l', [one, obj('inf')]]), ('', 't_gg', 'z', one),
       ('', 't_gg', 'y', ['d', [[['s', 'k1'], obj('set')]]]), ('', '%', 'a/mm', obj('nan'))],
      # methods, classes, same name in two modules, references of every spelling
      [('', 'a_meth', 'x', ref('a_Cls', 'a/b', True)), ('zz/a', 'a_Cls', 'y', ref('a_meth')),
       ('', 'a_fa', 'x', ref('b_fa', '', True, 2)), ('', 'b_fa', 'x', ref('a_fa', 'B/a'))],
      [('a', 'singleton', 'constructor', ref('a_Cls')), ('', 't_gg', 'x', ['c', 'CC']),
       ('', 't_gg', 'y', ['c', 'vq.KK'])],
      [('', 't_gg', 'x', ['s', _WORDS * 3]), ('', 't_gg', 'y', ['y', 'ab cd ' * 20]),
       ('a/b', 't_gg', 'z', ['d', [[['s', 'k1'], ['l', [['s', _WORDS], ['t', [one]]]]],
                                   [['i', 3], ['t', []]]]])],
  ]
  for g in groups:
    yield make('static', g, prog=True)
    yield make('static', g)
    yield make('dynamic', g, prereg=['a_meth'])
    yield make('dynamic', g, prog=True)   # everything pre-registered, nothing imported by the text
  # dynamic registration: every import form, two imports binding the same name
  for form in list(IMPORT_FORMS)[:5]:
    yield make('dynamic', [('a', 'a_fa', 'x', ref('b_fa', 'a', True)), ('', 'b_fa', 'y', ['m', 'mm']),
                           ('', 't_gg', 'x', obj('object')), ('', 't_gg', 'y', one)],
               imports=[['vq_pkg.alpha', form], ['vq_pkg.beta', 'from_as'], ['vq_top', 'plain']],
               orders=[[0, 1, 2, 3], [3, 1, 2, 0]])
  yield make('dynamic', [('', 'a_fa', 'x', one), ('', 't_gg', 'x', ['i', 2])], prog=None,
             imports=[['vq_pkg.alpha', 'clash']])   # t_gg is bound programmatically
  for forms in (('plain', 'plain'), ('plain_as', 'parent'), ('parent', 'plain')):
    yield make('dynamic', [('', 'a_fa', 'x', one), ('', 'b_fa', 'x', ref('a_Foo')), ('', '%', 'mm', one)],
               imports=[['vq_pkg.alpha', forms[0]], ['vq_pkg.beta', forms[1]]])
  # ---- input shapes on which the current /repo is known to violate the property
  # every value bound for a configurable lacks a literal form
  yield make('static', [('', 't_gg', 'x', obj('object')), ('', 'a_fa', 'x', one)], [[0, 1]])
  # dynamic registration: `Cls.meth.x = @Cls()` is the statement that registers the method
  yield make('dynamic', [('', 'a_meth', 'x', ref('a_Cls', '', True)), ('', 'a_Cls', 'x', one)])
  # a reference spelled with a selector that a later registration makes ambiguous
  yield make('static', [('', 't_gg', 'x', ref('a_fa')), ('', 't_gg', 'y', one)], [[0, 1]], late=['b_fa'])
  # a macro whose name contains a period (only reachable through bind_parameter)
  yield make('static', [('', '%', 'vq.dotted', ['i', 3]), ('', 't_gg', 'x', ['m', 'vq.dotted'])], [[0, 1]])
  # objects whose repr() is not tokenisable / names an unknown configurable
  for kind in ('repr_unterminated', 'repr_atref'):
    yield make('static', [('', 't_gg', 'x', obj(kind)), ('', 't_gg', 'y', one)], [[0, 1]])


def _hb(file, scope, target, param, value):
  return {'file': file, 'scope': scope, 'target': target, 'param': param, 'value': value}


def _history_fixed():
  ref = lambda t, scope='', ev=False: ['r', scope, t, 0, ev]
  first = [_hb(1, '', 'gg', 'x', ref('fa', '', True)), _hb(1, '', 'fa', 'x', ['i', 3]),
           _hb(1, '', 'gg', 'y', ['l', [ref('Foo', 'a'), ['i', 1]]]),
           _hb(1, 'a/b', 'gg', 'z', ['d', [[['s', 'k1'], ref('Cls')], [['i', 3], ref('foo', 'B/a', True)]]])]
  second = [_hb(2, '', 'fa', 'x', ['i', 5]), _hb(2, '', 'gg', 'z', ref('foo')),
            _hb(2, 'a', 'gg', 'x', ['t', [ref('fa', '', True), ['s', 'abc']]])]
  for pair in H_PAIRS:
    for probe in H_PROBES:
      for mods in (H_MODS, H_MODS[::-1]):   # re-alias of the first import / of the second one
        yield {'mode': 'dynamic', 'history': {'mods': mods, 'pair': pair, 'probe': probe},
               'bindings': first + second, 'widths': [[80, 4], [5, 4], [1, 0]]}


def _gen_hvalue(rng, depth):
  r = rng.random()
  if depth < 2 and r < 0.3:
    kind, n = rng.choice('ltd'), rng.choice([1, 1, 2, 3])
    if kind == 'd':
      return ['d', [[k, _gen_hvalue(rng, depth + 1)] for k in rng.sample(DICT_KEYS, n)]]
    return [kind, [_gen_hvalue(rng, depth + 1) for _ in range(n)]]
  if r < 0.75:
    return ['r', rng.choice(SCOPES), rng.choice(H_NAMES), 0, rng.random() < 0.5]
  return rng.choice(LEAVES)


def _gen_history(rng, tier):
  bindings, keys = [], set()
  for file in (1, 2):
    for _ in range(rng.randint(1, 4)):
      key = (file, rng.choice(SCOPES), rng.choice(H_NAMES), rng.choice('xy'))
      if key not in keys:
        keys.add(key)
        bindings.append(_hb(*key, _gen_hvalue(rng, 0)))
  if not any(d[0] == 'r' for b in bindings if b['file'] == 1 for d in _walk(b['value'])):
    bindings[0]['value'] = ['r', '', 'fa', 0, True]
  ind = rng.choice([0, 1, 2, 4, 8])
  return {'mode': 'dynamic', 'bindings': bindings, 'widths': [[80, 4], [rng.randint(ind + 1, 120), ind]],
          'history': {'mods': H_MODS if rng.random() < 0.75 else H_MODS[::-1],
                      'pair': rng.choice(sorted(H_PAIRS)), 'probe': rng.choice(H_PROBES)}}


def cases(tier, rng):
  for case in _corner_cases():
    yield case
  for case in _history_fixed():
    yield case
  for _ in range(60 if tier == 'quick' else 1500):
    yield _gen_history(rng, tier)
  for _ in range(500 if tier == 'quick' else 6000):
    yield _gen_case(rng, tier)
  for _ in range(20 if tier == 'quick' else 300):
    yield _gen_case(rng, tier, n=5)


def nontrivial(case):
  return bool(case['bindings'])


# ------------------------------------------------------------------- the check
def _register(names):
  if 'a_meth' in names:
    gin.register(_ALPHA.Cls.meth)
  for name in sorted(set(names) - {'a_meth', 'singleton'} | ({'a_Cls'} if 'a_meth' in names else set())):
    gin.external_configurable(TARGETS[name][2], module=TARGETS[name][0])


def _apply(case, order):
  """Makes the bindings of the case, in the given order, into a cleared configuration:
  first the parsed text (imports, then the non-`prog` bindings), then the `prog` ones."""
  gin.clear_config()
  dynamic = case['mode'] == 'dynamic'
  lines, prefix = ['from __gin__ import dynamic_registration'] * dynamic, {'gin': 'gin'}
  for mod, form in case['imports']:
    stmt, prefix[mod] = IMPORT_FORMS[form](mod)
    lines.append(stmt)
  absent = ['%s.%s' % TARGETS[t][:2] for t in case.get('late', [])]

  def spell(target, i, prog=False):
    mod, name, _ = TARGETS[target]
    if dynamic:   # programmatic code cannot see the import aliases of a config file
      return (mod if prog else prefix[mod]) + '.' + name
    options = _static_spellings(target, absent)
    return options[i % len(options)]

  assert sorted(order) == list(range(len(case['bindings'])))
  ordered = [case['bindings'][i] for i in order]
  for b in ordered:
    if not b['prog']:
      key = b['param'] if b['target'] == '%' else '%s%s.%s' % (
          b['scope'] + '/' * bool(b['scope']), spell(b['target'], b['spell']), b['param'])
      lines.append('%s = %s' % (key, _source(b['value'], spell)))
  gin.parse_config('\n'.join(lines))
  for b in ordered:
    if b['prog']:
      pspell = lambda t, i: spell(t, i, True)
      key = '%' + b['param'] if b['target'] == '%' else (
          b['scope'], pspell(b['target'], b['spell']), b['param'])
      gin.bind_parameter(key, _python(b['value'], pspell))


def _expected(case):
  exp = {}
  for b in case['bindings']:
    # a macro whose name is dotted has no textual definition in the language (`a.b = v` is a
    # binding of parameter b of a; scopes cannot contain dots): like a value without a literal
    # form it has to be omitted, not emitted
    if b['target'] == '%' and '.' in b['param']:
      continue
    if _literal(b['value']):
      key = ((b['param'], '<macro>', 'value') if b['target'] == '%' else
             (b['scope'], b['target'], b['param']))
      exp[key] = _canon(b['value'])
  return exp


def _observed():
  obs = {}
  for (scope, selector), params in gc._CONFIG.items():
    name = _NAME_OF.get(id(gc._REGISTRY[selector].wrapped), selector)
    for param, value in params.items():
      obs[(scope, name, param)] = _norm(value)
  return obs


def _imports():
  return sorted((s.module, s.is_from, s.alias or '') for s in gc._IMPORTS)


_STMT = re.compile(r'^([A-Za-z_][\w./]*) = ')


def _structure(text):
  """Problems with 'groups configurables alphabetically with parameters sorted'."""
  problems, headers, exact, section, params = [], [], [], None, []
  for line in text.split('\n'):
    if line.startswith('# Parameters for ') and line.endswith(':'):
      section = line[len('# Parameters for '):-1]
      headers.append(section)
      sel = section.rsplit('/', 1)[-1].split('.')   # the method is named `Cls.meth`
      exact.append('.'.join(sel[-2:]) if sel[-2:] == ['Cls', 'meth'] else sel[-1])
      params = []
    elif line.startswith('# Macros:'):
      section = None
    m = _STMT.match(line)
    if m and not line.startswith(('import ', 'from ')) and section is not None:
      owner, _, param = m.group(1).rpartition('.')
      if owner != section:
        problems.append('binding %s under header %s' % (m.group(1), section))
      params.append(param)
      if params != sorted(set(params)):
        problems.append('parameters of %s not sorted: %s' % (section, params))
  if len(set(headers)) != len(headers):
    problems.append('repeated section: %s' % headers)
  names = [n.lower() for n in exact]   # alphabetical: ignoring case or not, both are accepted
  if names != sorted(names) and exact != sorted(exact):
    problems.append('sections not in alphabetical order of configurable name: %s' % headers)
  return problems


def _markdown(text):
  want = ['    ' + l for l in text.splitlines() if not l.startswith('#')]
  got = [l for l in gc.markdown(text).splitlines() if l.startswith('    ') and l != '    # None.']
  return [] if want == got else [[l for l in want if l not in got][:2], len(want), len(got)]


def _history_text(case, file):
  """The text of the first / second file, and the module it binds into."""
  h = case['history']
  mod, other = h['mods'][file - 1], h['mods'][2 - file]
  fmt = dict(m=mod, p=mod.split('.')[0], q=other.split('.')[0])
  stmt, prefix = (x.format(**fmt) for x in H_PAIRS[h['pair']][2 * file - 2:2 * file])
  spell = lambda target, i: prefix + '.' + target
  lines = ['from __gin__ import dynamic_registration', stmt]
  for b in case['bindings']:
    if b['file'] == file:
      lines.append('%s%s.%s = %s' % (b['scope'] + '/' * bool(b['scope']), spell(b['target'], 0),
                                     b['param'], _source(b['value'], spell)))
  return '\n'.join(lines) + '\n', mod


def _stored_references():
  return [r for _, r in sorted(((repr(k), r) for k, v in gc._CONFIG.items() for r in
                               gc.iterate_references(v)), key=lambda kr: kr[0])]


def _check_history(case, fail, attempt):
  h = case['history']
  expected = {}
  for b in case['bindings']:   # names as in _NAME_OF: zed_fa, abc_Cls, ...
    own = h['mods'][b['file'] - 1].split('.')[0][3:]
    canon = _canon(b['value'])
    _retarget(canon, own)
    expected[(b['scope'], '%s_%s' % (own, b['target']), b['param'])] = canon
  gin.parse_config(_history_text(case, 1)[0])                                    # (a)
  for op in h['probe']:                                                          # (b)
    if op == 'config_str':
      attempt('serialises', gc.config_str)
    else:
      for r in _stored_references():
        (repr if op == 'repr' else hash)(r)
  gin.parse_config(_history_text(case, 2)[0])                                    # (c)
  texts = [(w, i, attempt('serialises', gc.config_str, w, i)) for w, i in case['widths']]   # (d)
  for w, i, text in texts:
    if text is None:
      continue
    where = 'width=%d indent=%d' % (w, i)
    for p in _structure(text):
      fail('grouped_sorted', 'one sorted section per configurable', p + ' ' + where, p.split(':')[0][:40])
    gin.clear_config()
    if attempt('always_parses', gc.parse_config, text, note=where) is None:
      continue
    observed = _observed()
    for key in sorted(set(expected) | set(observed), key=repr):
      if expected.get(key) != observed.get(key):
        kind = 'lost' if key not in observed else 'extra' if key not in expected else 'changed'
        fail('roundtrip_bindings', [key, expected.get(key)], [observed.get(key), where],
             '%s binding of a %s' % (kind, (expected.get(key) or observed.get(key))[0]))
    missing = sorted(set(h['mods']) - {m for m, _, _ in _imports()})
    if missing:
      fail('roundtrip_imports', h['mods'], _imports(), 'recorded import missing or rewritten')
    again = attempt('serialises', gc.config_str, w, i)
    if again is not None and again != text:
      fail('reserialise_identical', text, again, 'second serialisation differs')


def _retarget(canon, own):
  """References of a history file point into that file's module: fa -> zed_fa / abc_fa."""
  if canon[0] == 'ref':
    canon[2] = '%s_%s' % (own, canon[2])
  elif canon[0] in 'lt':
    for x in canon[1]:
      _retarget(x, own)
  elif canon[0] == 'd':
    for kv in canon[1]:
      for x in kv:
        _retarget(x, own)


def check(case):
  fails = []
  feat = ' '.join(_features(case)) if 'history' not in case else (
      'dynamic history_of_two_files realiased_import=%s references_probed_between=%s' % (
          'first' if case['history']['mods'] == H_MODS else 'second',
          'yes' if case['history']['probe'] else 'no'))

  def fail(clause, expected, observed, sig):
    sig = '%s: %s [%s]' % (clause, sig, feat)
    if sig in [f['signature'] for f in fails]:
      return   # once per case (the same failure usually repeats at every width)
    fails.append({'clause': clause, 'expected': str(expected)[:300], 'observed': str(observed)[:300],
                  'signature': sig})

  def attempt(clause, fn, *args, note=''):
    try:
      return fn(*args)
    except Exception as e:  # gin may not raise here; the harness would report it less precisely
      fail(clause, 'no exception', '%s: %s %s' % (type(e).__name__, e, note), 'exc=' + type(e).__name__)
      return None

  if 'history' in case:
    _check_history(case, fail, attempt)
    return fails
  for name, d in CONSTS.items():
    gin.constant(name, _python(d, None))
  late = case.get('late', [])
  _register([t for t in TARGETS if t not in late] if case['mode'] == 'static' else case['prereg'])
  expected, texts = _expected(case), []
  for oi, order in enumerate(case['orders']):
    _apply(case, order)
    if oi == 0:
      _register(late)
      imports0 = _imports()
      texts = [(w, i, attempt('serialises', gc.config_str, w, i)) for w, i in case['widths']]
    elif texts[0][2] is not None:
      text = attempt('serialises', gc.config_str, *case['widths'][0])
      if text != texts[0][2]:
        fail('order_independent', texts[0][2], text, 'text differs between binding orders')
        break
  for w, i, text in texts:
    if text is None:
      continue
    where = 'width=%d indent=%d' % (w, i)
    for p in _structure(text):
      fail('grouped_sorted', 'one sorted section per configurable', p + ' ' + where, p.split(':')[0][:40])
    bad = _markdown(text)
    if bad:
      fail('markdown_verbatim', 'every binding line kept', bad, 'binding lines altered')
    gin.clear_config()
    if attempt('always_parses', gc.parse_config, text, note=where) is None:
      continue
    observed = _observed()
    for key in sorted(set(expected) | set(observed), key=repr):
      if expected.get(key) != observed.get(key):
        kind = 'lost' if key not in observed else 'extra' if key not in expected else 'changed'
        fail('roundtrip_bindings', [key, expected.get(key)], [observed.get(key), where],
             '%s binding of a %s' % (kind, (expected.get(key) or observed.get(key))[0]))
    now = _imports()
    names = [s[2] or (s[0].split('.')[-1] if s[1] else s[0].split('.')[0]) for s in imports0]
    lost = [s for s in imports0 if s[0] not in [n[0] for n in now] or
            (len(set(names)) == len(names) and s not in now)]
    if lost:
      fail('roundtrip_imports', imports0, now, 'recorded import missing or rewritten')
    again = attempt('serialises', gc.config_str, w, i)
    if again is not None and again != text:
      fail('reserialise_identical', text, again, 'second serialisation differs')
    if again is not None:   # the recorded imports are themselves a fixpoint
      gin.clear_config()
      if attempt('always_parses', gc.parse_config, again) is not None and _imports() != now:
        fail('roundtrip_imports', now, _imports(), 'imports change on the second round trip')
  return fails
