"""C14 bounded stand-in: includes act as in-place inclusion; files resolve through
ordered locations and readers; the multi-file entry point; skip_unknown defaults.

Oracle: a reference model written here (`_flatten` = the include tree spliced in
place, `_Model` = last-binding-wins store) plus a differential run of the flattened
text in a fresh gin.  Clause labels -> sentence of the property:
  include_inplace          "include 'f' has the effect of the included file's statements
                            being applied at that point ... to any depth, so later bindings
                            override earlier ones ... exactly as in the flattened text"
  result_mirrors_tree      "the value returned from parsing mirrors the include tree and
                            lists each file's imports"
  search_order             "resolved by trying each search location in the order registered
                            (current directory first) and within a location each registered
                            reader in order"
  absolute_bypasses_search "an absolute name bypasses the search locations"
  package_relative         "package-relative names resolve through the Python path"
  missing_is_ioerror       "a name nobody can read raises an IOError naming the locations
                            searched and applies nothing from it"
  multi_order_finalize     "The multi-file entry point applies the files in the order given,
                            then the extra bindings, then finalizes unless told not to"
  unknown_is_error_unless_skipped  "every parsing entry point treats unknown names as errors
                            unless skip_unknown is passed" (and passes it on to includes)
"""
import contextlib
import importlib
import io
import logging
import os
import random
import sys
import tempfile

import gin
from gin import config as gc
from bounded import harness

BOUNDS = ('include trees of <= 5 files, depth <= 3, <= 4 statements per file over 2 '
          'configurables x 3 scopes x 2 macros with conflicting bindings around every '
          'include; file resolution over 3 locations (cwd + 2 search paths, both '
          'registration orders) x up to 3 readers (open + 2 registered readers, both '
          'orders) x every presence subset (quick: all 64 subsets of 3x2, sampled 3x3); '
          'package-relative names over 4 places x every subset; multi-file entry point '
          'with <= 3 files, every missing-file position, finalize True/False/default')
EXHAUSTIVE = {'quick': False, 'thorough': False}

SCOPES = ['', 's1', 's2']
PARAMS = {'f': ['a', 'b'], 'g': ['x', 'y']}
ABSENT = '<absent>'


def _register():
  def f(a=None, b=None):
    return {'a': a, 'b': b}

  def g(x=None, y=None):
    return {'x': x, 'y': y}
  return {'f': gin.external_configurable(f, name='f', module='m'),
          'g': gin.external_configurable(g, name='g', module='m')}


# ---- reference model ---------------------------------------------------------
def _line(st):
  k = st[0]
  if k == 'bind':      # ['bind', scope, selector-as-written, arg, int]
    return '%s%s.%s = %d' % (st[1] + '/' if st[1] else '', st[2], st[3], st[4])
  if k == 'macro':     # ['macro', name, int]
    return '%s = %d' % (st[1], st[2])
  if k == 'use':       # ['use', scope, selector, arg, macro-name]
    return '%s%s.%s = %%%s' % (st[1] + '/' if st[1] else '', st[2], st[3], st[4])
  if k == 'import':
    return 'import %s' % st[1]
  if k in ('include', 'missing'):
    return "include '%s'" % st[1]
  if k == 'unknown':   # binding whose target is not registered
    return '%s.q = %d' % (st[1], st[2])
  raise AssertionError(k)


def _text(stmts):
  return ''.join(_line(s) + '\n' for s in stmts)


def _flatten(files, name, stop):
  """Statements of `name` with every include spliced in place; stops (stop[0]=kind) at the
  first missing include / unknown target."""
  for st in files[name]:
    if stop[0]:
      return
    if st[0] == 'include':
      yield from _flatten(files, st[1], stop)
    elif st[0] in ('missing', 'unknown'):
      stop[0] = st
    else:
      yield st


def _tree(files, name):
  return [name, [s[1] for s in files[name] if s[0] == 'import'],
          [_tree(files, s[1]) for s in files[name] if s[0] == 'include']]


class _Model:
  def __init__(self):
    self.store = {}

  def apply(self, stmts):
    for st in stmts:
      if st[0] == 'bind':
        self.store[(st[1], st[2].split('.')[-1], st[3])] = st[4]
      elif st[0] == 'use':
        self.store[(st[1], st[2].split('.')[-1], st[3])] = '%' + st[4]
      elif st[0] == 'macro':
        self.store[('%', st[1], 'value')] = st[2]
    return self

  def literal(self):
    return dict((('%s/%s.%s' % k if k[0] != '%' else '%' + k[1]), v)
                for k, v in self.store.items())

  def call(self, scope, fn):
    out = {}
    for p in PARAMS[fn]:
      v = None
      for s in ([''] if not scope else ['', scope]):
        v = self.store.get((s, fn, p), v)
      if isinstance(v, str):
        v = self.store.get(('%', v[1:], 'value'), 'UNBOUND')
      out[p] = v
    return out


def _observe_literal():
  out = {}
  keys = ['%s/%s.%s' % (s, fn, p) for s in SCOPES for fn in PARAMS for p in PARAMS[fn]]
  for key in keys + ['%M', '%N']:
    try:
      v = gin.query_parameter(key.lstrip('/'))
    except ValueError:
      continue
    out[key] = v if isinstance(v, int) else repr(v)
  return out


def _observe_calls(fns, model):
  want, got = {}, {}
  for s in SCOPES:
    for fn in PARAMS:
      want[s + '/' + fn] = model.call(s, fn)
      if 'UNBOUND' in want[s + '/' + fn].values():
        del want[s + '/' + fn]
        continue
      with gin.config_scope(s):
        got[s + '/' + fn] = fns[fn]()
  return want, got


def _tree_of(result):
  return [result.filename, list(result.imports), [_tree_of(r) for r in result.includes]]


def _fail(clause, expected, observed, signature):
  return {'clause': clause, 'expected': expected, 'observed': observed,
          'signature': signature}


# ---- fixture: locations, readers, files ---------------------------------------
class _World:
  """cwd + two search paths; `open` + registered in-memory readers V1, V2."""

  def __init__(self, tmp, loc_order, reader_order):
    self.tmp = tmp
    self.dirs = [os.path.join(tmp, d) for d in ('cwd', 'L1', 'L2')]
    for d in self.dirs:
      os.makedirs(d)
    self.prefixes = ['', self.dirs[1], self.dirs[2]]
    self.virtual = {1: {}, 2: {}}
    self.loc_order = [0] + [i for i in loc_order if i]      # '' is always first
    self.reader_order = [0] + list(reader_order)
    for i in self.loc_order[1:]:
      gin.add_config_file_search_path(self.prefixes[i])
    for j in reader_order:
      gin.config.register_file_reader(self._reader(j), self._exists(j))

  def _reader(self, j):
    def read(path):
      return io.StringIO(self.virtual[j][path])
    return read

  def _exists(self, j):
    return lambda path: path in self.virtual[j]

  def put(self, name, loc, reader, content):
    if reader == 0:
      path = os.path.join(self.dirs[loc], name)
      os.makedirs(os.path.dirname(path), exist_ok=True)
      with open(path, 'w') as fh:
        fh.write(content)
    else:
      self.virtual[reader][os.path.join(self.prefixes[loc], name)] = content

  def first(self, places):
    """Lexicographically least (location, reader) in registration order."""
    ranked = [(self.loc_order.index(i), self.reader_order.index(j)) for i, j in places
              if i in self.loc_order and j in self.reader_order]
    if not ranked:
      return None
    li, rj = min(ranked)
    return [self.loc_order[li], self.reader_order[rj]]


@contextlib.contextmanager
def _world(loc_order, reader_order):
  cwd = os.getcwd()
  path, mods = list(sys.path), set(sys.modules)
  with tempfile.TemporaryDirectory(prefix='c14_') as tmp:
    try:
      logging.disable(logging.CRITICAL)
      sys.path[:] = [p for p in path if p not in ('', '.')]   # cwd is not a package root here
      w = _World(os.path.realpath(tmp), loc_order, reader_order)
      os.chdir(w.dirs[0])
      yield w
    finally:
      os.chdir(cwd)
      sys.path[:] = path
      for m in set(sys.modules) - mods:
        if m.startswith('c14'):
          del sys.modules[m]
      importlib.invalidate_caches()
      logging.disable(logging.NOTSET)


# ---- case generation ----------------------------------------------------------
def _rand_stmt(rng, counter):
  counter[0] += 1
  r = rng.random()
  fn = rng.choice(['f', 'g'])
  scope, sel, arg = rng.choice(SCOPES), rng.choice([fn, 'm.' + fn]), rng.choice(PARAMS[fn])
  if r < 0.62:
    return ['bind', scope, sel, arg, counter[0]]
  if r < 0.80:
    return ['macro', rng.choice(['M', 'N']), counter[0]]
  return ['use', scope, sel, arg, rng.choice(['M', 'N'])]


def _rand_tree(rng, nfiles, fault=None):
  """files: name -> statements; file k may be included only by a file < k (depth <= 3)."""
  counter = [0]
  names = ['top.gin'] + ['inc%d.gin' % i for i in range(1, nfiles)]
  names = [n if rng.random() < 0.8 else 'sub/' + n for n in names]
  files, depth = {}, {names[0]: 0}
  for n in names:
    files[n] = [_rand_stmt(rng, counter) for _ in range(rng.randint(1, 4))]
  for k in range(1, nfiles):
    parents = [n for n in names[:k] if depth[n] < 3]
    p = rng.choice(parents)
    depth[names[k]] = depth[p] + 1
    files[p].insert(rng.randint(0, len(files[p])), ['include', names[k]])
  mods = ['math', 'json', 'os.path', 'string']
  for n in names:
    for m in rng.sample(mods, rng.choice([0, 0, 1, 2])):
      files[n].insert(rng.randint(0, len(files[n])), ['import', m])
  files[names[0]].insert(0, ['macro', 'M', 0])   # every macro used is defined
  files[names[0]].insert(0, ['macro', 'N', 0])
  if fault:
    n = rng.choice(names)
    st = ['missing', 'nowhere.gin'] if fault == 'missing' else ['unknown', 'zz', 7]
    files[n].insert(rng.randint(0, len(files[n])), st)
  return names, files


def cases(tier, rng):
  thorough = tier != 'quick'
  # conflicting bindings immediately before / after an include, depth 3
  files = {'top.gin': [['bind', '', 'f', 'a', 1], ['include', 'i1.gin'], ['bind', '', 'f', 'b', 2]],
           'i1.gin': [['bind', '', 'f', 'a', 3], ['bind', '', 'm.f', 'b', 4], ['include', 'i2.gin'],
                      ['bind', 's1', 'f', 'a', 5]],
           'i2.gin': [['bind', 's1', 'f', 'a', 6], ['include', 'i3.gin'], ['macro', 'M', 7]],
           'i3.gin': [['macro', 'M', 8], ['use', '', 'g', 'x', 'M'], ['import', 'math']]}
  for entry in ('file', 'string', 'multi'):
    yield {'mode': 'tree', 'files': files, 'root': 'top.gin', 'entry': entry, 'skip': None,
           'place': {n: [i % 3, i % 2] for i, n in enumerate(sorted(files))},
           'locs': [1, 2], 'readers': [1]}
  for n in range(500 if not thorough else 8000):
    r = rng.random()
    fault = None if r < 0.6 else ('missing' if r < 0.75 else 'unknown')
    names, fs = _rand_tree(rng, rng.randint(1, 5), fault)
    skip = None
    if fault == 'unknown':
      skip = rng.choice([None, False, True, ['zz'], ['other'], 'tuple_zz'])
    elif rng.random() < 0.2:
      skip = rng.choice([False, True, ['other']])
    readers = rng.choice([[1], [1, 2], [2, 1]])
    yield {'mode': 'tree', 'files': fs, 'root': names[0],
           'entry': rng.choice(['file', 'file', 'string', 'multi']), 'skip': skip,
           'place': {nm: [rng.randint(0, 2), rng.choice([0] + readers)] for nm in names},
           'locs': rng.choice([[1, 2], [2, 1]]), 'readers': readers}
  # file resolution: every presence subset of 3 locations x {open, V1}
  cells = [[i, j] for i in range(3) for j in (0, 1)]
  for locs in ([1, 2], [2, 1]):
    for bits in range(64):
      yield {'mode': 'search', 'name': 'probe.gin' if bits % 2 else 'sub/probe.gin',
             'locs': locs, 'readers': [1], 'present': [c for k, c in enumerate(cells) if bits >> k & 1]}
  cells9 = [[i, j] for i in range(3) for j in (0, 1, 2)]
  subsets = (range(512) if thorough else [rng.randrange(512) for _ in range(120)])
  for bits in subsets:
    for readers in ([[1, 2], [2, 1]] if thorough else [rng.choice([[1, 2], [2, 1]])]):
      yield {'mode': 'search', 'name': 'probe.gin', 'locs': rng.choice([[1, 2], [2, 1], [2], [1]]),
             'readers': readers, 'present': [c for k, c in enumerate(cells9) if bits >> k & 1]}
  for present in ([], [[2, 0]], [[1, 1]], [[2, 0], [1, 1]], [[0, 0], [2, 2]]):
    yield {'mode': 'search', 'name': 'probe.gin', 'absolute': True, 'locs': [1, 2],
           'readers': [1, 2], 'present': present}
  # locations and names that are not normalised file-system paths (a registered reader decides
  # what a name means): the reader must be asked for exactly join(location, name)
  for locs in (['mem://bucket/cfg', 'mem://bucket/other'], ['zip:a//b', 'mem://x/../y'],
               ['./rel', 'rel']):
    for name in ('main.gin', 'sub/../main.gin', './main.gin', 'a//main.gin'):
      for present in ([0], [1], [0, 1], []):
        yield {'mode': 'opaque', 'locs': locs, 'name': name, 'present': present}
  # package-relative names: (cwd,open) (cwd,package) (L1,open) (L1,V1), every subset
  for style in ('c14pkg/conf', 'c14pkg.conf'):
    for bits in range(16):
      yield {'mode': 'package', 'style': style, 'bits': bits, 'via_include': bits % 3 == 0}
  # a directory on sys.path without __init__.py (namespace package) that does not hold the
  # file: the search must go on to the next place / end in IOError
  for bits in (0, 4, 8, 12):
    yield {'mode': 'package', 'style': 'c14ns/conf', 'bits': bits, 'via_include': bits == 8}
  # multi-file entry point
  for n in range(200 if not thorough else 3000):
    nf = rng.randint(0, 3)
    yield {'mode': 'multi', 'nfiles': nf, 'seed': rng.randrange(10 ** 6),
           'missing_at': rng.choice([None, None, None] + list(range(nf))),
           'bindings': rng.choice(['list', 'list', 'none', 'empty']),
           'files_none': nf == 0 and rng.random() < 0.5,
           'finalize': rng.choice([True, False, 'default']),
           'unknown': rng.choice([None, None, 'file', 'bindings']),
           'skip': rng.choice([None, False, True, ['zz']])}


def nontrivial(case):
  return True


# ---- checks -------------------------------------------------------------------
def _skip_arg(skip):
  return ('zz', 'yy') if skip == 'tuple_zz' else skip


def _covers(skip):
  return skip is True or skip == 'tuple_zz' or (isinstance(skip, list) and 'zz' in skip)


def _compare_state(fails, fns, model, clause, sig, calls=True):
  want, got = model.literal(), _observe_literal()
  if want != got:
    fails.append(_fail(clause, sorted(want.items()), sorted(got.items()), sig + ' view=query'))
  elif calls:
    want, got = _observe_calls(fns, model)
    if want != got:
      fails.append(_fail(clause, want, got, sig + ' view=call'))


def _check_tree(case):
  fails, files, root = [], case['files'], case['root']
  skip = case['skip']
  kw = {} if skip is None else {'skip_unknown': _skip_arg(skip)}
  with _world(case['locs'], case['readers']) as w:
    fns = _register()
    for n, (loc, rd) in case['place'].items():
      w.put(n, loc, rd, _text(files[n]))
    stop = [None]
    applied = list(_flatten(files, root, stop))
    if stop[0] and stop[0][0] == 'unknown' and _covers(skip):
      files = {n: [s for s in ss if s[0] != 'unknown'] for n, ss in files.items()}
      stop = [None]
      applied = list(_flatten(files, root, stop))
    model = _Model().apply(applied)
    exc = result = None
    try:
      if case['entry'] == 'file':
        result = gin.parse_config_file(root, **kw)
      elif case['entry'] == 'string':
        result = gin.parse_config("include '%s'\n" % root, **kw)
      else:
        result = gin.parse_config_files_and_bindings([root], None, finalize_config=False, **kw)
    except Exception as e:    # classified below
      exc = e
    sig = 'entry=%s skip=%s' % (case['entry'], type(_skip_arg(skip)).__name__)
    if stop[0] is None:
      if exc is not None:   # can only come out of the gin call above
        skipping = any(s[0] == 'unknown' for ss in case['files'].values() for s in ss)
        return [_fail('unknown_is_error_unless_skipped' if skipping else 'include_inplace',
                      'parse succeeds', '%s: %s' % (type(exc).__name__, str(exc)[:150]), sig)]
      _compare_state(fails, fns, model, 'include_inplace', sig)
      want = _tree(files, root)
      got = ([_tree_of(r) for r in result[0]] if case['entry'] == 'string' else
             _tree_of(result) if case['entry'] == 'file' else [_tree_of(r) for r in result])
      if case['entry'] == 'string':
        want, got = [[want], []], [got, list(result[1])]
      elif case['entry'] == 'multi':
        want = [want]
      if want != got:
        fails.append(_fail('result_mirrors_tree', want, got, sig))
      # differential: the flattened text in a fresh gin gives the same config_str
      mine = gin.config_str()
      harness.reset()
      _register()
      gin.parse_config(_text(applied))
      if gin.config_str() != mine:
        fails.append(_fail('include_inplace', gin.config_str(), mine, sig + ' view=flattened_text'))
    elif stop[0][0] == 'missing':
      if not isinstance(exc, IOError):
        fails.append(_fail('missing_is_ioerror', 'IOError', repr(exc)[:150], sig))
      else:
        missing = [x for x in [stop[0][1]] + [p for p in w.prefixes[1:]] if x not in str(exc)]
        if missing:
          fails.append(_fail('missing_is_ioerror', 'message names %s' % missing, str(exc)[:300], sig))
        _compare_state(fails, fns, model, 'missing_is_ioerror', sig + ' state=prefix', calls=False)
    else:   # unknown target not covered by skip_unknown: must be an error
      if exc is None:
        fails.append(_fail('unknown_is_error_unless_skipped', 'error for zz', 'parse succeeded', sig))
      elif not isinstance(exc, ValueError) or 'zz' not in str(exc):
        fails.append(_fail('unknown_is_error_unless_skipped', 'ValueError naming zz',
                           repr(exc)[:150], sig))
  return fails


def _check_search(case):
  fails = []
  with _world(case['locs'], case['readers']) as w:
    fns = _register()
    name = case['name']
    if case.get('absolute'):
      name = os.path.join(w.dirs[2], 'abs', name)
      for i in (0, 1):    # decoys under the search locations must never be used
        w.put(os.path.join('abs', case['name']), i, 1, 'f.a = 999\n')
      for loc, rd in case['present']:
        if rd == 0:
          w.put(os.path.join('abs', case['name']), 2, 0, 'f.a = %d\n' % (10 * loc + rd))
        else:
          w.virtual[rd][name] = 'f.a = %d\n' % (10 * loc + rd)
      cand = sorted(case['present'], key=lambda c: w.reader_order.index(c[1]))
      want = cand[0] if cand else None
      clause = 'absolute_bypasses_search'
    else:
      for loc, rd in case['present']:
        w.put(name, loc, rd, 'f.a = %d\n' % (10 * loc + rd))
      want = w.first(case['present'])
      clause = 'search_order'
    sig = 'locs=%s readers=%s' % (case['locs'], case['readers'])
    before = gin.config_str()
    try:
      res = gin.parse_config_file(name)
    except IOError as e:
      if want is not None:
        fails.append(_fail(clause, 'file at %s parsed' % want, 'IOError', sig))
      searched = [] if case.get('absolute') else [w.prefixes[i] for i in w.loc_order[1:]]
      lacking = [x for x in [name] + searched if x not in str(e)]
      if lacking:
        fails.append(_fail('missing_is_ioerror', 'message names %s' % lacking, str(e)[:300], sig))
      if gin.config_str() != before or _observe_literal():
        fails.append(_fail('missing_is_ioerror', 'nothing applied', _observe_literal(), sig))
      return fails
    got = _observe_literal().get('/f.a')
    if want is None:
      fails.append(_fail('missing_is_ioerror', 'IOError', 'parsed, f.a=%r' % got, sig))
    elif got != 10 * want[0] + want[1]:
      fails.append(_fail(clause, 'f.a=%d (location %d, reader %d)' % (10 * want[0] + want[1], *want),
                         'f.a=%r' % got, sig + ' present=%d' % len(case['present'])))
    if res.filename != name:
      fails.append(_fail('result_mirrors_tree', name, res.filename, sig + ' filename'))
  return fails


def _check_opaque(case):
  fails = []
  with _world([], []) as w:
    _register()
    store, asked = {}, []

    def exists(path):
      asked.append(path)
      return path in store

    gin.config.register_file_reader(lambda path: io.StringIO(store[path]), exists)
    for loc in case['locs']:
      gin.add_config_file_search_path(loc)
    name = case['name']
    for i in case['present']:
      store[os.path.join(case['locs'][i], name)] = (
          'f.a = %d\ninclude %r\n' % (i, 'inc_' + os.path.basename(name)))
      store[os.path.join(case['locs'][i], 'inc_' + os.path.basename(name))] = 'f.b = %d\n' % i
    # an included name is searched again from the first location: make the LAST location's
    # include unreachable-by-accident only if an earlier location also holds one
    sig = 'reader-defined (non file-system) locations'
    try:
      gin.parse_config_file(name)
      got = _observe_literal()
    except IOError as e:
      if case['present']:
        fails.append(_fail('search_order', 'found at location %d' % case['present'][0],
                           'IOError %s; reader was asked %r' % (str(e)[:120], asked[:6]), sig))
      return fails
    if not case['present']:
      fails.append(_fail('missing_is_ioerror', 'IOError', 'parsed %r' % got, sig))
      return fails
    want = min(case['present'])
    if got.get('/f.a') != want or got.get('/f.b') != want:
      fails.append(_fail('search_order', 'f.a = f.b = %d' % want, got, sig))
    expect_asked = [os.path.join(l, name) for l in [''] + case['locs']][:want + 2]
    mine = [a for a in asked if os.path.basename(a) == os.path.basename(name)]
    if mine[:len(expect_asked)] != expect_asked:
      fails.append(_fail('search_order', expect_asked, mine[:6], sig + ' names the reader saw'))
  return fails


def _check_package(case):
  """`<pkg path>/x.gin` where the package lives on sys.path; places: (cwd, open),
  (cwd, package reader), (L1, open), (L1, V1)."""
  fails = []
  style, bits = case['style'], case['bits']
  places = [p for k, p in enumerate(['cwd_open', 'cwd_pkg', 'L1_open', 'L1_v1']) if bits >> k & 1]
  with _world([1], [1]) as w:
    _register()
    site = os.path.join(w.tmp, 'site')
    ns = style.startswith('c14ns')
    top = 'c14ns' if ns else 'c14pkg'
    os.makedirs(os.path.join(site, top, 'conf'))
    if not ns:    # a regular package; `c14ns` is a namespace package (no __init__.py)
      for d in (top, top + '/conf'):
        open(os.path.join(site, d, '__init__.py'), 'w').close()
    sys.path.insert(0, site)
    importlib.invalidate_caches()
    name = style + '/x.gin'
    vals = {'cwd_open': 1, 'cwd_pkg': 2, 'L1_open': 3, 'L1_v1': 4}
    if 'cwd_open' in places:
      w.put(name, 0, 0, 'f.a = 1\n')
    if 'cwd_pkg' in places:
      with open(os.path.join(site, top, 'conf', 'x.gin'), 'w') as fh:
        fh.write('f.a = 2\n')
    if 'L1_open' in places:
      w.put(name, 1, 0, 'f.a = 3\n')
    if 'L1_v1' in places:
      w.put(name, 1, 1, 'f.a = 4\n')
    want = vals[places[0]] if places else None
    sig = 'style=%s via_include=%s' % (style.replace('c14', ''), case['via_include'])
    try:
      if case['via_include']:
        gin.parse_config("include '%s'\n" % name)
      else:
        gin.parse_config_file(name)
    except IOError as e:
      if want is not None:
        fails.append(_fail('package_relative' if want == 2 else 'search_order',
                           'f.a=%d from %s' % (want, places[0]), 'IOError', sig))
      elif name not in str(e):
        fails.append(_fail('missing_is_ioerror', 'message names ' + name, str(e)[:300], sig))
      return fails
    except TypeError as e:
      return [_fail('package_relative' if want == 2 else
                    'missing_is_ioerror' if want is None else 'search_order',
                    'IOError' if want is None else 'f.a=%d from %s' % (want, places[0]),
                    'TypeError: %s' % str(e)[:80], sig + ' exc=TypeError')]
    got = _observe_literal().get('/f.a')
    if got != want:
      fails.append(_fail('package_relative' if 2 in (got, want) else 'search_order',
                         'IOError' if want is None else 'f.a=%d from %s' % (want, places[0]),
                         'f.a=%r' % got, sig))
  return fails


def _check_multi(case):
  rng = random.Random(case['seed'])
  fails, skip = [], case['skip']
  skip_on = skip is True or skip == ['zz']
  with _world([1, 2], [1]) as w:
    fns = _register()
    counter, names, files = [100], [], {}
    for k in range(case['nfiles']):
      n = 'file%d.gin' % k
      names.append(n)
      if k == case['missing_at']:
        continue
      files[n] = ([_rand_stmt(rng, counter) for _ in range(rng.randint(1, 3))] +
                  [['macro', 'M', k], ['macro', 'N', k]])
      if rng.random() < 0.4:
        inc = 'inc_of_%d.gin' % k
        files[inc] = [_rand_stmt(rng, counter)]
        files[n].insert(rng.randint(0, len(files[n])), ['include', inc])
      if case['unknown'] == 'file' and k == case['nfiles'] - 1:
        files[n].insert(rng.randint(0, len(files[n])), ['unknown', 'zz', 5])
    for n, stmts in files.items():
      w.put(n, rng.randint(0, 2), rng.choice([0, 1]), _text(stmts))
    extra = [['macro', 'M', 50], ['macro', 'N', 51]] + [
        _rand_stmt(rng, counter) for _ in range(rng.randint(1, 3))]
    if case['unknown'] == 'bindings':
      extra.insert(rng.randint(0, len(extra)), ['unknown', 'zz', 6])
    bindings = {'list': [_line(s) for s in extra], 'none': None, 'empty': []}[case['bindings']]
    if case['bindings'] != 'list':
      extra = []
    # what the property says happens: files in the order given, then the bindings
    if skip_on:
      files = {n: [s for s in ss if s[0] != 'unknown'] for n, ss in files.items()}
      extra = [s for s in extra if s[0] != 'unknown']
    applied, outcome = [], 'ok'
    for k, n in enumerate(names):
      if k == case['missing_at']:
        outcome = 'missing'
        break
      stop = [None]
      applied += list(_flatten(files, n, stop))
      if stop[0]:
        outcome = 'unknown'
        break
    for st in (extra if outcome == 'ok' else []):
      if st[0] == 'unknown':
        outcome = 'unknown'
        break
      applied.append(st)
    model = _Model().apply(applied)
    before_hooks = dict(model.store)
    finalized = outcome == 'ok' and case['finalize'] in (True, 'default')
    if finalized:
      model.store[('s2', 'g', 'y')] = -1
    hook_saw = []

    def hook(config):
      snap = {}
      for (scope, sel), kv in config.items():
        for p, v in kv.items():
          key = ('%', scope, 'value') if sel == 'gin.macro' else (scope, sel.split('.')[-1], p)
          snap[key] = v if isinstance(v, int) else repr(v)
      hook_saw.append(snap)
      return {'s2/g.y': -1}
    gc.register_finalize_hook(hook)
    kw = {}
    if skip is not None:
      kw['skip_unknown'] = skip
    if case['finalize'] != 'default':
      kw['finalize_config'] = case['finalize']
    exc = res = None
    try:
      res = gin.parse_config_files_and_bindings(None if case['files_none'] else names,
                                                bindings, **kw)
    except Exception as e:    # classified below
      exc = e
    sig = 'finalize=%s bindings=%s skip=%s outcome=%s' % (
        case['finalize'], case['bindings'], type(skip).__name__, outcome)
    if outcome == 'missing':
      if not isinstance(exc, IOError) or names[case['missing_at']] not in str(exc):
        fails.append(_fail('missing_is_ioerror', 'IOError naming ' + names[case['missing_at']],
                           repr(exc)[:150], sig))
    elif outcome == 'unknown':
      if not isinstance(exc, ValueError) or 'zz' not in str(exc):
        fails.append(_fail('unknown_is_error_unless_skipped', 'ValueError naming zz',
                           repr(exc)[:150], sig + ' where=' + str(case['unknown'])))
    elif exc is not None:   # can only come out of the gin call above
      return [_fail('multi_order_finalize', 'no error',
                    '%s: %s' % (type(exc).__name__, str(exc)[:150]), sig)]
    if gin.config_is_locked() != finalized:
      fails.append(_fail('multi_order_finalize', 'locked=%s' % finalized,
                         'locked=%s' % gin.config_is_locked(), sig))
    if len(hook_saw) != int(finalized):
      fails.append(_fail('multi_order_finalize', 'finalize hooks run %d time(s)' % int(finalized),
                         len(hook_saw), sig))
    elif finalized and hook_saw[0] != before_hooks:
      fails.append(_fail('multi_order_finalize', sorted(map(str, before_hooks.items())),
                         sorted(map(str, hook_saw[0].items())), sig + ' view=finalize_hook'))
    _compare_state(fails, fns, model, 'multi_order_finalize', sig, calls=exc is None)
    if exc is None and [r.filename for r in res] != names:
      fails.append(_fail('result_mirrors_tree', names, [r.filename for r in res], sig + ' multi'))
  return fails


def check(case):
  return {'tree': _check_tree, 'search': _check_search, 'package': _check_package,
          'multi': _check_multi, 'opaque': _check_opaque}[case['mode']](case)
