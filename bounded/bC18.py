"""C18 bounded stand-in: forced thread schedules over calls, operative-config reads and
first uses of singletons; sequential singleton/clear histories against a cache model.

Schedules are not left to the OS.  Worker threads run under a baton: exactly one worker
runs at a time, a line tracer counts the statements it executes inside gin's own files,
and gin's module-level locks are replaced (for the duration of one case, in the imported
module object only) by cooperative locks with the same mutual-exclusion semantics whose
blocking hands the baton back.  A schedule is a list of segments [thread, until, n]:
run `thread` until its next lock acquisition ('acq'), lock release ('rel'), entry into a
singleton constructor ('ctor') or immediately (None), then n more gin statements, then
preempt.  After the list every thread runs to completion in index order.  A run is thus
a deterministic interleaving at statement granularity inside gin.

Clause labels -> sentence of the property
  no_interference         "under every interleaving no call or read fails because of another
                          thread" (every call returns what it returns in a sequential run)
  read_parses             "every read parses"
  final_equals_sequential "when all threads finish the operative config equals that of
                          running the same calls one after another"
  singleton_once          "constructs its object at most once per scope name ... every use,
                          from any thread, receives that same object"
  no_deadlock             (part of "no call or read fails because of another thread": a use
                          that never returns; includes a constructor using another singleton)
  singleton_model         sequential histories: cached => same object and no construction,
                          otherwise exactly one construction; keyed by the full scope name
  clear_forgets           "clear_config forgets it" (next use constructs a new object)
"""
import json
import os
import sys
import threading

import gin
from gin import config as gc
from bounded import harness

BOUNDS = ('2-4 threads, each a program of 1-3 actions out of 8 configurable calls (3 scopes, '
          'with/without caller-supplied arguments), operative_config_str reads and 5 uses of 5 '
          'singletons (one whose constructor uses another singleton). Schedules at gin-statement '
          'granularity: 50 lock-boundary/constructor-window schedules; 18 sweeps (14 two-thread '
          'single-preemption, 4 with another thread parked at a lock boundary) over every '
          'preemption point of the swept thread (thorough) or ~90 evenly spaced points per sweep '
          '(quick); 120/6000 sampled schedules of <= 6 segments. Sequential singleton histories: '
          '36 fixed + 100/4000 sampled, <= 8 uses/clears.')
EXHAUSTIVE = {'quick': False, 'thorough': False}

_GIN_DIR = os.path.dirname(os.path.abspath(gin.__file__))
_SCHED = None          # the scheduler of the running case (None: plain sequential execution)
_MADE = []             # constructions: [scope name, object]


class _Abort(BaseException):
  pass


class _Stuck(Exception):
  """The baton did not come back: a blocking primitive this stand-in does not model."""


class _Sched:

  def __init__(self, n, segments):
    self.go = [threading.Semaphore(0) for _ in range(n)]
    self.back = threading.Semaphore(0)
    self.state = ['ready'] * n       # ready | blocked | done
    self.wants = [None] * n          # the lock a blocked thread waits for
    self.tid = {}                    # thread ident -> index
    self.segments = [list(s) for s in segments]
    self.cur = None
    self.abort = False
    self.problems = []
    self.lines = [0] * n             # gin statements executed per thread

  # ---- worker side -------------------------------------------------------------------
  def me(self):
    return self.tid.get(threading.get_ident())

  def _yield(self, tid, state):
    if self.abort:
      raise _Abort()
    self.state[tid] = state
    self.back.release()
    self.go[tid].acquire()
    if self.abort:
      raise _Abort()

  def point(self, tag):
    tid = self.me()
    seg = self.cur
    if tid is not None and tag == 'line':
      self.lines[tid] += 1
    if tid is None or seg is None or self.abort:
      return
    if seg[1] is not None:           # still waiting for the named event
      if tag == seg[1]:
        seg[1] = None
        if seg[2] <= 0:
          self._yield(tid, 'ready')
      return
    if tag == 'line':
      seg[2] -= 1
      if seg[2] <= 0:
        self._yield(tid, 'ready')

  def tracer(self, frame, event, arg):
    if event == 'call' and frame.f_code.co_filename.startswith(_GIN_DIR):
      return self.local
    return None

  def local(self, frame, event, arg):
    if event == 'line':
      self.point('line')
    return self.local

  # ---- controller side ---------------------------------------------------------------
  def runnable(self, t):
    if self.state[t] == 'done':
      return False
    if self.state[t] == 'blocked':
      return self.wants[t].free_for(t)
    return True

  def _resume(self, t, seg):
    self.cur = seg
    self.go[t].release()
    if not self.back.acquire(timeout=30):
      raise _Stuck('thread %d did not hand the baton back' % t)

  def run(self):
    n = len(self.go)
    for seg in self.segments:
      t = seg[0]
      if t < n and self.runnable(t):
        self._resume(t, seg)
    while True:
      live = [t for t in range(n) if self.state[t] != 'done']
      if not live:
        return
      ready = [t for t in live if self.runnable(t)]
      if not ready:
        self.problems.append('deadlock: threads %s wait for locks %s' % (
            live, [self.wants[t].name for t in live]))
        return
      self._resume(ready[0], None)

  def finish(self):
    self.abort = True
    for s in self.go:
      s.release()


class _CoopLock:
  """Mutual exclusion with the semantics of threading.Lock / RLock, blocking via the baton."""

  def __init__(self, name, reentrant):
    self.name, self.reentrant = name, reentrant
    self.owner, self.count = None, 0

  def free_for(self, who):
    return self.owner is None or (self.reentrant and self.owner == who)

  def acquire(self, blocking=True, timeout=-1):
    s = _SCHED
    who = s.me() if s is not None and s.me() is not None else ('ext', threading.get_ident())
    while not self.free_for(who):
      if not isinstance(who, int) or not blocking:
        return False
      if self.owner == who:
        s.problems.append('self-deadlock: non-reentrant %s acquired twice' % self.name)
      s.wants[who] = self
      s._yield(who, 'blocked')
    self.owner, self.count = who, self.count + 1
    if isinstance(who, int):
      s.state[who] = 'ready'
      s.point('acq')
    return True

  def release(self):
    self.count -= 1
    if self.count == 0:
      self.owner = None
    if _SCHED is not None:
      _SCHED.point('rel')

  __enter__ = acquire

  def __exit__(self, *exc):
    self.release()


# --- configurables ------------------------------------------------------------------------
class Obj:

  def __init__(self):
    _MADE.append([gin.current_scope_str(), self])
    if _SCHED is not None:
      _SCHED.point('ctor')


class Outer:
  """A singleton whose constructor uses another singleton (re-entrancy of the guard)."""

  def __init__(self, inner=None):
    self.inner = inner
    _MADE.append([gin.current_scope_str(), self])
    if _SCHED is not None:
      _SCHED.point('ctor')


def f0(a=1, b='x'):
  return [a, b]


def f1(a=2, c=None):
  return [a, c]


def f2(p=0):
  return p


def h(obj=None, other=None):
  return [obj, other]


SETUP = """
f0.a = 10
sc1/f0.b = 'scoped'
sc1/sc2/f0.a = 12
f1.c = @f2()
f2.p = 3
s1/gin.singleton.constructor = @Obj
a/b/gin.singleton.constructor = @Obj
c/b/gin.singleton.constructor = @Obj
b/gin.singleton.constructor = @Obj
s3/gin.singleton.constructor = @Outer
Outer.inner = @s1/gin.singleton()
u1/h.obj = @s1/gin.singleton()
u2/h.obj = @s1/gin.singleton()
u2/h.other = @a/b/gin.singleton()
u3/h.obj = @s3/gin.singleton()
u4/h.obj = @c/b/gin.singleton()
u4/h.other = @b/gin.singleton()
u5/h.obj = @a/b/gin.singleton()
"""
# action name -> (configurable, scope, caller keyword arguments)
ACTIONS = {
    'f0': ('f0', '', {}), 'f0_kw': ('f0', '', {'b': 'caller'}), 'f0_sc1': ('f0', 'sc1', {}),
    'f0_sc12': ('f0', 'sc1/sc2', {'a': 0}), 'f1': ('f1', '', {}), 'f1_sc1': ('f1', 'sc1', {'a': 7}),
    'f2': ('f2', '', {}), 'f2_sc1': ('f2', 'sc1', {}),
    'use1': ('h', 'u1', {}), 'use12': ('h', 'u2', {}), 'use3': ('h', 'u3', {}),
    'use_bb': ('h', 'u4', {}), 'use_ab': ('h', 'u5', {}),
}
CALLS = ['f0', 'f0_kw', 'f0_sc1', 'f0_sc12', 'f1', 'f1_sc1', 'f2', 'f2_sc1']
USES = ['use1', 'use12', 'use3', 'use_bb', 'use_ab']


def _setup():
  harness.reset()
  del _MADE[:]
  for fn in (f0, f1, f2, h, Obj, Outer):
    gin.external_configurable(fn, name=fn.__name__, module='c18')
  gin.parse_config(SETUP)


def _label(v):
  """Objects -> 'scope#k' (k-th construction under that scope name); containers recursively."""
  if isinstance(v, list):
    return [_label(x) for x in v]
  if isinstance(v, (Obj, Outer)):
    scope = [s for s, o in _MADE if o is v][0]
    k = [o for s, o in _MADE if s == scope].index(v)
    inner = '(%s)' % _label(v.inner) if isinstance(v, Outer) else ''
    return '%s#%d%s' % (scope, k, inner)
  return v


def _do(action):
  try:
    if action == 'read':
      return ['ok', gin.operative_config_str()]
    if action == 'clear':
      gin.clear_config()
      gin.parse_config(SETUP)
      return ['ok', None]
    name, scope, kwargs = ACTIONS[action]
    with gin.config_scope(scope):
      return ['ok', gin.get_configurable('c18.' + name)(**kwargs)]
  except Exception as e:   # pylint: disable=broad-except
    return ['exc', '%s: %s' % (type(e).__name__, str(e)[:60])]


_LAST_LINES = []    # statements per thread of the most recent run
_SEQ_CACHE = {}     # programs -> sequential outcome (a pure function of the programs)
_PARSED_OK = set()  # read texts already shown to parse


def _sequential(programs):
  key = json.dumps(programs)
  if key not in _SEQ_CACHE:
    _SEQ_CACHE[key] = _sequential_run(programs)
  return _SEQ_CACHE[key]


def _sequential_run(programs):
  """The same actions one after another: thread 0's, then thread 1's, ... (one worker, no preemption)."""
  flat = [x for prog in programs for x in prog]
  (res,), problems, text = _threaded([flat], [])
  out, i = [], 0
  for prog in programs:
    out.append(res[i:i + len(prog)])
    i += len(prog)
  return out, text, problems


def _threaded(programs, schedule):
  global _SCHED
  _setup()
  locks = {}
  for name, val in list(vars(gc).items()):   # every module-level lock of gin.config
    if isinstance(val, type(threading.Lock())):
      locks[name] = (val, _CoopLock(name, False))
    elif isinstance(val, type(threading.RLock())):
      locks[name] = (val, _CoopLock(name, True))
  sched = _Sched(len(programs), schedule)
  results = [[] for _ in programs]

  def worker(i):
    sched.tid[threading.get_ident()] = i
    sched.go[i].acquire()
    try:
      if sched.abort:
        return
      sys.settrace(sched.tracer)
      for a in programs[i]:
        try:
          results[i].append(_do(a))
        except _Abort:
          results[i].append(['exc', 'never returned'])
          raise
    except _Abort:
      pass
    finally:
      sys.settrace(None)
      sched.state[i] = 'done'
      sched.back.release()

  threads = [threading.Thread(target=worker, args=(i,)) for i in range(len(programs))]
  try:
    for name, (_, coop) in locks.items():
      setattr(gc, name, coop)
    _SCHED = sched
    for t in threads:
      t.start()
    sched.run()
    final_text = _try_text()   # still under the cooperative locks: cannot block this thread
  finally:
    sched.finish()
    for t in threads:
      t.join(30)
    _SCHED = None
    for name, (orig, _) in locks.items():
      setattr(gc, name, orig)
  if any(t.is_alive() for t in threads):
    raise _Stuck('worker threads did not terminate')
  labelled = [[[k, _label(v)] if a != 'read' else [k, v] for a, (k, v) in zip(prog, res)]
              for prog, res in zip(programs, results)]
  for prog, res in zip(programs, labelled):
    res.extend([['exc', 'never returned']] * (len(prog) - len(res)))
  _LAST_LINES[:] = sched.lines
  return labelled, sched.problems, final_text


def _try_text():
  try:
    return gin.operative_config_str()
  except Exception as e:   # pylint: disable=broad-except
    return 'raised %s: %s' % (type(e).__name__, str(e)[:80])


def _kind(a):
  return 'read' if a == 'read' else ('use' if a in USES else 'call')


def _sig(clause, programs):
  kinds = sorted({_kind(a) for p in programs for a in p})
  return '%s threads=%d actions=%s' % (clause, len(programs), '+'.join(kinds))


def _check_threads(case):
  programs, schedule = case['programs'], case['schedule']
  want, want_text, seq_problems = _sequential(programs)
  got, problems, got_text = _threaded(programs, schedule)
  if seq_problems:   # the one-after-another run itself never returns: nothing to compare with
    return [{'clause': 'no_deadlock', 'expected': 'every call returns', 'observed': p,
             'signature': _sig('no_deadlock sequential ' + p.split(':')[0], programs)}
            for p in seq_problems[:1]]
  made = list(_MADE)
  fails = []
  for p in problems:
    fails.append({'clause': 'no_deadlock', 'expected': 'every thread finishes', 'observed': p,
                  'signature': _sig('no_deadlock ' + p.split(':')[0], programs)})
  texts = []
  for i, prog in enumerate(programs):
    for j, a in enumerate(prog):
      if a == 'read':
        if got[i][j][0] != 'ok':
          fails.append({'clause': 'no_interference', 'expected': 'read returns a string',
                        'observed': got[i][j][1], 'where': [i, j],
                        'signature': _sig('no_interference read', programs)})
        else:
          texts.append(got[i][j][1])
      elif got[i][j] != want[i][j]:
        clause = 'singleton_once' if a in USES and got[i][j][0] == 'ok' else 'no_interference'
        fails.append({'clause': clause, 'expected': want[i][j], 'observed': got[i][j],
                      'where': [i, j], 'signature': _sig(clause + ' ' + _kind(a), programs)})
  per_scope = {}
  for scope, _ in made:
    per_scope[scope] = per_scope.get(scope, 0) + 1
  twice = sorted(s for s, n in per_scope.items() if n > 1)
  if twice:
    fails.append({'clause': 'singleton_once', 'expected': 'at most one construction per scope name',
                  'observed': {s: per_scope[s] for s in twice},
                  'signature': _sig('singleton_once constructions', programs)})
  if got_text != want_text:
    fails.append({'clause': 'final_equals_sequential', 'expected': want_text, 'observed': got_text,
                  'signature': _sig('final_equals_sequential', programs)})
  for text in texts:
    if text in _PARSED_OK:
      continue
    _setup()
    gin.clear_config()
    try:
      gin.parse_config(text)
    except Exception as e:   # pylint: disable=broad-except
      fails.append({'clause': 'read_parses', 'expected': 'the read parses', 'observed':
                    '%s: %s' % (type(e).__name__, str(e)[:100]), 'text': text,
                    'signature': _sig('read_parses', programs)})
    else:
      _PARSED_OK.add(text)
  return fails[:6]


# --- sequential singleton histories ---------------------------------------------------
SCOPES_OF = {'use1': ['s1'], 'use12': ['s1', 'a/b'], 'use_bb': ['c/b', 'b'], 'use_ab': ['a/b'],
             'use3': ['s3']}


def _idx(label):
  return int(label.split('#')[1].split('(')[0])


def _check_history(case):
  history = case['history']
  (res,), problems, _ = _threaded([history], [])
  cache, counts, fails = {}, {}, []

  def model(scope):
    if scope not in cache:
      if scope == 's3':
        model('s1')              # the constructor of s3 uses s1
      cache[scope] = '%s#%d' % (scope, counts.get(scope, 0))
      counts[scope] = counts.get(scope, 0) + 1
    return cache[scope]

  if problems:
    return [{'clause': 'no_deadlock', 'expected': 'every use returns', 'observed': problems[0],
             'signature': 'no_deadlock sequential ' + problems[0].split(':')[0]}]
  for step, op in enumerate(history):
    if op == 'clear':
      cache.clear()
      continue
    want = [model(s) for s in SCOPES_OF[op]]
    want = [w + ('(%s)' % cache['s1'] if w.startswith('s3#') else '') for w in want]
    got = [g for g in res[step][1] if g is not None] if res[step][0] == 'ok' else res[step]
    if got != want:
      stale = res[step][0] == 'ok' and len(got) == len(want) and any(
          _idx(g) < _idx(w) for g, w in zip(got, want))
      clause = 'clear_forgets' if 'clear' in history[:step] and stale else 'singleton_model'
      fails.append({'clause': clause, 'expected': want, 'observed': got, 'step': step,
                    'signature': '%s op=%s' % (clause, op)})
      break
  made = {}
  for scope, _ in _MADE:
    made[scope] = made.get(scope, 0) + 1
  if not fails and made != counts:
    fails.append({'clause': 'singleton_model', 'expected': counts, 'observed': made,
                  'signature': 'singleton_model constructions'})
  return fails


def check(case):
  if case['mode'] == 'threads':
    return _check_threads(case)
  return _check_history(case)


def nontrivial(case):
  return bool(case.get('programs') or case.get('history'))


BIG = 10 ** 6
PAIRS = [   # two-thread programs whose single preemption points are enumerated
    [['f0_sc1', 'read'], ['f1', 'f0_kw']],
    [['read'], ['f0', 'f2_sc1']],
    [['f0'], ['f0_kw']],
    [['f0_kw', 'read'], ['f0']],
    [['use1'], ['use12']],
    [['use3'], ['use1', 'read']],
    [['f1_sc1', 'read'], ['read', 'f0_sc12']],
]
# (programs, schedule prefix, swept thread, schedule suffix): the swept thread is preempted after k
# statements for every k; the prefix parks another thread at a lock boundary first
SWEEPS = [(p, [], w, [[1 - w, None, BIG]]) for p in PAIRS for w in (0, 1)] + [
    ([['read'], ['f0'], ['f0_kw']], [[2, None, BIG], [1, 'rel', 0]], 0, [[1, None, BIG]]),
    ([['read'], ['f0'], ['f0_kw']], [[2, None, BIG], [1, 'acq', 1]], 0, [[1, None, BIG]]),
    ([['f0_kw', 'read'], ['f0_sc1'], ['read']], [[1, 'acq', 0]], 0, [[2, None, BIG]]),
    ([['use1'], ['use12'], ['use3']], [[1, 'ctor', 0]], 0, [[2, None, BIG]]),
]
HISTORIES = [[u] for u in USES] + [[u, v] for u in USES for v in USES] + [
    [u, 'clear', u] for u in USES] + [['use12', 'use_ab', 'clear', 'use_ab', 'use1', 'use3']]


def _steps(progs, prefix, who):
  """Statements thread `who` executes inside gin after the prefix (measured, not assumed)."""
  _threaded(progs, prefix + [[who, None, BIG]])
  return _LAST_LINES[who]


def cases(tier, rng):
  for hist in HISTORIES:
    yield {'mode': 'history', 'history': hist}
  # lock boundaries and the constructor window: preempt right after acquire / release / ctor entry
  for progs in PAIRS + [[['use_bb'], ['use_ab'], ['use12']], [['use3'], ['use3'], ['read']],
                        [['f0'], ['read'], ['f0_sc1'], ['read']]]:
    for until in ('acq', 'rel', 'ctor'):
      for n in (0, 3):
        if until == 'ctor' and n:
          continue
        sched = [[t, until, n] for t in range(len(progs))]
        yield {'mode': 'threads', 'programs': progs, 'schedule': sched}
  for progs, prefix, who, suffix in SWEEPS:
    total = _steps(progs, prefix, who)
    stride = 1 if tier == 'thorough' else -(-total // 90)
    for k in range(rng.randrange(stride), total + 1, stride):
      yield {'mode': 'threads', 'programs': progs, 'schedule': prefix + [[who, None, k]] + suffix}
  for _ in range(120 if tier == 'quick' else 6000):
    n = rng.choice([2, 2, 3, 3, 4])
    progs = []
    for _t in range(n):
      progs.append([rng.choice(CALLS + USES + ['read', 'read']) for _a in range(rng.randint(1, 3))])
    sched = [[rng.randrange(n), rng.choice([None, None, 'acq', 'rel', 'ctor']), rng.randint(0, 120)]
             for _s in range(rng.randint(1, 6))]
    yield {'mode': 'threads', 'programs': progs, 'schedule': sched}
  for _ in range(100 if tier == 'quick' else 4000):
    yield {'mode': 'history',
           'history': [rng.choice(USES + USES + ['clear']) for _h in range(rng.randint(1, 8))]}
