"""C19 bounded stand-in: dynamic registration against Python's own import/attribute semantics.

A package tree (2 packages + one capitalised package, 4 modules, each with two functions, a class
with two methods and a nested class with a method, plus one module re-exporting objects of
another) is written to a temp dir on sys.path.  A case is a set of gin files (in memory, served
through register_file_reader) built from import statements in the four forms, bindings and
references spelled through those imports, and include statements.  The reference model resolves
every selector with importlib + getattr over the file's OWN import statements only, and keeps
bindings keyed by the resolved Python object.  gin is then asked, per object: get_bindings(obj),
the behaviour of get_configurable(obj), what a holder of a reference receives, and config_str();
the emitted config string is resolved again by the same independent resolver.

Clause labels -> sentence of the property
  exact_object            "resolves by looking up its first component among that file's own import
                          statements ... it is that exact object that is registered and configured"
  spellings_share         "different import spellings of one object address the same configurable"
  references_keep_working "configuring a method of an already referenced class keeps existing
                          references working"
  foreign_name_is_error   "Names not provided by the file's own imports (including imports of files
                          it includes or is included by) ... are errors"
  reserved_gin_is_error   "the reserved name gin ... [is an error]"
  enabling_is_error       "a late or aliased enabling statement and unknown __gin__ features are errors"
  config_str_resolves     "The config string re-aliases colliding import names so that every selector
                          it emits resolves to the same object"
"""
import ast
import atexit
import importlib
import io
import logging
import os
import re
import shutil
import sys
import tempfile
import types

import gin
from gin import config as gc

BOUNDS = ('1-3 gin files (nested includes or successive parse_config calls) over a fixed tree of 4 '
          'modules x 7 targets (function, holder, class, 2 methods, nested class, its method) + 3 '
          're-exported names; 1-3 import groups per file in 4 forms with aliases from a pool of 3 '
          '(forcing colliding bound names within and across files); 1-6 bindings/references per file '
          'in scopes {"", "s"} in any order; 13 error cases; 171 fixed cases + 1300 (quick) / 20000 '
          '(thorough) sampled')
EXHAUSTIVE = {'quick': False, 'thorough': False}

_TEMPLATE = '''
TAG = %r
def fn(x=0, y=0):
  return [TAG + '.fn', x, y]
def hold(value=None):
  return value
class K:
  def __init__(self, a=0):
    self.a = a
  def meth(self, m=0):
    return [TAG + '.K.meth', self.a, m]
  def meth2(self, n=0):
    return [TAG + '.K.meth2', self.a, n]
  class Inner:
    def __init__(self, i=0):
      self.i = i
    def im(self, q=0):
      return [TAG + '.K.Inner.im', self.i, q]
'''
MODULES = ['c19pkg.alpha.util', 'c19pkg.beta.util', 'c19pkg.beta.other', 'C19Cap.util']
PATHS = {'fn': ['x', 'y'], 'hold': ['value'], 'K': ['a'], 'K.meth': ['m'], 'K.meth2': ['n'],
         'K.Inner': ['i'], 'K.Inner.im': ['q']}
SHADOW = 'c19zz.c19pkg'          # sorts after c19pkg.*: the plain import is managed first
REEXPORT = {'alpha_fn': 'fn', 'AlphaK': 'K', 'AlphaK.meth': 'K.meth'}   # in c19pkg.beta.other
_TREE, _ROOT = [], []


def _tree():
  if not _TREE:
    root = tempfile.mkdtemp(prefix='c19_')
    _ROOT.append(root)
    atexit.register(shutil.rmtree, root, True)
    for mod in MODULES:
      parts = mod.split('.')
      for i in range(1, len(parts)):
        os.makedirs(os.path.join(root, *parts[:i]), exist_ok=True)
        open(os.path.join(root, *parts[:i], '__init__.py'), 'a').close()
      with open(os.path.join(root, *parts) + '.py', 'w') as fh:
        fh.write(_TEMPLATE % mod)
        if mod == 'c19pkg.beta.other':
          fh.write('from c19pkg.alpha.util import fn as alpha_fn, K as AlphaK\n')
    # a module that carries the NAME of another top-level package (not part of MODULES, so the
    # random generator is unaffected): `from c19zz import c19pkg` and `import c19pkg.alpha.util`
    # bind the same name to different objects
    os.makedirs(os.path.join(root, 'c19zz'), exist_ok=True)
    open(os.path.join(root, 'c19zz', '__init__.py'), 'a').close()
    with open(os.path.join(root, 'c19zz', 'c19pkg.py'), 'w') as fh:
      fh.write(_TEMPLATE % SHADOW)
    sys.path.insert(0, root)
    importlib.invalidate_caches()
    _TREE.extend(importlib.import_module(m) for m in MODULES)   # every attribute chain exists
    importlib.import_module(SHADOW)
  return _TREE


# --- the reference: Python's own semantics of the import forms and of attribute access ------
def _py_import(table, form, module, alias):
  mod = importlib.import_module(module)
  if form == 'from' or alias:
    table[alias or module.rsplit('.', 1)[1]] = mod          # from a.b import c [as x] / import a.b.c as x
  else:
    table[module.split('.')[0]] = sys.modules[module.split('.')[0]]   # import a.b.c binds `a`


def _py_resolve(table, selector, loaded=None):
  """With `loaded`, a submodule reached as an attribute must be imported by the text itself."""
  parts = selector.split('.')
  obj = table[parts[0]]            # KeyError: not provided by this file's imports
  for p in parts[1:]:
    obj = getattr(obj, p)
    if loaded is not None and isinstance(obj, types.ModuleType) and obj.__name__ not in loaded:
      raise ImportError('%s is not imported by the config string' % obj.__name__)
  return obj


def _bound_name(form, module, alias):
  return alias or (module.rsplit('.', 1)[1] if form == 'from' else module.split('.')[0])


class _Model:
  """Bindings keyed by (scope, id(object)); stops at the first statement that must be an error."""

  def __init__(self, case):
    self.case, self.objs, self.bind, self.refs = case, {}, {}, []
    self.error = None               # (clause, description) of the statement that must raise
    self.spell, self.log = {}, []   # id(obj) -> spellings used; events for attribution
    for name in case['parse']:
      if self.error is None:
        self.run_file(name)

  def note(self, obj, fname, selector):
    self.objs[id(obj)] = obj
    self.spell.setdefault(id(obj), set()).add((fname, selector.split('.')[0], selector))
    if _owner(obj) is not None:     # `x.K.meth` also is a spelling `x.K` of the class gin registers with it
      self.spell.setdefault(id(_owner(obj)), set()).add(
          (fname, selector.split('.')[0], selector.rsplit('.', 1)[0]))

  def run_file(self, fname):
    table, enabled, n_imports = {}, False, 0
    for st in self.case['files'][fname]:
      if self.error is not None:
        return
      kind = st[0]
      if kind in ('enable_as', 'feature'):
        self.error = ('enabling_is_error', kind)
      elif kind == 'enable':
        if n_imports:
          self.error = ('enabling_is_error', 'late')
        enabled = True
      elif kind == 'import':
        _, form, module, alias = st
        if enabled and _bound_name(form, module, alias) == 'gin':
          self.error = ('reserved_gin_is_error', 'import binds gin')
        else:
          _py_import(table, form, module, alias)
          n_imports += 1
      elif kind == 'include':
        self.run_file(st[1])
      elif kind in ('bind', 'ref'):
        sels = [st[2]] if kind == 'bind' else [st[2], st[4]]
        if any(s.split('.')[0] not in table for s in sels):
          root = [s.split('.')[0] for s in sels if s.split('.')[0] not in table][0]
          binders = [g for g, sts in self.case['files'].items() if g != fname and any(
              t[0] == 'import' and _bound_name(*t[1:]) == root for t in sts)]
          incl = lambda x, y: any(t[0] == 'include' and (t[1] == y or incl(t[1], y))
                                  for t in self.case['files'][x])
          where = ('includer' if any(incl(g, fname) for g in binders) else
                   'included' if any(incl(fname, g) for g in binders) else
                   'other_file' if binders else 'static_registry' if self.case.get('static') and
                   root == 'registered_fn' else 'nowhere')
          self.error = ('foreign_name_is_error', 'imported_by=%s (root %s used in %s)' % (where, root, fname))
          return
        objs = [_py_resolve(table, s) for s in sels]
        for o, s in zip(objs, sels):
          self.note(o, fname, s)
        if kind == 'bind':
          self.bind.setdefault((st[1], id(objs[0])), {})[st[3]] = st[4]
          self.log.append(('bind', fname, st[2], objs[0]))
        else:
          self.refs = [r for r in self.refs if (r[0], r[1]) != (st[1], objs[0])]
          self.refs.append((st[1], objs[0], st[3], objs[1], st[5]))
          self.log.append(('ref', fname, st[4], objs[1]))

  def eff(self, obj, scope, param, default=0):
    val = default
    for sc in ([''] if not scope else ['', scope]):
      val = self.bind.get((sc, id(obj)), {}).get(param, val)
    return val


def _render(stmts):
  out = []
  for st in stmts:
    k = st[0]
    if k == 'enable':
      out.append('from __gin__ import dynamic_registration')
    elif k == 'enable_as':
      out.append('from __gin__ import dynamic_registration as dynreg')
    elif k == 'feature':
      out.append('from __gin__ import %s' % st[1])
    elif k == 'import':
      _, form, module, alias = st
      base = ('from %s import %s' % tuple(module.rsplit('.', 1))) if form == 'from' else 'import ' + module
      out.append(base + (' as ' + alias if alias else ''))
    elif k == 'include':
      out.append("include '%s.gin'" % st[1])
    elif k == 'bind':
      out.append('%s%s.%s = %r' % (st[1] + '/' if st[1] else '', st[2], st[3], st[4]))
    elif k == 'ref':
      out.append('%s%s.value = @%s%s%s' % (st[1] + '/' if st[1] else '', st[2],
                                           st[3] + '/' if st[3] else '', st[4], '()' if st[5] else ''))
  return '\n'.join(out) + '\n'


# --- observation of gin ---------------------------------------------------------------------
def _bindings(obj, scope):
  try:
    with gin.config_scope(scope):
      got = gin.get_bindings(obj, resolve_references=False, inherit_scopes=False)
  except ValueError:      # not registered: no bindings
    return {}
  return {k: v for k, v in got.items() if k != 'value'}


def _owner(obj):
  """The class whose configurable carries a method (None for functions and classes)."""
  if isinstance(obj, type) or '.' not in obj.__qualname__:
    return None
  mod = sys.modules[obj.__module__]
  return _py_resolve({'m': mod}, 'm.' + obj.__qualname__.rsplit('.', 1)[0])


def _behaviour(model, obj, run_scope, scope, make):
  """(expected, observed) behaviour of what `make()` yields when run under `run_scope`; expected
  values use the bindings effective in `scope`."""
  m, tag = model, obj.__module__
  if not isinstance(obj, type):
    want = [tag + '.fn', m.eff(obj, scope, 'x'), m.eff(obj, scope, 'y')]
  elif obj.__name__ == 'Inner':
    i = m.eff(obj, scope, 'i')
    want = [True, i, [tag + '.K.Inner.im', i, m.eff(obj.im, scope, 'q')]]
  else:
    a = m.eff(obj, scope, 'a')
    want = [True, a, [tag + '.K.meth', a, m.eff(obj.meth, scope, 'm')],
            [tag + '.K.meth2', a, m.eff(obj.meth2, scope, 'n')]]
  try:
    with gin.config_scope(run_scope):
      r = make()
      if not isinstance(obj, type):
        return want, r
      if obj.__name__ == 'Inner':
        return want, [obj in type(r).__mro__, r.i, r.im()]
      return want, [obj in type(r).__mro__, r.a, r.meth(), r.meth2()]
  except Exception as e:   # pylint: disable=broad-except
    return want, 'raised %s: %s' % (type(e).__name__, str(e)[:100])


_CS_IMPORT = re.compile(r'^(?:from (\S+) import (\w+)|import (\S+))(?: as (\w+))?$')
_CS_BIND = re.compile(r'^((?:\w+/)*)([\w.]+)\.(\w+) = (.*)$')
_CS_REF = re.compile(r'^@((?:\w+/)*)([\w.]+)(\(\))?$')


def _read_config_str(text):
  """Resolves a config string with the reference resolver only -> {(scope, id, param): value}."""
  table, out, first, loaded = {}, {}, True, set()
  for line in text.split('\n'):
    mi = _CS_IMPORT.match(line)
    if mi:
      frm, name, plain, alias = mi.groups()
      module = (frm + '.' + name) if frm else plain
      if module == '__gin__.dynamic_registration':
        if not first:
          raise SyntaxError('config string enables dynamic registration after an import')
      else:
        _py_import(table, 'from' if frm else 'plain', module, alias)
        loaded.update(module.rsplit('.', n)[0] for n in range(module.count('.') + 1))
      first = False
      continue
    mb = _CS_BIND.match(line)
    if mb and not line.startswith('#'):
      scope, sel, param, val = mb.groups()
      obj = _py_resolve(table, sel, loaded)
      mr = _CS_REF.match(val)
      if mr:
        val = ('ref', mr.group(1).rstrip('/'), id(_py_resolve(table, mr.group(2), loaded)), bool(mr.group(3)))
      else:
        val = ast.literal_eval(val)
      key = (scope.rstrip('/'), id(obj), param)
      if out.get(key, val) != val:
        raise LookupError('two different values for one parameter of one object')
      out[key] = val
  return out


def _flags(model):
  """Facts about the case used to attribute a mismatch to a sentence and to name its kind."""
  multi = {i for i, sp in model.spell.items() if len({(f, s) for f, r, s in sp}) > 1}
  cross = {i for i, sp in model.spell.items() if len({f for f, r, s in sp}) > 1}
  seen_cls, late_method = set(), False
  for kind, fname, sel, obj in model.log:
    own = _owner(obj)
    if own is not None and id(own) in seen_cls:
      late_method = True
    seen_cls.add(id(obj if own is None else own))
  return multi, cross, late_method


def _clause_for(model, obj, via_ref):
  multi, cross, late_method = _flags(model)
  ids = {id(obj)} | ({id(_owner(obj))} if _owner(obj) is not None else set())
  if isinstance(obj, type):
    ids |= {id(v) for v in vars(obj).values() if callable(v)}
  if via_ref and late_method:
    clause = 'references_keep_working'
  elif ids & multi:
    clause = 'spellings_share'
  else:
    clause = 'exact_object'
  kind = 'K' if isinstance(obj, type) else ('method' if _owner(obj) is not None else 'function')
  return clause, '%s on=%s spellings=%s files=%s method_after_class=%s' % (
      clause, kind, 'many' if ids & multi else 'one', 'many' if ids & cross else 'one', late_method)


def check(case):
  logging.disable(logging.CRITICAL)
  try:
    fails = _check(case)
  finally:
    logging.disable(logging.NOTSET)
  for f in fails:
    for k in ('expected', 'observed', 'text'):   # the temp dir is the only run-specific text
      if isinstance(f.get(k), str):
        f[k] = f[k].replace(_ROOT[0], '<tree>')
  return fails[:6]


def _check(case):
  mods = _tree()
  files = {name + '.gin': _render(st) for name, st in case['files'].items()}
  gc.register_file_reader(lambda p: io.StringIO(files[p]), lambda p: p in files)
  if case.get('static'):   # a statically registered configurable must not leak into a dynamic file
    gin.external_configurable(mods[0].hold, name='registered_fn', module='c19static')
  model = _Model(case)
  raised = None
  for name in case['parse']:
    try:
      gin.parse_config(files[name + '.gin'])
    except Exception as e:   # pylint: disable=broad-except
      raised = e
      break
  if model.error is not None:
    clause, what = model.error
    if raised is None:
      return [{'clause': clause, 'expected': 'parse_config raises (%s)' % what,
               'observed': 'accepted', 'signature': '%s accepted %s' % (clause, what.split(' ')[0])}]
    return []
  if raised is not None:
    multi, _, late_method = _flags(model)
    text = str(raised)
    msg = ('root-not-imported' if 'was not provided by an import' in text else
           'selector-collision' if 'A different configurable matching' in text else
           'method-module-mismatch' if 'was registered with a custom module' in text else
           'attribute-not-found' if "Couldn't resolve selector" in text else ' '.join(text.split()[:3]))
    # every root IS imported by its own file and every attribute exists there: such an error can
    # only come from resolving an earlier reference in the wrong file
    if isinstance(raised, (NameError, AttributeError)) and late_method:
      clause = 'references_keep_working'
    elif multi and late_method:
      clause = 'spellings_share'
    else:
      clause = 'exact_object'
    return [{'clause': clause, 'expected': 'the files parse', 'observed':
             '%s: %s' % (type(raised).__name__, str(raised)[:150]),
             'signature': '%s parse raises %s %s method_after_class=%s' % (
                 clause, type(raised).__name__, msg, late_method)}]
  fails = []

  def mismatch(obj, via_ref, what, want, got):
    clause, sig = _clause_for(model, obj, via_ref)
    if via_ref:
      sig += ' holder_receives=' + ('other_class' if isinstance(got, list) and got[0] is False else
                                    'raise' if isinstance(got, str) else 'wrong_values')
    fails.append({'clause': clause, 'expected': want, 'observed': got, 'what': what, 'signature': sig})

  # 1. bindings sit on exactly the objects Python resolves the selectors to, and nowhere else
  everything = [_py_resolve({'m': m}, 'm.' + p) for m in mods for p in PATHS]
  for obj in everything:
    for scope in ('', 's'):
      want = {k: v for k, v in model.bind.get((scope, id(obj)), {}).items() if k != 'value'}
      got = _bindings(obj, scope)
      if got != want:
        mismatch(obj, False, 'get_bindings(%s.%s) in scope %r' % (obj.__module__, obj.__qualname__, scope),
                 want, got)
  # 2. behaviour of the configurables of all objects the files name (classes also for their methods)
  named = []
  for obj in model.objs.values():
    tgt = _owner(obj) or obj
    if tgt.__name__ != 'hold' and all(tgt is not t for t in named):
      named.append(tgt)
  for obj in named:
    for scope in ('', 's'):
      want, got = _behaviour(model, obj, scope, scope, lambda: gin.get_configurable(obj)())
      if got != want:
        mismatch(obj, False, 'get_configurable(%s.%s)() in scope %r' % (
            obj.__module__, obj.__qualname__, scope), want, got)
  # 3. what holders of references receive
  for hs, holder, rs, target, evaluate in model.refs:
    def make():
      r = gin.get_configurable(holder)()
      return r if evaluate else r()
    want, got = _behaviour(model, target, hs, rs or hs, make)
    if got != want:
      mismatch(target, True, 'value held by %s/%s.hold' % (hs, holder.__module__), want, got)
  if fails:
    return fails
  # 4. the config string, read back by the reference resolver only
  want = {(sc, i, p): v for (sc, i), ps in model.bind.items() for p, v in ps.items()}
  for hs, holder, rs, target, evaluate in model.refs:
    want[(hs, id(holder), 'value')] = ('ref', rs, id(target), evaluate)
  early = any(m.split('.')[0] < '__gin__' for f in case['files'].values() for st in f
              if st[0] == 'import' for m in [st[2]])
  _multi, _cross, _late = _flags(model)
  sig = 'config_str_resolves %%s imports_sorting_before___gin__=%s spellings=%s method_after_class=%s' % (
      early, 'many' if _multi else 'one', _late)
  try:
    text = gin.config_str(max_line_length=200)
    got = _read_config_str(text)
  except Exception as e:   # pylint: disable=broad-except
    return [{'clause': 'config_str_resolves', 'expected': 'a config string whose selectors resolve',
             'observed': '%s: %s' % (type(e).__name__, str(e)[:120]),
             'signature': sig % ('raises ' + type(e).__name__)}]
  if got != want:
    name = lambda d: sorted((sc, model.objs[i].__module__ + '.' + model.objs[i].__qualname__, p, str(v))
                            for (sc, i, p), v in d.items() if i in model.objs)
    return [{'clause': 'config_str_resolves', 'expected': name(want), 'observed': name(got),
             'text': text, 'signature': sig % 'selectors resolve elsewhere'}]
  # 5. and by gin itself after a clear
  gin.clear_config()
  try:
    gin.parse_config(text)
  except Exception as e:   # pylint: disable=broad-except
    return [{'clause': 'config_str_resolves', 'expected': 'gin parses its own config string',
             'observed': '%s: %s' % (type(e).__name__, str(e)[:120]), 'text': text,
             'signature': sig % ('reparse raises ' + type(e).__name__)}]
  for obj in everything:
    for scope in ('', 's'):
      want_b = {k: v for k, v in model.bind.get((scope, id(obj)), {}).items() if k != 'value'}
      if _bindings(obj, scope) != want_b:
        return [{'clause': 'config_str_resolves', 'expected': want_b, 'observed': _bindings(obj, scope),
                 'text': text, 'signature': sig % 'reparse binds elsewhere'}]
  return []


# --- cases ----------------------------------------------------------------------------------
EN = ['enable']
ALIASES = ['u', 'util', 'm']


def _spell(imp, module, path):
  """Selector of `path` in `module` through import statement `imp`, or None if out of reach."""
  _, form, imod, alias = imp
  if form == 'plain' and not alias:   # binds the top package; only the imported module is surely loaded
    return module + '.' + path if module == imod else None
  if module != imod and not module.startswith(imod + '.'):
    return None
  rest = module[len(imod):].lstrip('.')
  return '.'.join([_bound_name(form, imod, alias)] + ([rest] if rest else []) + [path])


def _imports_for(module):
  """Groups of import statements; selectors are spelled through the last one of a group. A package
  import is preceded by an import of the module itself, so that the submodule attribute exists."""
  pkg, direct = module.rsplit('.', 1)[0], ['import', 'plain', module, None]
  out = [[direct], [['import', 'from', module, None]]]
  out += [[['import', f, module, a]] for f in ('plain', 'from') for a in ALIASES]
  if '.' in pkg:
    out += [[direct, ['import', 'from', pkg, None]], [direct, ['import', 'plain', pkg, 'm']]]
  return out


def _use(rng, imp, module, path, scope):
  sel = _spell(imp, module, path)
  if path == 'hold':
    tgt = rng.choice(['K', 'K.Inner', 'fn'])
    return ['ref', scope, sel, rng.choice(['', 's']), _spell(imp, module, tgt), rng.random() < 0.7]
  return ['bind', scope, sel, rng.choice(PATHS[path]), rng.randint(1, 9)]


def _fixed():
  a, b, o, cap = MODULES
  for module in (a, b):     # every import form x every target
    for group in _imports_for(module):
      for path in PATHS:
        imp = group[-1]
        use = (['bind', '', _spell(imp, module, path), PATHS[path][0], 5] if path != 'hold' else
               ['ref', 's', _spell(imp, module, path), '', _spell(imp, module, 'K'), True])
        yield {'files': {'main': [EN] + group + [use]}, 'parse': ['main']}
  ia, ib = ['import', 'plain', a, 'u'], ['import', 'plain', b, 'u']
  fa = ['import', 'from', a, None]
  errs = [
      {'main': [EN, ia, ['include', 'child']], 'child': [EN, ['bind', '', 'u.fn', 'x', 1]]},
      {'main': [EN, ['include', 'child'], ['bind', '', 'u.fn', 'x', 1]], 'child': [EN, ia]},
      {'main': [EN, ia, ['include', 'child'], ['bind', '', 'util.fn', 'x', 1]], 'child': [EN, fa]},
      {'main': [EN, ia, ['ref', '', 'u.hold', '', 'util.K', True]]},
      {'main': [EN, ['bind', '', 'registered_fn', 'value', 1]]},
      {'main': [EN, ['bind', '', 'c19pkg.alpha.util.fn', 'x', 1]]},
      {'main': [EN, ['import', 'plain', a, 'gin']]},
      {'main': [EN, ['import', 'from', a, 'gin']]},
      {'main': [EN, ['import', 'plain', 'gin', None]]},
      {'main': [ia, EN]},
      {'main': [['enable_as']]},
      {'main': [['feature', 'static_registration']]},
      {'main': [EN, ia, ['include', 'child']], 'child': [ib, EN]},
  ]
  for files in errs:
    yield {'files': files, 'parse': ['main'], 'static': True}
  # a method configured after its class was configured / referenced: same or other spelling, same
  # file, included file, later parse_config call
  cls_first = [['bind', '', 'u.K', 'a', 1], ['ref', '', 'u.hold', '', 'u.K', True]]
  for imp2, sel in ((ia, 'u'), (fa, 'util'), (['import', 'plain', a, 'm'], 'm')):
    meth = ['bind', '', sel + '.K.meth', 'm', 2]
    imports = [ia] if imp2 == ia else [ia, imp2]
    yield {'files': {'main': [EN] + imports + cls_first + [meth]}, 'parse': ['main']}
    yield {'files': {'main': [EN] + imports + [meth] + cls_first}, 'parse': ['main']}
    yield {'files': {'main': [EN, ia] + cls_first + [['include', 'child']], 'child': [EN, imp2, meth]},
           'parse': ['main']}
    yield {'files': {'main': [EN, ia] + cls_first, 'later': [EN, imp2, meth]}, 'parse': ['main', 'later']}
  # the alias of the parent means another module in the child
  yield {'files': {'main': [EN, ia] + cls_first + [['include', 'child']],
                   'child': [EN, ib, ['import', 'plain', a, 'm'], ['bind', '', 'm.K.meth', 'm', 2]]},
         'parse': ['main']}
  # colliding bound names across files, and a capitalised package, in the config string
  for i1, i2 in ((fa, ['import', 'from', b, None]), (ia, ib), (['import', 'plain', a, None],
                                                               ['import', 'plain', b, None])):
    yield {'files': {'main': [EN, i1, ['bind', '', _spell(i1, a, 'fn'), 'x', 1], ['include', 'child']],
                     'child': [EN, i2, ['bind', 's', _spell(i2, b, 'fn'), 'x', 2],
                               ['bind', '', _spell(i2, b, 'K.Inner'), 'i', 3]]}, 'parse': ['main']}
  yield {'files': {'main': [EN, ['import', 'from', cap, None], ['bind', '', 'util.fn', 'x', 1]]},
         'parse': ['main']}
  # a plain import (binds the top package name) and a from-import of a MODULE of that name, in
  # two files / two calls: the config string has to re-alias one of them
  pa, fs = ['import', 'plain', a, None], ['import', 'from', SHADOW, None]
  for parse, files in ((['main'], {'main': [EN, pa, ['bind', '', a + '.fn', 'x', 1], ['include', 'child']],
                                   'child': [EN, fs, ['bind', '', 'c19pkg.fn', 'y', 2]]}),
                       (['main', 'later'], {'main': [EN, fs, ['bind', '', 'c19pkg.fn', 'y', 2]],
                                            'later': [EN, pa, ['bind', 's', a + '.K', 'a', 3]]})):
    yield {'files': files, 'parse': parse}
  yield {'files': {'main': [EN, ['import', 'from', o, None], fa, ['bind', '', 'other.alpha_fn', 'x', 1],
                            ['bind', '', 'util.fn', 'y', 2], ['bind', '', 'other.AlphaK.meth', 'm', 3],
                            ['bind', 's', 'util.K', 'a', 4]]}, 'parse': ['main']}


def _random_file(rng, name, children):
  mods = [rng.choice(MODULES[:3] if rng.random() < 0.97 else MODULES) for _ in range(rng.randint(1, 3))]
  groups = [rng.choice(_imports_for(m)) for m in mods]
  imports = [imp for g in groups for imp in g]
  table = {}
  for imp in imports:                        # later imports may rebind a name: use what is bound
    table[_bound_name(*imp[1:])] = imp
  uses = []
  for _ in range(rng.randint(1, 6)):
    k = rng.randrange(len(groups))
    imp = groups[k][-1]
    if table[_bound_name(*imp[1:])] is not imp:
      continue
    path = rng.choice(list(PATHS) + ['K', 'K.meth', 'K.meth'])
    if mods[k] == MODULES[2] and rng.random() < 0.5 and _spell(imp, mods[k], 'alpha_fn'):
      name2 = rng.choice(sorted(REEXPORT))
      uses.append(['bind', rng.choice(['', 's']), _spell(imp, mods[k], name2),
                   PATHS[REEXPORT[name2]][0], rng.randint(1, 9)])
    elif _spell(imp, mods[k], path):
      uses.append(_use(rng, imp, mods[k], path, rng.choice(['', '', 's'])))
  body = uses + [['include', c] for c in children]
  rng.shuffle(body)
  return [EN] + imports + body


def cases(tier, rng):
  _tree()
  for c in _fixed():
    yield c
  for _ in range(1300 if tier == 'quick' else 20000):
    shape = rng.choice(['one', 'one', 'include', 'include', 'two_calls', 'chain'])
    if shape == 'one':
      files, parse = {'main': _random_file(rng, 'main', [])}, ['main']
    elif shape == 'include':
      files = {'main': _random_file(rng, 'main', ['child']), 'child': _random_file(rng, 'child', [])}
      parse = ['main']
    elif shape == 'two_calls':
      files = {'main': _random_file(rng, 'main', []), 'later': _random_file(rng, 'later', [])}
      parse = ['main', 'later']
    else:
      files = {'main': _random_file(rng, 'main', ['child']), 'child': _random_file(rng, 'child', ['leaf']),
               'leaf': _random_file(rng, 'leaf', [])}
      parse = ['main']
    yield {'files': files, 'parse': parse}


def nontrivial(case):
  return any(st[0] in ('bind', 'ref') for f in case['files'].values() for st in f)
