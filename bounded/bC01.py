"""C01 bounded stand-in: what a configurable's body receives = the caller's values
over scope-layered bindings over the function's own defaults.

Run-time contract on the real gin: for a probe callable of each of 14 shapes
(reached through gin.configurable / external_configurable / register, i.e.
through `_decorate_fn_or_cls`), a set of bindings, an active scope and a call,
the probe body must receive exactly `_spec(...)`: an independent executable
form of the property statement (longest applicable scope prefix per parameter,
computed per parameter by comparing component lists -- not by overlaying dicts).

Clause labels (sentence of the property each stands for):
  caller_value_unchanged    "every parameter the caller passes (positionally or by
                             keyword) reaches the function unchanged" (identity;
                             also extra *args / **kwargs values)
  bound_value_received      "every other parameter that has a binding in the root
                             scope or in any prefix of the currently active scope
                             receives the bound value"
  longer_prefix_overrides   "a binding under a longer scope prefix overriding one
                             under a shorter prefix" (observed = value of another
                             applicable, shorter prefix)
  non_prefix_never_applies  "bindings made under a scope that is not a prefix of
                             the active scope never apply" (observed = value bound
                             under a non-prefix scope)
  unbound_left_to_default   "parameters with neither a caller value nor an
                             applicable binding are left to the function's own
                             defaults" (default value received; no default =>
                             Python's TypeError and the body does not run)
  nothing_else_passed       no value reaches *args / **kwargs that is neither the
                             caller's nor an applicable binding (same sentences,
                             for the variadic parts)
  call_happens_once         "when a configurable is called": the body runs
                             exactly once per call (and not at all iff a
                             parameter is left without any value)
  no_unexpected_exception   a call in which every parameter has a value (caller,
                             binding or default) must not raise
"""
import contextlib

import gin

BOUNDS = ('14 callable shapes (function/class/method x plain, defaults, kw-only, '
          '*args, **kwargs; configurable/external_configurable/register) x '
          'active scopes of depth <= 3 over components {s,t,u,st} built from <= 4 '
          'nested config_scope entries (names, a/b names, lists, None) or a '
          'scoped selector x bindings under <= 7 scope strings of depth <= 4 '
          '(prefixes and non-prefixes) with <= 2 parameters per scope x every '
          'valid positional/keyword/omitted split of alpha,beta,gamma(,delta) '
          'plus <= 2 extra *args (caller values: fresh objects or None/0/""/'
          'False/[]); 2 consecutive calls per case, optionally with 1-2 '
          '(re)bindings between them; fixed corners, then a seeded sample '
          '(quick 9000, thorough 200000 cases).')
EXHAUSTIVE = {'quick': False, 'thorough': False}

NAMES = ('alpha', 'beta', 'gamma')
EXTRA = 'delta'       # reaches a body only through **kw
PLAIN = (None, 0, '', False, [])   # caller values that are falsy / look like "absent"
COMPONENTS = ['s', 't', 'u', 's', 't', 'u', 'st']   # 'st': string-prefix look-alike of 's'

KINDS = ['str', 'str', 'str', 'list', 'list', 'none']   # kinds of bound values


def _sig(kind, reg, pos, dflt=(), kwonly=(), varargs=False, varkw=False):
  return dict(kind=kind, reg=reg, pos=list(pos), dflt=list(dflt),
              kwonly=list(kwonly), varargs=varargs, varkw=varkw)

A, B, G = NAMES
SHAPES = {
    'fn_plain': _sig('fn', 'configurable', [A, B, G]),
    'fn_defaults': _sig('fn', 'configurable', [A, B, G], [B, G]),
    'fn_kwonly': _sig('fn', 'external', [A], [G], kwonly=[B, G]),
    'fn_varargs': _sig('fn', 'configurable', [A, B], [B, G], kwonly=[G], varargs=True),
    'fn_varkw': _sig('fn', 'register', [A, B], [B], varkw=True),
    'fn_mixed': _sig('fn', 'configurable', [A], [B], kwonly=[B], varargs=True, varkw=True),
    'cls_init': _sig('init', 'configurable', [A, B, G], [B, G]),
    'cls_new': _sig('new', 'configurable', [A, B], [B, G], kwonly=[G]),
    'cls_both': _sig('both', 'configurable', [A], [G], kwonly=[B, G]),
    'cls_neither': _sig('inherit', 'configurable', [A, B], [B], varkw=True),
    'ext_cls_init': _sig('init', 'external', [A, B], [B, G], kwonly=[G], varargs=True),
    'ext_cls_new': _sig('new', 'external', [A, B], [B], varkw=True),
    'method': _sig('method', 'configurable', [A, B], [B, G], kwonly=[G]),
    'reg_method': _sig('reg_method', 'register', [A, B, G], [G]),
}
SHAPE_NAMES = list(SHAPES)


class _Val:
  """A caller-supplied value; a copy of it is a visibly different value."""

  def __init__(self, label):
    self.label = label

  def __deepcopy__(self, memo):
    return _Val('copy-of:' + self.label)

  __copy__ = lambda self: self.__deepcopy__({})

  def __repr__(self):
    return '<%s>' % self.label


def _make_fn(name, lead, sig, rec):
  """def name(lead, <pos>, *rest | *, <kwonly>, **kw): record what was received."""
  parts = [lead] if lead else []
  for p in sig['pos'] + ['*'] + sig['kwonly']:
    if p == '*':
      if sig['varargs']:
        parts.append('*rest')
      elif sig['kwonly']:
        parts.append('*')
    else:
      parts.append('%s=_D[%r]' % (p, p) if p in sig['dflt'] else p)
  if sig['varkw']:
    parts.append('**kw')
  named = ', '.join('%r: %s' % (p, p) for p in sig['pos'] + sig['kwonly'])
  src = 'def %s(%s):\n  _rec.append(({%s}, %s, %s))\n' % (
      name, ', '.join(parts), named,
      'list(rest)' if sig['varargs'] else 'None',
      'dict(kw)' if sig['varkw'] else 'None')
  if name == '__new__':
    src += '  return object.__new__(cls)\n'
  env = {'__name__': __name__, '_rec': rec,
         '_D': {p: 'D:' + p for p in sig['dflt']}}
  exec(src, env)   # pylint: disable=exec-used
  return env[name]


def _register(shape, rec):
  """Registers a fresh probe of the given shape; returns (callable, selector)."""
  sig = SHAPES[shape]
  kind, reg = sig['kind'], sig['reg']
  wrap = {'configurable': lambda x: gin.configurable(x, module='pm'),
          'external': lambda x: gin.external_configurable(x, module='pm'),
          'register': lambda x: gin.get_configurable(gin.register(x, module='pm'))}[reg]
  if kind == 'fn':
    return wrap(_make_fn('probe', None, sig, rec)), 'pm.probe'
  if kind == 'method':
    fn = _make_fn('m', 'self', sig, rec)
    holder = type('Holder', (object,), {'m': gin.configurable(fn, module='pm.Holder')})
    return (lambda *a, **k: holder().m(*a, **k)), 'pm.Holder.m'
  if kind == 'reg_method':   # registered method of a registered class: renamed selector
    fn = _make_fn('m', 'self', sig, rec)
    fn.__qualname__ = 'Holder.m'
    holder = type('Holder', (object,), {'m': gin.register(fn), '__module__': __name__})
    dec = gin.external_configurable(holder, module='pm')
    return (lambda *a, **k: dec().m(*a, **k)), 'pm.Holder.m'
  if kind == 'new':
    body = {'__new__': _make_fn('__new__', 'cls', sig, rec)}
  else:
    body = {'__init__': _make_fn('__init__', 'self', sig, rec)}
  if kind == 'both':
    body['__new__'] = lambda cls, *a, **k: object.__new__(cls)
  body['__module__'] = __name__
  if kind == 'inherit':
    base = type('Base', (object,), body)
    return wrap(type('Probe', (base,), {'__module__': __name__})), 'pm.Probe'
  return wrap(type('Probe', (object,), body)), 'pm.Probe'


# ----------------------------------------------------------------- the spec
def _active(entries):
  """Fold of the config_scope entry rules (name: extend; list: replace; None/'': clear)."""
  cur = []
  for e in entries:
    if e is None or e == '':
      cur = []
    elif isinstance(e, list):
      cur = list(e)
    else:
      cur = cur + e.split('/')
  return cur


def _bval(scope, param, kind):
  label = 'B:%s:%s' % (scope, param)
  if kind == 'none':   # `f.x = None` is a binding like any other
    return None
  return [label, {'k': label}] if kind == 'list' else label


def _applicable(bindings, active):
  """param -> (depth, value) of the binding under the longest prefix of `active`."""
  best = {}
  for scope, param, kind in bindings:
    comps = scope.split('/') if scope else []
    if len(comps) <= len(active) and all(c == a for c, a in zip(comps, active)):
      if param not in best or len(comps) > best[param][0]:
        best[param] = (len(comps), _bval(scope, param, kind))
  return best


def _spec(sig, npos_vals, kw_vals, bindings, active):
  """Expected (named, rest, kw) with each value tagged by its source, or None
  when some parameter is left without any value (Python's TypeError)."""
  best = _applicable(bindings, active)
  named, kw = {}, {}
  n = min(len(npos_vals), len(sig['pos']))
  for i in range(n):
    named[sig['pos'][i]] = ('caller', npos_vals[i])
  rest = [('caller', v) for v in npos_vals[n:]]
  params = sig['pos'] + sig['kwonly']
  for k, v in kw_vals.items():
    (named if k in params else kw)[k] = ('caller', v)
  for p, (_, v) in best.items():
    if p not in named and p not in kw:
      (named if p in params else kw)[p] = ('bound', v)
  for p in params:
    if p not in named:
      if p not in sig['dflt']:
        return None
      named[p] = ('default', 'D:' + p)
  return named, (rest if sig['varargs'] else None), (kw if sig['varkw'] else None)


# ---------------------------------------------------------------- the cases
def _splits(sig):
  """Every valid split of the parameters into positional / keyword / omitted."""
  out = []
  kwable = sig['pos'] + sig['kwonly'] + (
      [p for p in NAMES + (EXTRA,) if p not in sig['pos'] + sig['kwonly']]
      if sig['varkw'] else [])
  for npos in range(len(sig['pos']) + 1):
    extras = [0, 1, 2] if (sig['varargs'] and npos == len(sig['pos'])) else [0]
    others = [p for p in kwable if p not in sig['pos'][:npos]]
    for extra in extras:
      for mask in range(2 ** len(others)):
        out.append({'npos': npos + extra,
                    'kw': [p for i, p in enumerate(others) if mask >> i & 1]})
  return out


def _bindable(sig):
  names = sig['pos'] + sig['kwonly']
  if sig['varkw']:
    names = names + [p for p in NAMES + (EXTRA,) if p not in names]
  return names


def _entries_for(active, rng):
  """Some nest of config_scope arguments whose fold is `active`."""
  style = rng.choice(['single', 'joined', 'list', 'cleared', 'replaced'])
  if not active:
    return rng.choice([[], [None], ['u/t', None], ['s', ''], [[]], ['t', []]])
  if style == 'single':
    return list(active)
  if style == 'joined':
    cut = rng.randint(1, len(active))
    return ['/'.join(active[:cut])] + list(active[cut:])
  if style == 'list':
    return [list(active)]
  if style == 'cleared':
    return [rng.choice(['t', 'u/s']), None, '/'.join(active)]
  cut = rng.randint(1, len(active))
  return [rng.choice(['u', 't/t']), list(active[:cut])] + list(active[cut:])


def _scope_pool(active, rng):
  """Prefixes of the active scope and look-alike scopes that are not prefixes."""
  pre = ['/'.join(active[:j]) for j in range(len(active) + 1)]
  non = ['/'.join(active[j:]) for j in range(1, len(active))]            # suffixes
  non += ['/'.join(active + [c]) for c in 'st']                          # too long
  non += ['/'.join(reversed(active))] if len(active) > 1 else []
  non += ['/'.join(active[:j] + [c]) for j in range(len(active)) for c in ('s', 't', 'u', 'st')
          if c != active[j]]                                             # siblings
  non += ['/'.join(active[:j] + active[j + 1:]) for j in range(len(active) - 1)]
  non += ['stu', 's/t/u/s', 'u']
  pre_set = set(pre)
  non = sorted(set(x for x in non if x not in pre_set and x))
  return pre, non


def _gen(rng, shape=None):
  shape = shape or rng.choice(SHAPE_NAMES)
  sig = SHAPES[shape]
  depth = rng.choice([0, 1, 2, 2, 3, 3, 3])
  active = [rng.choice(COMPONENTS) for _ in range(depth)]
  pre, non = _scope_pool(active, rng)
  scopes = [s for s in pre if rng.random() < 0.6]
  scopes += rng.sample(non, min(len(non), rng.choice([0, 1, 1, 2, 3])))
  scopes = scopes[:7]
  rng.shuffle(scopes)
  bindings = []
  for s in scopes:
    for p in rng.sample(_bindable(sig), rng.choice([1, 2])):
      bindings.append([s, p, rng.choice(KINDS)])
  splits = _splits(sig)
  calls = [dict(rng.choice(splits)), dict(rng.choice(splits + [{'npos': 0, 'kw': []}] * 8))]
  if rng.random() < 0.25:
    calls[rng.randrange(2)]['plain'] = rng.randrange(5)
  via = 'with'
  if sig['kind'] not in ('method', 'reg_method') and rng.random() < 0.15:
    via = 'selector'
  case = {'shape': shape, 'via': via,
          'scope': [list(active)] if via == 'selector' else _entries_for(active, rng),
          'bindings': bindings, 'calls': calls,
          'bind_by': rng.choice(['tuple', 'string', 'short'])}
  if rng.random() < 0.3:   # history: (re)bind between the first and the second call
    case['later'] = [[rng.choice(pre + non[:2]), rng.choice(_bindable(sig)), rng.choice(KINDS)]
                     for _ in range(rng.choice([1, 2]))]
  return case


def cases(tier, rng):
  for shape in SHAPE_NAMES:   # fixed corners
    sig = SHAPES[shape]
    names = _bindable(sig)
    full = [[s, p, 'str'] for s in ['', 's', 's/t', 's/t/u'] for p in names[:2]]
    partial = [['', names[0], 'str'], ['', names[1], 'str'], ['', names[-1], 'list'],
               ['s', names[1], 'str'], ['s/t/u', names[-1], 'str'],
               ['s/t', names[0], 'list']]
    stray = [[s, p, 'str'] for s in ['t', 's/u', 's/t/u/s', 'u/t/s', 't/u'] for p in names[:2]]
    kwsplit = {'npos': 0, 'kw': [names[-1]]}
    none = {'npos': 0, 'kw': []}
    for bindings in (full, partial, stray, list(reversed(full)), partial + stray, []):
      for scope in (['s', 't', 'u'], ['s/t'], []):
        yield {'shape': shape, 'via': 'with', 'scope': scope, 'bindings': bindings,
               'calls': [kwsplit, none], 'bind_by': 'tuple'}
    for sp in _splits(sig):
      for extra in ({}, {'plain': (sp['npos'] + len(sp['kw'])) % 5}):
        yield {'shape': shape, 'via': 'with', 'scope': ['s', 't/u'],
               'bindings': partial + stray, 'calls': [dict(sp, **extra), none],
               'bind_by': 'string'}
  n = 9000 if tier == 'quick' else 200000
  for _ in range(n):
    yield _gen(rng)


def nontrivial(case):
  return bool(case['bindings']) or any(c['npos'] or c['kw'] for c in case['calls'])


# ---------------------------------------------------------------- the check
def _role(sig, p, call):
  where = ('named' if p in sig['pos'] else 'kwonly' if p in sig['kwonly'] else 'varkw')
  how = ('pos' if p in sig['pos'][:call['npos']] else 'kw' if p in call['kw']
         else 'omitted')
  return '%s/%s' % (where, how)


def _same(tagged, got):
  src, want = tagged
  if src == 'caller':
    return got is want
  return type(got) is type(want) and got == want


def _classify(tagged, got, p, bindings, active):
  src = tagged[0]
  if src == 'caller':
    return 'caller_value_unchanged'
  others = {repr(_bval(s, q, k)): s for s, q, k in bindings if q == p}
  if repr(got) in others:
    comps = others[repr(got)].split('/') if others[repr(got)] else []
    if comps == active[:len(comps)]:
      return 'longer_prefix_overrides'
    return 'non_prefix_never_applies'
  return 'bound_value_received' if src == 'bound' else 'unbound_left_to_default'


def _show(x):
  return repr(x)[:120]


def _compare(case, call, want, recs, exc, active, bindings):
  sig = SHAPES[case['shape']]
  fails = []

  def fail(clause, p, expected, observed, role=None):
    fails.append({'clause': clause, 'expected': _show(expected),
                  'observed': _show(observed), 'param': p,
                  'signature': '%s %s %s' % (case['shape'], clause,
                                             role or _role(sig, p, call))})
  if want is None:
    if recs or not isinstance(exc, TypeError):
      fail('unbound_left_to_default', None, 'TypeError, body not run',
           [recs, repr(exc)], 'no-value')
    return fails
  if exc is not None:
    fail('no_unexpected_exception', None, 'call succeeds', repr(exc),
         'exc=%s' % type(exc).__name__)
    return fails
  if len(recs) != 1:
    fail('call_happens_once', None, 1, len(recs), 'calls')
    return fails
  named, rest, kw = recs[0]
  wnamed, wrest, wkw = want
  for p, tagged in wnamed.items():
    if not _same(tagged, named[p]):
      fail(_classify(tagged, named[p], p, bindings, active), p, tagged, named[p])
  if wrest is not None:
    if len(rest) != len(wrest) or not all(_same(t, g) for t, g in zip(wrest, rest)):
      fail('caller_value_unchanged', '*rest', wrest, rest, 'rest')
  if wkw is not None:
    for p, tagged in wkw.items():
      if p not in kw:
        fail('bound_value_received' if tagged[0] == 'bound' else 'caller_value_unchanged',
             p, tagged, '<absent>')
      elif not _same(tagged, kw[p]):
        fail(_classify(tagged, kw[p], p, bindings, active), p, tagged, kw[p])
    for p in kw:
      if p not in wkw:
        clause = _classify(('default', None), kw[p], p, bindings, active)
        fail('nothing_else_passed' if clause == 'unbound_left_to_default' else clause,
             p, '<absent>', kw[p])
  return fails


def check(case):
  sig = SHAPES[case['shape']]
  rec = []
  target, selector = _register(case['shape'], rec)
  for scope, param, kind in case['bindings']:
    value = _bval(scope, param, kind)
    if case['bind_by'] == 'tuple':
      gin.bind_parameter((scope, selector, param), value)
    else:
      sel = selector if case['bind_by'] == 'string' else selector.split('.', 1)[1]
      gin.bind_parameter('%s%s.%s' % (scope + '/' if scope else '', sel, param), value)
  active = _active(case['scope'])
  fails = []
  bindings = list(case['bindings'])
  for idx, call in enumerate(case['calls']):
    if idx == 1 and case.get('later'):
      for scope, param, kind in case['later']:   # a later binding replaces an earlier one
        gin.bind_parameter((scope, selector, param), _bval(scope, param, kind))
        bindings = [b for b in bindings if b[:2] != [scope, param]] + [[scope, param, kind]]
    del rec[:]
    order = sig['pos'][:call['npos']]
    order += ['rest%d' % i for i in range(call['npos'] - len(order))]
    off = call.get('plain')   # an int: pass None, 0, '', False, [] instead of objects
    plain = off is not None
    pos = [PLAIN[(i + off) % 5] if plain else _Val('C%d:pos:%s' % (idx, p))
           for i, p in enumerate(order)]
    kw = {p: PLAIN[(i + off + 2) % 5] if plain else _Val('C%d:kw:%s' % (idx, p))
          for i, p in enumerate(call['kw'])}
    want = _spec(sig, pos, kw, bindings, active)
    exc = None
    try:
      if case['via'] == 'selector':
        scoped = '/'.join(active + [selector])
        gin.get_configurable(scoped)(*pos, **kw)
      else:
        with contextlib.ExitStack() as stack:
          for entry in case['scope']:
            stack.enter_context(gin.config_scope(entry))
          target(*pos, **kw)
    except Exception as e:   # pylint: disable=broad-except
      exc = e
    for f in _compare(case, call, want, list(rec), exc, active, bindings):
      f['call'] = idx
      fails.append(f)
  return fails
