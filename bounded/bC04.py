"""C04 bounded stand-in: references deliver the configurable or a fresh result, in
the right scope, and consumers cannot damage the configuration.

Independent model: the bound value is kept as a JSON tree; the expected delivery is
the same tree with every '@n()' leaf replaced by "a result produced by a call of
probe n made during THIS consumer call, under scope S", S = the reference's own scope
components if it has any, else the scope active at the consuming call; '@n' leaves
are the registered configurable (unscoped) or a callable running it under exactly S.
Probes log (probe, observed scope, gin-bound tag), so call counts are exact.

Clause labels -> sentence of the property:
  ref_delivers_configurable   "'@name' delivers the configurable itself"
  evalref_fresh_per_call      "'@name()' delivers the result of calling it anew each
                               time the consuming configurable is called with that
                               parameter supplied by Gin"
  nesting_preserved           "however deeply the reference is nested inside lists,
                               tuples or dicts" (container types, keys, literals kept)
  not_called_when_caller_supplies  "it is not called when the caller supplies that
                               parameter" (positional or keyword; caller's object
                               arrives untouched; gin.REQUIRED means Gin supplies)
  scoped_ref_exact_scope      "a reference written with a scope runs under exactly
                               that scope"
  unscoped_ref_ambient_scope  "an unscoped one under the scope active at the
                               consuming call"
  config_unchanged_by_consumer / delivered_not_aliased
                              "whatever a consumer does to the values it receives
                               never changes what later calls, queries or config
                               strings see" (config_str, query_parameter,
                               operative_config_str vs. a non-mutating twin run;
                               no mutable node of the stored value is handed out)
"""
import itertools

import gin
from gin import config as gc

BOUNDS = ('consumer cons(x,y,z) with <= 5 bindings (root, s/, s/t/) whose values nest '
          'list/tuple/dict to depth <= 3 with <= 7 leaves (literals, @n, @n() for a '
          'function probe and a class probe, reference scope in {none,a,a/b}); ambient '
          'scope depth <= 2 over {s,t,a,b}; each parameter none/positional/keyword/'
          'REQUIRED-positional/REQUIRED-keyword; optional indirection through '
          '@[scope/]cons(); call sequences of length <= 3 with a mutating consumer. '
          'quick: full product of 6 shapes x 3 ref scopes x 2 x 5 ambients x 5 '
          'override kinds, plus 500 random cases (thorough: 25000).')
EXHAUSTIVE = {'quick': False, 'thorough': False}

PARAMS = ['x', 'y', 'z']
TAGS = {'': 'r', 'a': 'A', 'a/b': 'AB', 's': 'S'}
AMBIENTS = [[], ['s'], ['s', 't'], ['a'], ['a', 'b'], ['t'], ['b', 'a'], ['t', 's']]
REFNAMES = ['p0', 'K', 'pm.p0', 'pm.K']


# ---------------------------------------------------------------- case generation
def _ref(name, scope, ev):
  return {'t': 'ref', 'n': name, 's': scope, 'ev': ev}


def _shapes(leaf):
  return [leaf,
          {'t': 'list', 'i': [{'t': 'lit', 'v': 1}, leaf]},
          {'t': 'tuple', 'i': [leaf]},
          {'t': 'dict', 'k': ['k0'], 'i': [leaf]},
          {'t': 'tuple', 'i': [{'t': 'dict', 'k': ['k0', 'k1'], 'i': [
              {'t': 'list', 'i': [leaf, {'t': 'lit', 'v': 'q'}]}, {'t': 'list', 'i': []}]}]},
          {'t': 'list', 'i': [{'t': 'list', 'i': [{'t': 'dict', 'k': ['k0'], 'i': [leaf]}]},
                              leaf]}]


def _rand_tree(rng, depth, budget):
  if depth < 3 and budget[0] > 1 and rng.random() < (0.75 if depth == 0 else 0.45):
    t = rng.choice(['list', 'tuple', 'dict'])
    n = rng.randint(0, 3)
    items = []
    for _ in range(n):
      if budget[0] <= 0:
        break
      items.append(_rand_tree(rng, depth + 1, budget))
    node = {'t': t, 'i': items}
    if t == 'dict':
      node['k'] = ['k%d' % j for j in range(len(items))]
    return node
  budget[0] -= 1
  if rng.random() < 0.3:
    return {'t': 'lit', 'v': rng.choice([0, 7, 'w', None, True, 2.5])}
  return _ref(rng.choice(REFNAMES), rng.choice(['', '', 'a', 'a/b']), rng.random() < 0.65)


def _rand_ov(rng, bound):
  npos = rng.choice([0, 0, 1, 2, 3])
  ov = {}
  for i, p in enumerate(PARAMS):
    if i < npos:
      ov[p] = 'reqpos' if (p in bound and rng.random() < 0.25) else 'pos'
    else:
      kinds = ['none', 'none', 'kw'] + (['reqkw'] if p in bound else [])
      ov[p] = rng.choice(kinds)
  return ov


def cases(tier, rng):
  yield {'mode': 'shared', 'bind': [], 'via': None, 'calls': []}
  # same NAME in two modules, referenced under the same scope (and under two scopes)
  for scopes in (['train', 'train'], ['train', 'eval'], ['a/b', 'a/b'], ['', 'train']):
    for order in (0, 1):
      for cls in (False, True):
        yield {'mode': 'twins', 'scopes': scopes, 'order': order, 'cls': cls,
               'bind': [1], 'via': None, 'calls': []}
  for shape_i, scope, ev, amb, kind in itertools.product(
      range(6), ['', 'a', 'a/b'], [True, False], AMBIENTS[:5],
      ['none', 'pos', 'kw', 'reqpos', 'reqkw']):
    leaf = _ref('K' if shape_i % 2 else 'p0', scope, ev)
    yield {'mode': 'seq', 'via': None,
           'bind': [['', 'x', _shapes(leaf)[shape_i]], ['', 'y', _ref('p0', '', True)],
                    ['', 'z', {'t': 'dict', 'k': ['k0'], 'i': [{'t': 'list', 'i': [
                        {'t': 'lit', 'v': 1}]}]}]],
           'calls': [{'amb': amb, 'ov': {'x': kind, 'y': 'none', 'z': 'none'},
                      'outer': False, 'mut': True, 'callrefs': shape_i == 5},
                     {'amb': [], 'ov': {'x': 'none', 'y': 'kw', 'z': 'none'},
                      'outer': False, 'mut': False, 'callrefs': False}]}
  n = 500 if tier == 'quick' else 25000
  for _ in range(n):
    bind = []
    for p in PARAMS:
      if rng.random() < 0.8:
        bind.append(['', p, _rand_tree(rng, 0, [rng.randint(1, 7)])])
    for sc in ('s', 's/t'):
      if rng.random() < 0.3:
        bind.append([sc, rng.choice(PARAMS), _rand_tree(rng, 0, [rng.randint(1, 4)])])
    via = rng.choice([None, None, '', 'a', 'a/b', 's'])
    calls = []
    for _c in range(rng.randint(1, 3)):
      amb = rng.choice(AMBIENTS)
      outer = via is not None and rng.random() < 0.6
      eff = (via.split('/') if via else amb) if outer else amb
      bound = {p for sc, p, _t in bind
               if sc == '' or ('/'.join(eff) + '/').startswith(sc + '/')}
      calls.append({'amb': amb, 'outer': outer, 'mut': rng.random() < 0.7,
                    'callrefs': rng.random() < 0.4,
                    'ov': ({p: 'none' for p in PARAMS} if outer else _rand_ov(rng, bound))})
    yield {'mode': 'seq', 'bind': bind, 'via': via, 'calls': calls}


def nontrivial(case):
  return case['mode'] == 'shared' or bool(case['bind'])


# ---------------------------------------------------------------- rendering / model
def _text(t):
  if t['t'] == 'lit':
    return repr(t['v'])
  if t['t'] == 'ref':
    return '@' + (t['s'] + '/' if t['s'] else '') + t['n'] + ('()' if t['ev'] else '')
  items = [_text(i) for i in t['i']]
  if t['t'] == 'list':
    return '[' + ', '.join(items) + ']'
  if t['t'] == 'tuple':
    return '(' + ', '.join(items) + (',' if len(items) == 1 else '') + ')'
  return '{' + ', '.join('%r: %s' % (k, v) for k, v in zip(t['k'], items)) + '}'


def _exp_tag(scope):
  tag = None
  for i in range(len(scope) + 1):
    tag = TAGS.get('/'.join(scope[:i]), tag)
  return tag


def _n_ev(t):
  if t['t'] == 'ref':
    return int(t['ev'])
  return sum(_n_ev(i) for i in t.get('i', []))


def _stored_desc(v):
  if isinstance(v, (list, tuple)):
    return [type(v).__name__] + [_stored_desc(i) for i in v]
  if isinstance(v, dict):
    return ['dict'] + [[_stored_desc(k), _stored_desc(i)] for k, i in v.items()]
  return repr(v)


def _mutable_ids(v, out):
  if isinstance(v, (list, tuple)):
    if isinstance(v, list):
      out.add(id(v))
    for i in v:
      _mutable_ids(i, out)
  elif isinstance(v, dict):
    out.add(id(v))
    for i in v.values():
      _mutable_ids(i, out)


class _Res:

  def __init__(self, idx):
    self.idx = idx
    self.marks = []


class _World:
  """Registers the probes and consumers of one case and keeps their log."""

  def __init__(self):
    w = self
    w.log = []          # one entry per probe run: (probe, observed scope, tag)
    w.flags = {'mut': False, 'callrefs': False}
    w.recs = []         # one record per consumer run

    def p0(tag=None):
      w.log.append(('p0', gc.current_scope(), tag))
      return _Res(len(w.log) - 1)

    class K:

      def __init__(self, tag=None):
        w.log.append(('K', gc.current_scope(), tag))
        self.idx = len(w.log) - 1
        self.marks = []

    def cons(x=None, y=None, z=None):
      rec = {'scope': gc.current_scope(), 'n_entry': len(w.log),
             'got': {'x': x, 'y': y, 'z': z}, 'inner': []}
      rec['snap'] = {p: w.snapshot(v) for p, v in rec['got'].items()}
      w.recs.append(rec)
      if w.flags['callrefs']:
        for v in (x, y, z):
          w.call_leaves(v, rec)
      if w.flags['mut']:
        for v in (x, y, z):
          w.mutate(v)
      return 'cons-result'

    def outer(v=None):
      return v

    w.K = K
    w.wrap = {'p0': gin.external_configurable(p0, name='p0', module='pm'),
              'K': gin.external_configurable(K, name='K', module='pm')}
    w.cons = gin.external_configurable(cons, name='cons', module='cm')
    w.outer = gin.external_configurable(outer, name='outer', module='cm')

  def is_res(self, v):
    return isinstance(v, (_Res, self.K))

  def snapshot(self, v):
    """Structure of a delivered value at consumer entry (before any mutation)."""
    if isinstance(v, (list, tuple)):
      return {'t': type(v).__name__, 'i': [self.snapshot(i) for i in v], 'id': id(v)}
    if isinstance(v, dict):
      return {'t': 'dict', 'k': list(v.keys()), 'i': [self.snapshot(i) for i in v.values()],
              'id': id(v)}
    if self.is_res(v):
      return {'t': 'res', 'idx': v.idx, 'cls': type(v).__name__}
    if callable(v):
      return {'t': 'fn', 'obj': v}
    return {'t': 'lit', 'v': v}

  def call_leaves(self, v, rec):
    if isinstance(v, dict):
      v = list(v.values())
    if isinstance(v, (list, tuple)):
      for i in v:
        self.call_leaves(i, rec)
    elif callable(v) and not self.is_res(v):
      before = len(self.log)
      r = v()
      rec['inner'].append({'obj': v, 'at': before, 'n': len(self.log) - before,
                           'res_idx': getattr(r, 'idx', None)})

  def mutate(self, v):
    if isinstance(v, dict):
      for k in list(v):
        self.mutate(v[k])
        v[k] = 'MUT'
      v['MUT'] = 1
    elif isinstance(v, list):
      for i in v:
        self.mutate(i)
      if v:
        v[0] = 'MUT'
      v.append('MUT')
    elif isinstance(v, tuple):
      for i in v:
        self.mutate(i)
    elif self.is_res(v):
      v.marks.append('MUT')
      v.idx = -1


def _config_text(case):
  lines = []
  for sc, tag in TAGS.items():
    for n in ('p0', 'K'):
      lines.append('%s%s.tag = %r' % (sc + '/' if sc else '', n, tag))
  for sc, p, tree in case['bind']:
    lines.append('%scons.%s = %s' % (sc + '/' if sc else '', p, _text(tree)))
  if case['via'] is not None:
    lines.append('outer.v = @%scons()' % (case['via'] + '/' if case['via'] else ''))
  return '\n'.join(lines) + '\n'


def _scope_cm(amb):
  return gin.config_scope('/'.join(amb) if amb else None)


# ---------------------------------------------------------------- the contract
def _fail(fails, clause, expected, observed, sig):
  fails.append({'clause': clause, 'expected': expected, 'observed': observed,
                'signature': '%s %s' % (clause, sig)})


class _Checker:

  def __init__(self, w, fails, eff, lo, hi, ovkind):
    self.w, self.fails, self.eff, self.lo, self.hi = w, fails, eff, lo, hi
    self.ovkind = ovkind
    self.used = set()
    self.fn_leaves = []

  def fail(self, clause, expected, observed, sig):
    _fail(self.fails, clause, expected, observed, sig)

  def entry(self, idx, ref, sig):
    """Log entry `idx` must be a run of ref's probe under the expected scope."""
    probe, scope, tag = self.w.log[idx]
    want_probe = ref['n'].split('.')[-1]
    want_scope = ref['s'].split('/') if ref['s'] else list(self.eff)
    clause = 'scoped_ref_exact_scope' if ref['s'] else 'unscoped_ref_ambient_scope'
    if probe != want_probe:
      self.fail('nesting_preserved', want_probe, probe, 'wrong probe ' + sig)
    if scope != want_scope or tag != _exp_tag(want_scope):
      self.fail(clause, [want_scope, _exp_tag(want_scope)], [scope, tag],
                'refscope=%s ambdepth=%d %s' % (ref['s'] or '-', len(self.eff), sig))

  def walk(self, tree, snap, stored_ids):
    sig = 'ev=%s ov=%s' % (tree.get('ev'), self.ovkind)
    if snap['t'] in ('list', 'dict') and snap['id'] in stored_ids:
      self.fail('delivered_not_aliased', 'fresh container', 'the stored object', tree['t'])
    if tree['t'] == 'lit':
      if snap['t'] != 'lit' or snap['v'] != tree['v'] or type(snap['v']) is not type(tree['v']):
        self.fail('nesting_preserved', repr(tree['v']), _short(snap), 'literal')
    elif tree['t'] == 'ref' and tree['ev']:
      if snap['t'] != 'res':
        self.fail('evalref_fresh_per_call', 'a probe result', _short(snap), sig)
      elif not (self.lo <= snap['idx'] < self.hi) or snap['idx'] in self.used:
        self.fail('evalref_fresh_per_call',
                  'result of a distinct run made for this call',
                  'stale or shared result (run %+d relative to the call)'
                  % (snap['idx'] - self.lo), sig)
      else:
        self.used.add(snap['idx'])
        self.entry(snap['idx'], tree, sig)
    elif tree['t'] == 'ref':
      if snap['t'] != 'fn':
        self.fail('ref_delivers_configurable', 'a callable', _short(snap), sig)
      else:
        self.fn_leaves.append((tree, snap['obj']))
        if not tree['s'] and snap['obj'] is not self.w.wrap[tree['n'].split('.')[-1]]:
          self.fail('ref_delivers_configurable', 'the registered configurable',
                    repr(snap['obj'])[:60], 'identity ' + sig)
    else:
      ok = snap['t'] == tree['t'] and len(snap['i']) == len(tree['i'])
      if ok and tree['t'] == 'dict':
        ok = snap['k'] == tree['k']
      if not ok:
        self.fail('nesting_preserved', _text(tree), _short(snap), tree['t'])
        return
      for t, s in zip(tree['i'], snap['i']):
        self.walk(t, s, stored_ids)


def _short(snap):
  if snap['t'] in ('list', 'tuple', 'dict'):
    return '%s of %d' % (snap['t'], len(snap['i']))
  return {k: (repr(v)[:50] if k in ('obj', 'v') else v) for k, v in snap.items()}


def _one_call(w, case, call, fails, q_keys):
  amb = call['amb']
  eff = (case['via'].split('/') if case['via'] else list(amb)) if call['outer'] else list(amb)
  # effective binding per parameter under the consumer's scope (deepest prefix wins)
  effective = {}
  for i in range(len(eff) + 1):
    for sc, p, tree in case['bind']:
      if sc == '/'.join(eff[:i]):
        effective[p] = tree
  stored_ids = set()
  for key in q_keys:
    _mutable_ids(gin.query_parameter(key), stored_ids)
  sentinels = {p: ['caller', p] for p in PARAMS}
  args, kwargs = [], {}
  for p in PARAMS:
    kind = call['ov'][p]
    if kind in ('pos', 'reqpos'):
      args.append(sentinels[p] if kind == 'pos' else gin.REQUIRED)
    elif kind in ('kw', 'reqkw'):
      kwargs[p] = sentinels[p] if kind == 'kw' else gin.REQUIRED
  w.flags.update(mut=call['mut'], callrefs=call['callrefs'])
  lo, nrec = len(w.log), len(w.recs)
  try:
    with _scope_cm(amb):
      (w.outer if call['outer'] else w.cons)(*args, **kwargs)
  except Exception as e:  # pylint: disable=broad-except
    tb = e.__traceback__
    while tb.tb_next:
      tb = tb.tb_next
    if tb.tb_frame.f_code.co_filename == __file__:
      raise                       # a bug of this module, not of gin
    _fail(fails, 'no_unexpected_exception', 'no exception', repr(e)[:200], type(e).__name__)
    return
  recs = w.recs[nrec:]
  if len(recs) != 1:
    _fail(fails, 'evalref_fresh_per_call', 'consumer ran once', len(recs), 'consumer runs')
    return
  rec = recs[0]
  if rec['scope'] != eff:
    _fail(fails, 'scoped_ref_exact_scope' if call['outer'] and case['via']
          else 'unscoped_ref_ambient_scope', eff, rec['scope'],
          'scope of the consumer, via=%s' % case['via'])
    return
  hi = rec['n_entry']
  n_expected = 0
  fn_leaves = []
  for p in PARAMS:
    kind = call['ov'][p]
    snap = rec['snap'][p]
    ck = _Checker(w, fails, eff, lo, hi, kind)
    if kind in ('pos', 'kw'):
      if (rec['got'][p] is not sentinels[p] or snap['t'] != 'list' or
          [i.get('v') for i in snap['i']] != ['caller', p]):
        ck.fail('not_called_when_caller_supplies', "the caller's object", _short(snap),
                'caller value ov=' + kind)
    elif p in effective:
      n_expected += _n_ev(effective[p])
      ck.walk(effective[p], snap, stored_ids)
      fn_leaves += ck.fn_leaves
    elif snap != {'t': 'lit', 'v': None}:
      ck.fail('nesting_preserved', 'default None', _short(snap), 'unbound')
  if hi - lo != n_expected:
    skipped = sorted({call['ov'][p] for p in effective
                      if call['ov'][p] in ('pos', 'kw') and _n_ev(effective[p])})
    _fail(fails, 'not_called_when_caller_supplies' if (hi - lo > n_expected and skipped)
          else 'evalref_fresh_per_call',
          '%d probe runs' % n_expected, '%d probe runs' % (hi - lo),
          'probe-run count %s caller-supplied=%s'
          % ('high' if hi - lo > n_expected else 'low', ','.join(skipped) or '-'))
  # calls the consumer itself made to delivered '@n' leaves: ran inside the consumer
  ck = _Checker(w, fails, eff, lo, len(w.log), 'inner')
  by_obj = {id(o): t for t, o in fn_leaves}
  for inner in rec['inner']:
    tree = by_obj.get(id(inner['obj']))
    if tree is not None:
      _check_fn_run(ck, tree, inner['at'], inner['n'], inner['res_idx'], eff)
  # and the oracle calls every delivered '@n' leaf afterwards under a probing scope
  for tree, obj in fn_leaves:
    at = len(w.log)
    with _scope_cm(['t', 'b']):
      r = obj()
    _check_fn_run(ck, tree, at, len(w.log) - at, getattr(r, 'idx', None), ['t', 'b'])


def _check_fn_run(ck, tree, at, n, res_idx, active):
  sig = 'call of delivered @%s' % ('scoped' if tree['s'] else 'unscoped')
  if n != 1 or res_idx != at:
    ck.fail('ref_delivers_configurable', 'one run of the configurable, its result returned',
            '%d runs' % n, sig)
    return
  saved, ck.eff = ck.eff, active
  ck.entry(at, tree, sig)
  ck.eff = saved


def _run_seq(case, fails):
  w = _World()
  text = _config_text(case)
  q_keys = ['%scons.%s' % (sc + '/' if sc else '', p) for sc, p, _t in case['bind']]

  def observe():
    return {'config_str': gin.config_str(),
            'query': {k: _stored_desc(gin.query_parameter(k)) for k in q_keys}}
  gin.parse_config(text)
  before = observe()
  for call in case['calls']:
    _one_call(w, case, call, fails, q_keys)
    after = observe()
    for what in before:
      if after[what] != before[what]:
        _fail(fails, 'config_unchanged_by_consumer', 'unchanged ' + what,
              _diff(before[what], after[what]), '%s mut=%s' % (what, call['mut']))
        return
  op_mut = gin.operative_config_str()
  # twin run: same configuration and calls, consumer does not mutate
  gin.clear_config()
  gin.parse_config(text)
  scratch = []
  for call in case['calls']:
    _one_call(w, case, dict(call, mut=False), scratch, q_keys)
  op_plain = gin.operative_config_str()
  if op_mut != op_plain and not fails:
    _fail(fails, 'config_unchanged_by_consumer', 'operative_config_str as without mutation',
          _diff(op_plain, op_mut), 'operative_config_str')


def _diff(a, b):
  if isinstance(a, str) and isinstance(b, str):
    la, lb = a.splitlines(), b.splitlines()
    for x, y in itertools.zip_longest(la, lb):
      if x != y:
        return {'was': x, 'now': y}
  if isinstance(a, dict):
    for k in a:
      if a[k] != b.get(k):
        return {'key': k, 'was': str(a[k])[:80], 'now': str(b.get(k))[:80]}
  return 'differs'


def _run_shared(fails):
  """One reference OBJECT occurring twice in a value (only reachable through
  bind_parameter).  deepcopy memoises by id, so one run per consumer call may serve
  both occurrences; the property only requires runs made anew for every call."""
  w = _World()
  ref = gc.parse_value('@a/p0()')
  gin.bind_parameter('cons.x', [ref, {'k': ref}])
  for amb in ([], ['s']):
    lo = len(w.log)
    with _scope_cm(amb):
      w.cons()
    rec = w.recs[-1]
    snap = rec['snap']['x']
    leaves = [snap['i'][0], snap['i'][1]['i'][0]] if snap['t'] == 'list' else []
    idxs = [l.get('idx') for l in leaves]
    n = rec['n_entry'] - lo
    if (len(idxs) != 2 or n not in (1, 2) or any(i is None or not lo <= i < lo + n for i in idxs)
        or any(w.log[i][1] != ['a'] for i in idxs if i is not None and i < len(w.log))):
      _fail(fails, 'evalref_fresh_per_call', '1-2 fresh runs under [a]', [n, idxs],
            'shared object')


def _run_twins(case, fails):
  """Two configurables with the same name in different modules, each referenced (plain and
  evaluated) under a scope: every reference must reach ITS configurable, under ITS scope."""
  log = []

  def mk(tagname, cls):
    if cls:
      class build:                                   # pylint: disable=invalid-name

        def __init__(self, tag=None):
          log.append((tagname, gc.current_scope(), tag))
          self.who = tagname
      return build

    def build(tag=None):
      log.append((tagname, gc.current_scope(), tag))
      return tagname
    return build

  mods = ['alpha', 'beta']
  fns = {m: mk(m, case['cls']) for m in mods}
  for m in (mods if case['order'] == 0 else mods[::-1]):
    gin.external_configurable(fns[m], name='build', module=m)
  got = {}

  def cons(x=None, y=None, ex=None, ey=None):
    got.update(x=x, y=y, ex=ex, ey=ey)

  c = gin.external_configurable(cons, name='cons', module='twm')
  sx, sy = case['scopes']
  pre = lambda sc: sc + '/' if sc else ''
  lines = ['%salpha.build.tag = %r' % (pre(sx), 'A@' + sx),
           '%sbeta.build.tag = %r' % (pre(sy), 'B@' + sy),
           'cons.x = @%salpha.build' % pre(sx), 'cons.y = @%sbeta.build' % pre(sy),
           'cons.ex = @%salpha.build()' % pre(sx), 'cons.ey = @%sbeta.build()' % pre(sy)]
  if case['order']:
    lines = lines[:2] + [lines[3], lines[2], lines[5], lines[4]]
  gin.parse_config('\n'.join(lines) + '\n')
  for rnd in range(2):
    del log[:]
    c()
    want = sorted([('alpha', sx.split('/') if sx else [], 'A@' + sx),
                   ('beta', sy.split('/') if sy else [], 'B@' + sy)])
    if sorted(log) != want:
      _fail(fails, 'evalref_fresh_per_call', want, sorted(log),
            'same-name twins: evaluated references, round %d' % rnd)
    for key, m, sc, tag in (('x', 'alpha', sx, 'A@' + sx), ('y', 'beta', sy, 'B@' + sy)):
      del log[:]
      with _scope_cm(['t', 'b']):
        got[key]()
      exp_scope = sc.split('/') if sc else ['t', 'b']
      exp_tag = tag                # (an unscoped reference: the root binding applies)
      if log != [(m, exp_scope, exp_tag)]:
        _fail(fails, 'ref_delivers_configurable' if [l[0] for l in log] != [m]
              else 'scoped_ref_exact_scope', [(m, exp_scope, exp_tag)], list(log),
              'same-name twins: delivered @%s round %d' % ('scoped' if sc else 'unscoped', rnd))


def check(case):
  fails = []
  if case['mode'] == 'shared':
    _run_shared(fails)
  elif case['mode'] == 'twins':
    _run_twins(case, fails)
  else:
    _run_seq(case, fails)
  return fails
