"""C09 bounded stand-in: nested config_scope entries/exits against the entry rules,
and thread privacy under forced interleavings (smoke test only).

Run-time form of the config_scope contract (contracts/c_scope.py): at every
entry the active scope is what the three rules give; after every exit (normal,
body raises, invalid name, argument whose truth value raises) the active scope
is exactly what it was before the `with`.
"""
import itertools
import threading

import gin
from gin import config as gc

BOUNDS = ('trees of nested config_scope entries with <= 6 nodes and depth <= 4; '
          '10 entry kinds x 2 exit kinds; thread cases: 2-3 threads, each a '
          'chain of <= 3 entries, lock-step barrier at every entry and exit')
EXHAUSTIVE = {'quick': False, 'thorough': False}

KINDS = ['name', 'slash', 'list', 'list_empty', 'none', 'empty', 'bad_int',
         'bad_space', 'bad_list', 'bool_raises']


class _Boom:

  def __bool__(self):
    raise RuntimeError('boom')


def _arg(kind, i):
  return {'name': 'n%d' % i, 'slash': 'a%d/b%d' % (i, i), 'list': ['x%d' % i, 'y'],
          'list_empty': [], 'none': None, 'empty': '', 'bad_int': 7,
          'bad_space': 'a b', 'bad_list': ['ok', 'no good'],
          'bool_raises': _Boom()}[kind]


def _expected(active, kind, arg):
  if kind in ('list', 'list_empty'):
    return list(arg)
  if kind in ('name', 'slash'):
    return active + arg.split('/')
  if kind in ('none', 'empty'):
    return []
  return None   # invalid: must raise


class _BodyError(Exception):
  pass


def _gen_tree(rng, budget, depth):
  nodes = []
  while budget[0] > 0 and rng.random() < (0.75 if depth < 4 else 0.0):
    budget[0] -= 1
    kind = rng.choice(KINDS)
    node = {'kind': kind, 'exit': rng.choice(['normal', 'raise']),
            'children': []}
    if kind not in ('bad_int', 'bad_space', 'bad_list', 'bool_raises'):
      node['children'] = _gen_tree(rng, budget, depth + 1)
    nodes.append(node)
    if rng.random() < 0.5:
      break
  return nodes


def cases(tier, rng):
  # every single entry kind x exit kind, nested once inside a named scope
  for k in KINDS:
    for e in ('normal', 'raise'):
      yield {'mode': 'tree', 'tree': [{'kind': 'name', 'exit': 'normal', 'children': [
          {'kind': k, 'exit': e, 'children': []}]}]}
  n = 300 if tier == 'quick' else 6000
  for _ in range(n):
    yield {'mode': 'tree', 'tree': _gen_tree(rng, [6], 1)}
  m = 6 if tier == 'quick' else 60
  for _ in range(m):
    nthreads = rng.choice([2, 3])
    yield {'mode': 'threads', 'chains': [
        [rng.choice(['name', 'slash', 'list', 'none']) for _ in range(rng.randint(1, 3))]
        for _ in range(nthreads)]}


def nontrivial(case):
  return bool(case.get('tree') or case.get('chains'))


def _run_nodes(nodes, fails, counter):
  for node in nodes:
    counter[0] += 1
    before = gc.current_scope()
    arg = _arg(node['kind'], counter[0])
    want = _expected(before, node['kind'], arg)
    try:
      with gin.config_scope(arg) as yielded:
        inside = gc.current_scope()
        if want is None:
          fails.append({'clause': 'invalid_value_rejected', 'expected': 'raise',
                        'observed': 'entered with scope %r' % (inside,)})
        elif inside != want or list(yielded) != want:
          fails.append({'clause': 'entry_rules', 'expected': want,
                        'observed': [inside, list(yielded)]})
        _run_nodes(node['children'], fails, counter)
        if gc.current_scope() != (want if want is not None else inside):
          fails.append({'clause': 'body_is_stack_neutral', 'expected': want,
                        'observed': gc.current_scope()})
        if node['exit'] == 'raise':
          raise _BodyError()
    except _BodyError:
      pass
    except (ValueError, RuntimeError) as e:
      if want is not None:
        fails.append({'clause': 'valid_value_accepted', 'expected': want,
                      'observed': repr(e)})
    after = gc.current_scope()
    if after != before:
      fails.append({'clause': 'stack_restored', 'expected': before,
                    'observed': after, 'node': {k: node[k] for k in ('kind', 'exit')}})


def _thread_case(chains, fails):
  n = len(chains)
  steps = max(len(c) for c in chains) * 2 + 1
  barrier = threading.Barrier(n)
  errors = []

  def worker(tid, chain):
    try:
      obs = []
      exp = []
      stack = []
      cur = []

      def enter(i):
        kind = chain[i]
        arg = _arg(kind, 100 * tid + i)
        cm = gin.config_scope(arg)
        cm.__enter__()
        stack.append((cm, list(cur)))
        cur[:] = _expected(cur, kind, arg)
      for i in range(len(chain)):
        barrier.wait(timeout=10)
        enter(i)
        if gc.current_scope() != cur:
          errors.append(('thread %d entry %d' % (tid, i), list(cur), gc.current_scope()))
      for i in range(len(chain), steps // 2):
        barrier.wait(timeout=10)
      while stack:
        barrier.wait(timeout=10)
        cm, prev = stack.pop()
        cm.__exit__(None, None, None)
        cur[:] = prev
        if gc.current_scope() != cur:
          errors.append(('thread %d exit' % tid, list(cur), gc.current_scope()))
    except threading.BrokenBarrierError:
      pass
    finally:
      barrier.abort()

  ts = [threading.Thread(target=worker, args=(i, c)) for i, c in enumerate(chains)]
  for t in ts:
    t.start()
  for t in ts:
    t.join(20)
  for where, want, got in errors:
    fails.append({'clause': 'thread_private_scope', 'expected': want,
                  'observed': got, 'where': where})


def check(case):
  fails = []
  if case['mode'] == 'tree':
    _run_nodes(case['tree'], fails, [0])
    if gc.current_scope() != []:
      fails.append({'clause': 'stack_restored', 'expected': [],
                    'observed': gc.current_scope()})
  else:
    _thread_case(case['chains'], fails)
  return fails
