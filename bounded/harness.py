"""Bounded stand-in tier: run-time contracts on the REAL gin (under /venv/bin/python,
PYTHONPATH=/repo).  Nothing here is ever counted as proved.

A property module `bounded/bCxx.py` provides
    BOUNDS      : str   -- the stated bound of the enumeration
    def cases(tier, rng): iterator of JSON-serialisable case dicts
    def check(case): list of failure dicts {'clause', 'expected', 'observed'} ([] = holds)
    def nontrivial(case): bool (optional; default True)
`check` must leave gin in any state; the harness resets gin before every case.
"""
import copy
import io
import json
import os
import random
import sys
import time
import traceback

import gin
from gin import config as gc
from gin import selector_map

assert os.path.realpath(gin.__file__).startswith(
    os.path.realpath(os.environ.get('PYVC_REPO', '/repo'))), gin.__file__

_PRISTINE = None


def _snapshot():
  return {
      'registry_items': list(gc._REGISTRY.items()),
      'inverse': dict(gc._INVERSE_REGISTRY),
      'renamed': dict(gc._RENAMED_SELECTORS),
      'hooks': list(gc._FINALIZE_HOOKS),
      'readers': list(gc._FILE_READERS),
      'prefixes': list(gc._LOCATION_PREFIXES),
  }


def reset():
  """Back to 'fresh process with only gin's own registrations'."""
  global _PRISTINE
  if _PRISTINE is None:
    _PRISTINE = _snapshot()
  p = _PRISTINE
  gc._INTERACTIVE_MODE = False
  gc._CONFIG_IS_LOCKED = False
  gc._REGISTRY.clear()
  for k, v in p['registry_items']:
    gc._REGISTRY[k] = v
  gc._INVERSE_REGISTRY.clear()
  gc._INVERSE_REGISTRY.update(p['inverse'])
  gc._RENAMED_SELECTORS.clear()
  gc._RENAMED_SELECTORS.update(p['renamed'])
  gc._FINALIZE_HOOKS[:] = p['hooks']
  gc._FILE_READERS[:] = p['readers']
  gc._LOCATION_PREFIXES[:] = p['prefixes']
  gc._CONFIG.clear()
  gc._CONFIG_PROVENANCE.clear()
  gc._OPERATIVE_CONFIG.clear()
  gc._SINGLETONS.clear()
  gc._IMPORTS.clear()
  gc._CONSTANTS.clear()
  gc._CONSTANTS['gin.REQUIRED'] = gc.REQUIRED
  del gc._PARSE_CONTEXTS[1:]
  gc._PARSE_CONTEXTS[0] = gc.ParseContext()
  # the scope stack of this thread
  sm = gc._SCOPE_MANAGER
  if hasattr(sm, '_active_scopes'):
    sm._active_scopes[:] = [[]]


def run_module(mod, tier, seed, budget_s, replay=None):
  rng = random.Random(seed)
  out = {'evaluations': 0, 'distinct_nontrivial': 0, 'samples': [],
         'violations': [], 'bounds': getattr(mod, 'BOUNDS', ''),
         'exhaustive': False, 'errors': []}
  seen = set()
  per_sig = {}
  t0 = time.time()
  if replay is not None:
    it = [replay]
  else:
    it = mod.cases(tier, rng)
  exhausted = True
  for case in it:
    if time.time() - t0 > budget_s:
      exhausted = False
      break
    reset()
    try:
      fails = mod.check(case)
    except Exception as e:
      tb = traceback.extract_tb(e.__traceback__)
      inner = tb[-1].filename if tb else ''
      if os.path.realpath(inner).startswith(os.path.realpath(os.path.dirname(gin.__file__))):
        # gin itself raised where the run-time contract expects no exception
        fails = [{'clause': 'no_unexpected_exception', 'expected': 'no exception',
                  'observed': '%s: %s at %s:%d' % (type(e).__name__, e,
                                                   os.path.basename(inner), tb[-1].lineno)}]
      else:  # harness/oracle bug: reported, never a violation
        out['errors'].append({'case': case, 'error': traceback.format_exc()[-800:]})
        if len(out['errors']) > 5:
          break
        continue
    out['evaluations'] += 1
    key = json.dumps(case, sort_keys=True, default=str)
    nt = getattr(mod, 'nontrivial', lambda c: True)(case)
    if nt and key not in seen:
      seen.add(key)
      out['distinct_nontrivial'] += 1
    if len(out['samples']) < 3 and nt:
      out['samples'].append(case)
    for f in fails:
      f = dict(f)
      f['case'] = case
      sig = (f.get('clause'), f.get('signature'))
      per_sig[sig] = per_sig.get(sig, 0) + 1
      if per_sig[sig] <= 2:          # keep at most two examples per kind
        out['violations'].append(f)
    if len(per_sig) >= 60:           # too many different kinds: stop early
      exhausted = False
      break
  out['exhaustive'] = bool(exhausted and getattr(mod, 'EXHAUSTIVE', {}).get(tier, False))
  out['violation_kinds'] = {'%s | %s' % k: n for k, n in per_sig.items()}
  out['wall_s'] = round(time.time() - t0, 2)
  reset()
  return out
