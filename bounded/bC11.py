"""C11 bounded stand-in: which bindings are accepted, through every way of making one.

Oracle: a binding `sel.p` is acceptable iff `sel` resolves to a registered configurable,
Python's own `inspect.signature` of the registered callable (taken before registration;
it follows `__wrapped__` and drops self/cls) has a keyword-passable parameter `p` or a
`**kwargs`, and `p` is in the allowlist / not in the denylist.  Everything else must raise
and leave `_CONFIG`, `config_str()` and the lock flag as they were; afterwards a call of
the configurable must not receive the value.

Clause labels -> sentence of the property:
  accepted_iff_configurable  "A binding is accepted only if it names a registered
                      configurable and a parameter that the configurable's signature can
                      accept (or it takes **kwargs) and that is inside its allowlist /
                      outside its denylist ... for every way of making a binding"
                      (observed=accepted where the oracle says reject)
  valid_binding_accepted     the converse needed for sharpness: an acceptable binding made
                      through any of the paths is taken and changes exactly its own cell
  rejection_leaves_config    "A rejected binding raises and leaves the configuration
                      exactly as it was"
  never_injected      "so a non-configurable parameter is never injected"
  method_only_via_class      "A method registered on a registered class is addressable
                      only through its class name"

Deliberately not probed, because the statement can be read either way: the name `self` /
`cls` of a constructor, positional-only parameters, references (`@method`) as opposed to
bindings.  One edge shape is probed in two corner cases only (signature `cls_noinit`): a
class without a constructor of its own, whose Python signature is `()`.
"""
import functools
import inspect
import itertools

import gin
from gin import config as gc

BOUNDS = ('11 callable shapes (plain / kw-only / *args / **kwargs functions, 1- and 2-level '
          'functools.wraps chains, classes with __init__ / __new__ / inherited / **kwargs '
          'constructors) x 3 registration calls x 5 list settings (none, 2 allowlists, 2 '
          'denylists) x 10 parameter names (listed, unlisted, unknown, *args/**kw names) x '
          '12 binding paths (string/tuple/text/block, each unscoped and scoped, hook, hook '
          'with a valid companion, text with skip_unknown, unregistered name) x 2 selector '
          'spellings: thorough enumerates the full product, quick a seeded sample of 2600; '
          'plus registered methods: 2 class registrations x 4 spellings x 6 paths')
EXHAUSTIVE = {'quick': False, 'thorough': True}

V = 777


def _rec(**kw):
  return dict(kw)


def _make(shape):
  """Returns (callable, explicit parameter names in order). Every shape is callable as
  target(0) and returns (or stores in .got) the dict of what it received."""
  if shape == 'fn_plain':
    def f(a, b=1, c=2):
      return _rec(a=a, b=b, c=c)
    return f, ['a', 'b', 'c']
  if shape == 'fn_kwonly':
    def f(a, *, k=2, m=3):
      return _rec(a=a, k=k, m=m)
    return f, ['a', 'k', 'm']
  if shape == 'fn_varargs':
    def f(a, *args, k=1):
      return _rec(a=a, args=args, k=k)
    return f, ['a', 'k']
  if shape == 'fn_kwargs':
    def f(a, b=1, **kw):
      return _rec(a=a, b=b, **kw)
    return f, ['a', 'b']
  if shape in ('fn_wrapped', 'fn_wrapped2'):
    def f(a, b=1, c=2):
      return _rec(a=a, b=b, c=c)

    def deco(fn):
      @functools.wraps(fn)
      def inner(*args, **kwargs):
        return fn(*args, **kwargs)
      return inner
    return (deco(f) if shape == 'fn_wrapped' else deco(deco(f))), ['a', 'b', 'c']
  if shape == 'cls_init':
    class C:
      def __init__(self, a, b=1, c=2):
        self.got = _rec(a=a, b=b, c=c)
    return C, ['a', 'b', 'c']
  if shape == 'cls_new':
    class C:
      def __new__(cls, a, b=1, c=2):
        obj = super().__new__(cls)
        obj.got = _rec(a=a, b=b, c=c)
        return obj
    return C, ['a', 'b', 'c']
  if shape == 'cls_inherit':
    class B:
      def __init__(self, a, k=1):
        self.got = _rec(a=a, k=k)

    class C(B):
      pass
    return C, ['a', 'k']
  if shape == 'cls_kwonly':
    class C:
      def __init__(self, a, *args, m=3):
        self.got = _rec(a=a, args=args, m=m)
    return C, ['a', 'm']
  if shape == 'cls_kwargs':
    class C:
      def __init__(self, a, **kw):
        self.got = _rec(a=a, **kw)
    return C, ['a']
  if shape == 'cls_noinit':   # edge: no constructor of its own, signature is ()
    class C:
      pass
    return C, []
  raise AssertionError(shape)


SHAPES = ['fn_plain', 'fn_kwonly', 'fn_varargs', 'fn_kwargs', 'fn_wrapped', 'fn_wrapped2',
          'cls_init', 'cls_new', 'cls_inherit', 'cls_kwonly', 'cls_kwargs']
REGS = ['external', 'register', 'configurable']
LISTS = ['none', 'allow_first', 'allow_last_extra', 'deny_first', 'deny_last']
PARAMS = ['a', 'b', 'c', 'k', 'm', 'args', 'kw', 'kwargs', 'zz', 'z']
PATHS = ['str', 'tuple', 'text', 'block', 'scoped_str', 'scoped_tuple', 'scoped_text',
         'scoped_block', 'hook', 'hook_mixed', 'text_skip', 'unregistered']
SPELL = ['full', 'short']


def _py_accepts(sig, p):
  kinds = inspect.Parameter
  if any(q.kind is kinds.VAR_KEYWORD for q in sig.parameters.values()):
    return True
  q = sig.parameters.get(p)
  return q is not None and q.kind in (kinds.POSITIONAL_OR_KEYWORD, kinds.KEYWORD_ONLY)


def _lists(setting, explicit, has_kw):
  if setting == 'none':
    return None, None
  if setting == 'allow_first':
    return [explicit[0]], None
  if setting == 'allow_last_extra':
    return tuple([explicit[-1]] + (['zz'] if has_kw else [])), None
  if setting == 'deny_first':
    return None, (explicit[0],)
  return None, [explicit[-1]] + (['zz'] if has_kw else [])


class _Hook:

  def __init__(self, bindings):
    self.bindings = bindings

  def __call__(self, config):
    return dict(self.bindings)

  def __repr__(self):
    return '<hook>'


def _snap():
  return ({k: dict(v) for k, v in gc._CONFIG.items()}, gin.config_str(),
          gin.config_is_locked(), {k: dict(v) for k, v in gc._CONFIG_PROVENANCE.items()})


def _j(snap):
  return [sorted('%s: %s' % kv for kv in snap[0].items()), snap[2]]


def _bind(path, sel, p, companion):
  """Makes the binding sel.p = V through one path; returns the scope it was made in."""
  scope = 's1' if path.startswith('scoped') else ''
  pre = scope + '/' if scope else ''
  kind = path.replace('scoped_', '')
  if kind == 'str':
    gin.bind_parameter('%s%s.%s' % (pre, sel, p), V)
  elif kind == 'tuple':
    gin.bind_parameter((scope, sel, p), V)
  elif kind == 'text':
    gin.parse_config('%s%s.%s = %d' % (pre, sel, p, V))
  elif kind == 'text_skip':
    gin.parse_config('%s.%s = %d' % (sel, p, V), skip_unknown=True)
  elif kind == 'block':
    gin.parse_config('%s%s:\n  %s = %d\n' % (pre, sel, p, V))
  elif kind == 'hook':
    gc.register_finalize_hook(_Hook({'%s.%s' % (sel, p): V}))
    gin.finalize()
  elif kind == 'hook_mixed':
    gc.register_finalize_hook(_Hook({companion: 1}))
    gc.register_finalize_hook(_Hook({'%s.%s' % (sel, p): V}))
    gin.finalize()
  else:
    raise AssertionError(path)
  return scope


def _received(call, scope, supply_a=True):
  """What the callable receives; every shape is callable with just `a` (or with `a`
  bound), so a TypeError here means gin passed something the signature cannot take."""
  try:
    with gin.config_scope(scope):
      out = call(0) if supply_a else call()
  except TypeError as e:
    return {'raised': str(e)[:80]}
  return out if isinstance(out, dict) else getattr(out, 'got', {})


def _fail(fails, clause, expected, observed, sig):
  fails.append({'clause': clause, 'expected': expected, 'observed': observed,
                'signature': '%s %s' % (clause, sig)})


def _check_bind(case, fails):
  target, explicit = _make(case['shape'])
  sig = inspect.signature(target)
  has_kw = any(q.kind is inspect.Parameter.VAR_KEYWORD for q in sig.parameters.values())
  allow, deny = _lists(case['lists'], explicit, has_kw)
  kw = dict(module='pk.mod', allowlist=allow, denylist=deny)
  if case['reg'] == 'external':
    call = gin.external_configurable(target, name='tgt', **kw)
  elif case['reg'] == 'register':
    gin.register('tgt', **kw)(target)
    call = gin.get_configurable('pk.mod.tgt')
  else:
    call = gin.configurable('tgt', **kw)(target)

  def other(v=0):
    return v
  gin.external_configurable(other, name='other', module='user')
  gin.bind_parameter('user.other.v', 3)
  p, path = case['param'], case['path']
  sel = 'pk.mod.tgt' if case['spell'] == 'full' else 'tgt'
  registered = path != 'unregistered'
  if not registered:
    sel, path = ('pk.mod' if case['spell'] == 'full' else 'nosuch'), case['sub']
  ok = (registered and _py_accepts(sig, p) and (allow is None or p in allow) and
        (deny is None or p not in deny))
  # something already bound on the target itself, where a bindable parameter exists
  pre = [q for q in explicit + ['zz'] if q != p and _py_accepts(sig, q) and
         (allow is None or q in allow) and (deny is None or q not in deny) and q != 'a']
  if pre:
    try:
      gin.bind_parameter('pk.mod.tgt.' + pre[0], 5)
    except ValueError as e:
      _fail(fails, 'valid_binding_accepted', 'tgt.%s accepted' % pre[0], str(e)[:80],
            'path=str prebinding')
      return
  before = _snap()
  kind = case['shape'] if not explicit else 'cls' if inspect.isclass(target) else 'fn'
  tag = 'path=%s %s lists=%s' % (case['path'], kind, case['lists'][:5])
  try:
    scope = _bind(path, sel, p, 'user.other.v')
    raised = None
  except Exception as e:  # pylint: disable=broad-except
    scope = 's1' if path.startswith('scoped') else ''
    raised = e
    if isinstance(e, (AssertionError, AttributeError, NameError)):
      raise
  after = _snap()
  silent_skip = path == 'text_skip' and not registered
  if ok:
    want_cfg = {k: dict(v) for k, v in before[0].items()}
    want_cfg.setdefault((scope, 'pk.mod.tgt'), {})[p] = V
    if path == 'hook_mixed':
      want_cfg[('', 'user.other')]['v'] = 1
    if raised is not None or after[0] != want_cfg:
      _fail(fails, 'valid_binding_accepted', 'cell (%r, %s) = %d' % (scope, p, V),
            [type(raised).__name__, _j(after)], tag)
    else:
      got = _received(call, scope, supply_a=p != 'a')
      if got.get(p) != V:
        _fail(fails, 'valid_binding_accepted', {p: V}, got, tag + ' call')
    return
  if raised is None and not silent_skip:
    _fail(fails, 'accepted_iff_configurable', 'raise for %s.%s' % (sel, p),
          'accepted', tag + ' param=%s' % (p if p in ('args', 'kw') else
                                           'listed' if _py_accepts(sig, p) else 'unknown'))
    return   # what follows from the acceptance is not reported again
  if after != before:
    _fail(fails, 'rejection_leaves_config', _j(before),
          [_j(after), after[1] == before[1]], tag)
  if registered:
    got = _received(call, scope, supply_a=bool(explicit))
    if got.get(p) == V or 'raised' in got or (p == 'args' and V in got.get('args', ())):
      _fail(fails, 'never_injected', '%s not supplied' % p, got, tag)


def _check_method(case, fails):
  class Klass:

    def __init__(self, a=0):
      self.a = a

    @gin.register
    def meth(self, p=1):
      return p

    def plain(self, p=1):
      return p
  old = gc._INVERSE_REGISTRY[Klass.meth].selector
  if case['reg'] == 'register':
    gin.register(Klass, module='pk')
  else:
    gin.external_configurable(Klass, module='pk')
  gin.bind_parameter('pk.Klass.a', 4)
  sel = {'bare': 'meth', 'class': 'Klass.meth', 'full': 'pk.Klass.meth', 'old': old,
         'plain': 'Klass.plain'}[case['spell']]
  ok = case['spell'] in ('class', 'full')
  before = _snap()
  try:
    scope = _bind(case['path'], sel, 'p', 'pk.Klass.a')
    raised = None
  except (ValueError, KeyError) as e:
    scope, raised = '', e
  after = _snap()
  tag = 'spell=%s path=%s' % (case['spell'], case['path'])
  if ok:
    want = {k: dict(v) for k, v in before[0].items()}
    want.setdefault((scope, 'pk.Klass.meth'), {})['p'] = V
    if case['path'] == 'hook_mixed':
      want[('', 'pk.Klass')]['a'] = 1
    if raised is not None or after[0] != want:
      _fail(fails, 'method_only_via_class', 'accepted as pk.Klass.meth.p',
            [type(raised).__name__, _j(after)], tag)
    else:
      with gin.config_scope(scope):
        got = gin.get_configurable('pk.Klass')().meth()
      if got != V:
        _fail(fails, 'method_only_via_class', V, got, tag + ' call')
  else:
    if raised is None:
      _fail(fails, 'method_only_via_class', 'raise', 'accepted %s.p' % case['spell'], tag)
    if after != before:
      _fail(fails, 'rejection_leaves_config', _j(before), _j(after), tag)
    try:
      gin.query_parameter(sel + '.p')
      _fail(fails, 'method_only_via_class', 'raise', 'query accepted', tag + ' query')
    except (ValueError, KeyError):
      pass


def check(case):
  fails = []
  (_check_bind if case['mode'] == 'bind' else _check_method)(case, fails)
  return fails


def _bind_case(shape, reg, lists, param, path, spell, sub='str'):
  c = {'mode': 'bind', 'shape': shape, 'reg': reg, 'lists': lists, 'param': param,
       'path': path, 'spell': spell}
  if path == 'unregistered':
    c['sub'] = sub
  return c


MPATHS = ['str', 'tuple', 'text', 'block', 'scoped_str', 'hook', 'hook_mixed']


def cases(tier, rng):
  # corners: the two configurables of the repo's own tests, through every path
  for path in PATHS:
    for lists, param in (('allow_first', 'b'), ('deny_first', 'a'), ('none', 'zz'),
                         ('none', 'b'), ('deny_last', 'c')):
      yield _bind_case('fn_plain', 'configurable', lists, param, path, 'short')
      yield _bind_case('cls_init', 'external', lists, param, path, 'full')
  # edge: a class without a constructor of its own accepts no parameter at all
  for path in ('str', 'text'):
    yield _bind_case('cls_noinit', 'external', 'none', 'zz', path, 'short')
  for reg in ('register', 'external'):
    for spell in ('bare', 'class', 'full', 'old', 'plain'):
      for path in MPATHS:
        yield {'mode': 'method', 'reg': reg, 'spell': spell, 'path': path}
  subs = ['str', 'tuple', 'text', 'block', 'scoped_text', 'hook', 'hook_mixed', 'text_skip']
  space = itertools.product(SHAPES, REGS, LISTS, PARAMS, PATHS, SPELL)
  if tier == 'thorough':
    for shape, reg, lists, param, path, spell in space:
      if path == 'unregistered':
        for sub in subs:
          yield _bind_case(shape, reg, lists, param, path, spell, sub)
      else:
        yield _bind_case(shape, reg, lists, param, path, spell)
  else:
    for _ in range(2600):
      yield _bind_case(rng.choice(SHAPES), rng.choice(REGS), rng.choice(LISTS),
                       rng.choice(PARAMS), rng.choice(PATHS), rng.choice(SPELL),
                       rng.choice(subs))
