"""C12 bounded stand-in: the lock / finalize state machine, run natively against a model.

Model state: lock flag, configuration {(scope, complete selector): {arg: value}}, the
list of user hooks.  After every operation the real lock flag and the real configuration
must equal the model's.

Clause labels -> sentence of the property:
  locked_rejects      "Once the configuration is finalized, every attempt to add or change
                      a binding or to register a configurable raises and changes nothing"
  unlocked_accepts    "... until clear_config or an unlock_config block" (the same attempt
                      succeeds when the model says the configuration is unlocked)
  unlock_restores     "leaving an unlock_config block by any path, including an exception,
                      restores the lock state that held on entry"
  finalize_twice      "finalizing twice is an error"
  finalize_rejects    "rejects two hooks updating the same parameter however each spells
                      it, rejects unbound or unevaluated macros, references to unknown
                      configurables and parameters still set to %gin.REQUIRED"
  rejection_unlocked_unmodified  "on rejection leaves the configuration unlocked and
                      unmodified"
  finalize_applies    "applies the bindings the hooks return" (and then locks)
  hooks_see_parsed_config  "Finalizing runs every hook against the configuration as parsed"

Two corner cases call finalize while a config_scope is active (signature suffix
`inside_config_scope`); the property makes no exception for that situation.  They are kept
out of the enumerations so that one finding cannot use up the violation budget.
"""
import itertools

import gin
from gin import config as gc

BOUNDS = ('sequences over 9 operations {finalize, bind, parse, register, clear, add-hook, '
          'unlock-open, close, close-raising} (close without an open block = a complete '
          'empty unlock block; blocks nest; blocks still open at the end are closed '
          'normally), operation variants chosen cyclically by occurrence: quick enumerates '
          'every sequence of exactly 4 operations (so every shorter one as a prefix), '
          'thorough every sequence of exactly 6; both add a seeded sample of sequences of '
          '5-9 operations with independently random variants (4 bind spellings, 8 config '
          'texts incl. %gin.REQUIRED / unbound, unevaluated macro / nested unknown '
          'reference, 7 hook kinds, 3 registration calls, 2 raising exits)')
EXHAUSTIVE = {'quick': True, 'thorough': True}

TOKENS = ['finalize', 'bind', 'parse', 'register', 'clear', 'hook', 'open', 'close',
          'close_raise']
CYCLE = {'bind': [0, 1, 3, 2], 'parse': [0, 1, 6, 3, 2, 7, 4, 5], 'hook': [1, 2, 0, 5, 3],
         'register': [0, 1, 2], 'clear': [0, 1], 'close_raise': [0, 1]}
NVAR = {'bind': 4, 'parse': 8, 'hook': 7, 'register': 3, 'clear': 2, 'close_raise': 2}
F = 'n.m.f'
REQ, UNK = 'CONST:gin.REQUIRED', 'UNK'


class _BodyError(Exception):
  pass


class _BodyBase(BaseException):
  pass


class _HookError(Exception):
  pass


class _Hook:
  """User finalize hook; records the configuration it was shown."""

  def __init__(self, variant, k):
    self.variant, self.k, self.seen = variant, k, []

  def returns(self):
    v, k = self.variant, self.k
    return {0: None, 1: {'f.y': 1000 + k}, 2: {'n.m.f.y': 2000 + k}, 3: None,
            4: {'f.nosuch': 1}, 5: {'s/m.f.x': 3000 + k}, 6: {'nosuch.x': 1}}[v]

  def __call__(self, config):
    self.seen.append(_view(config))
    if self.variant == 3:
      raise _HookError('hook failed')
    return self.returns()

  def __repr__(self):
    return '<hook %d>' % self.variant


def _abs(v):
  """Model-level rendering of a bound value."""
  if isinstance(v, gc.ConfigurableReference):
    if v.configurable.wrapped is gc.macro:
      return ('MACRO:' if v.evaluate else 'UNEVAL:') + '/'.join(v.scopes)
    return 'CONST:' + '/'.join(v.scopes)
  if isinstance(v, gc._UnknownConfigurableReference):
    return UNK
  if isinstance(v, dict):
    return {k: _abs(x) for k, x in v.items()}
  if isinstance(v, (list, tuple)):
    return [_abs(x) for x in v]
  return v


def _view(config):
  return {k: {a: _abs(x) for a, x in v.items()} for k, v in config.items() if v}


def _flat(v):
  if isinstance(v, dict):
    v = list(v.values())
  if isinstance(v, list):
    for x in v:
      yield from _flat(x)
  else:
    yield v


class _Model:

  def __init__(self):
    self.locked, self.cfg, self.hooks = False, {}, []

  def set(self, scope, sel, arg, val):
    self.cfg.setdefault((scope, sel), {})[arg] = val

  def poisoned(self):
    for params in self.cfg.values():
      for v in params.values():
        if v == REQ:   # only a parameter set directly to %gin.REQUIRED
          return 'required'
        for leaf in _flat(v):
          if leaf == UNK:
            return 'unknown_reference'
          if isinstance(leaf, str) and leaf.startswith('UNEVAL:'):
            return 'unevaluated_macro'
          if isinstance(leaf, str) and leaf.startswith('MACRO:') and \
              (leaf[6:], 'gin.macro') not in self.cfg:
            return 'unbound_macro'
    return None

  def hook_outcome(self):
    """(reason for rejection or None, bindings to apply)."""
    out = {}
    for h in self.hooks:
      if h.variant == 3:
        return 'hook_raises', None
      for key, val in (h.returns() or {}).items():
        scope, _, rest = key.rpartition('/')
        sel, arg = rest.rsplit('.', 1)
        if not F.endswith(sel) or arg not in ('x', 'y', 'z', 'w'):
          return 'hook_returns_invalid_key', None
        if (scope, F, arg) in out:
          return 'hooks_conflict', None
        out[(scope, F, arg)] = val
    return None, out


def _fail(fails, clause, expected, observed, sig):
  def j(x):
    if isinstance(x, dict):
      return sorted('%s: %s' % (k, j(v)) for k, v in x.items())
    if isinstance(x, (list, tuple)):
      return [j(v) for v in x]
    return x if isinstance(x, (str, int, bool, type(None))) else repr(x)
  fails.append({'clause': clause, 'expected': j(expected), 'observed': j(observed),
                'signature': '%s %s' % (clause, sig)})


def _raw():
  return {k: dict(v) for k, v in gc._CONFIG.items()}


def _audit(st, fails, clause, sig):
  if gin.config_is_locked() != st.locked:
    _fail(fails, clause, 'locked=%s' % st.locked, 'locked=%s' % gin.config_is_locked(),
          sig + ' lock')
  if _view(gc._CONFIG) != st.cfg:
    _fail(fails, clause, st.cfg, _view(gc._CONFIG), sig + ' config')


def _attempt(fn):
  try:
    fn()
    return None
  except (_BodyError, AssertionError):
    raise
  except Exception as e:  # pylint: disable=broad-except
    return e


def _mutation(tok, var, k, st):
  """(callable performing the real operation, callable applying it to the model)."""
  v = 100 + k
  if tok == 'bind':
    key, cell = [('f.x', ('', 'x')), (('', 'm.f', 'x'), ('', 'x')),
                 ('s/n.m.f.x', ('s', 'x')), ('f.w', ('', 'w'))][var]
    return (lambda: gin.bind_parameter(key, v)), (lambda: st.set(cell[0], F, cell[1], v))
  if tok == 'parse':
    text, effect = [
        ('m.f.z = %d' % v, [('', F, 'z', v)]),
        ('f.w = %gin.REQUIRED', [('', F, 'w', REQ)]),
        ('f.w = %mac', [('', F, 'w', 'MACRO:mac')]),
        ('mac = 5', [('mac', 'gin.macro', 'value', 5)]),
        ('s/f.w = [@mac/gin.macro, 1]', [('s', F, 'w', ['UNEVAL:mac', 1])]),
        ("f.w = [1, {'k': (@nope(), 2)}]", [('', F, 'w', [1, {'k': [UNK, 2]}])]),
        ('f.w = %d' % v, [('', F, 'w', v)]),
        ('s/f:\n  x = %d\n  z = %d\n' % (v, v + 1), [('s', F, 'x', v), ('s', F, 'z', v + 1)]),
    ][var]

    def model():
      for cell in effect:
        st.set(*cell)
    return (lambda: gin.parse_config(text, skip_unknown=(var == 5))), model
  raise AssertionError(tok)


def _step(tok, var, k, st, fails):
  sig = 'op=%s' % tok
  if tok in ('bind', 'parse'):
    real, model = _mutation(tok, var, k, st)
    before = _raw()
    err = _attempt(real)
    if st.locked:
      if not isinstance(err, RuntimeError) or _raw() != before:
        _fail(fails, 'locked_rejects', 'RuntimeError, nothing changed',
              [type(err).__name__, _raw() == before], sig)
    else:
      model()
      if err is not None:
        _fail(fails, 'unlocked_accepts', 'accepted', repr(err)[:120], sig)
  elif tok == 'register':
    name = 'g%d' % k

    def fn(x=0):
      return x
    fn.__name__ = name
    call = [lambda: gin.external_configurable(fn, module='pkg'),
            lambda: gin.configurable(fn, module='pkg'),
            lambda: gin.register(module='pkg')(fn)][var]
    before = _raw()
    err = _attempt(call)
    known = _attempt(lambda: gin.get_configurable('pkg.' + name)) is None
    if st.locked:
      if not isinstance(err, RuntimeError) or known or _raw() != before:
        _fail(fails, 'locked_rejects', 'RuntimeError, not registered',
              [type(err).__name__, known], sig)
    elif err is not None or not known:
      _fail(fails, 'unlocked_accepts', 'registered', [repr(err)[:120], known], sig)
  elif tok == 'clear':
    gin.clear_config(clear_constants=bool(var))
    st.cfg, st.locked = {}, False
  elif tok == 'hook':
    h = _Hook(var, k)
    gc.register_finalize_hook(h)
    st.hooks.append(h)
  elif tok == 'finalize':
    _finalize(st, fails, var)
  else:
    raise AssertionError(tok)
  if not fails:
    _audit(st, fails, 'locked_rejects' if st.locked else 'unlocked_accepts', sig + ' state')


def _finalize_in_scope():
  with gin.config_scope('sc'):
    gin.finalize()


def _finalize(st, fails, var):
  before, before_view = _raw(), _view(gc._CONFIG)
  for h in st.hooks:
    h.seen = []
  err = _attempt(_finalize_in_scope if var else gin.finalize)
  if st.locked:
    if not isinstance(err, RuntimeError) or _raw() != before:
      _fail(fails, 'finalize_twice', 'RuntimeError, nothing changed',
            [type(err).__name__, _raw() == before], 'op=finalize')
    return
  reason = st.poisoned()
  apply_ = None
  if reason is None:
    reason, apply_ = st.hook_outcome()
  if reason is not None:
    sig = 'reason=%s%s' % (reason, ' inside_config_scope' if var else '')
    if not isinstance(err, (ValueError, _HookError)):
      _fail(fails, 'finalize_rejects', 'ValueError (%s)' % reason, type(err).__name__, sig)
    elif _raw() != before or gin.config_is_locked():
      _fail(fails, 'rejection_unlocked_unmodified', [before_view, False],
            [_view(gc._CONFIG), gin.config_is_locked()], sig)
    return
  for (scope, sel, arg), val in apply_.items():
    st.set(scope, sel, arg, val)
  st.locked = True
  if err is not None or _view(gc._CONFIG) != st.cfg or not gin.config_is_locked():
    _fail(fails, 'finalize_applies', [st.cfg, True],
          [repr(err)[:100], _view(gc._CONFIG), gin.config_is_locked()],
          'hooks=%d' % len(st.hooks))
  for h in st.hooks:
    if h.seen != [before_view]:
      _fail(fails, 'hooks_see_parsed_config', [before_view], h.seen,
            'hook_variant=%d' % h.variant)


def _run(ops, i, st, fails, depth):
  """Executes ops[i:] up to the close token of the enclosing block; returns (next, how)."""
  while i < len(ops) and not fails:   # after a failure the model no longer tracks gin
    tok, var = ops[i]
    if tok == 'open':
      i = _block(ops, i + 1, st, fails, depth)
      continue
    if tok in ('close', 'close_raise'):
      if depth:
        return i + 1, (tok, var)
      _block(ops, len(ops), st, fails, depth, how=(tok, var))   # complete empty block
    else:
      _step(tok, var, i, st, fails)
    i += 1
  return i, ('close', 0)


def _block(ops, i, st, fails, depth, how=None):
  entry = st.locked
  exc = None
  try:
    with gin.unlock_config():
      st.locked = False
      _audit(st, fails, 'unlocked_accepts', 'op=open state')
      if how is None:
        i, how = _run(ops, i, st, fails, depth + 1)
      if how[0] == 'close_raise':
        raise (_BodyBase if how[1] else _BodyError)()
  except (_BodyError, _BodyBase) as e:
    exc = e
  st.locked = entry
  if fails:
    return i
  if gin.config_is_locked() != entry:
    _fail(fails, 'unlock_restores', 'locked=%s' % entry,
          'locked=%s' % gin.config_is_locked(),
          'exit=%s' % (type(exc).__name__ if exc else 'normal'))
  else:
    _audit(st, fails, 'unlock_restores', 'op=close state')
  return i


def check(case):
  fails = []
  st = _Model()

  def f(x=None, y=None, z=None, w=None):
    return (x, y, z, w)
  gin.external_configurable(f, name='f', module='n.m')
  _run([tuple(op) for op in case['ops']], 0, st, fails, 0)
  return fails


def nontrivial(case):
  return bool(case['ops'])


def _cyclic(tokens):
  seen, ops = {}, []
  for t in tokens:
    n = seen.get(t, 0)
    seen[t] = n + 1
    ops.append([t, CYCLE[t][n % len(CYCLE[t])] if t in CYCLE else 0])
  return {'ops': ops}


def cases(tier, rng):
  # corners: the two sequences of the repo's tests, the raising body, hook conflict,
  # every rejection reason followed by proof that the configuration is still open
  yield _cyclic(['finalize', 'bind', 'open', 'bind', 'close', 'bind'])
  yield _cyclic(['finalize', 'open', 'bind', 'close_raise', 'bind', 'finalize'])
  yield _cyclic(['finalize', 'open', 'open', 'close_raise', 'bind', 'close', 'register'])
  yield {'ops': [['finalize', 0], ['open', 0], ['close_raise', 1], ['bind', 0]]}
  yield _cyclic(['hook', 'hook', 'finalize', 'bind', 'clear', 'finalize'])
  yield {'ops': [['bind', 0], ['hook', 1], ['hook', 5], ['hook', 0], ['finalize', 0],
                 ['finalize', 0], ['parse', 0], ['clear', 0], ['parse', 0]]}
  for pv in (1, 2, 4, 5):
    yield {'ops': [['bind', 0], ['parse', pv], ['hook', 1], ['finalize', 0], ['bind', 1],
                   ['parse', 6], ['parse', 3], ['finalize', 0], ['bind', 2]]}
  for hv in (2, 3, 4, 6):
    yield {'ops': [['parse', 0], ['hook', 1], ['hook', hv], ['finalize', 0], ['bind', 3],
                   ['register', 0], ['finalize', 0]]}
  yield {'ops': [['parse', 3], ['parse', 2], ['finalize', 0], ['register', 1],
                 ['open', 0], ['finalize', 0], ['close', 0], ['bind', 0]]}
  # finalize called while a config_scope is active (only here: two cases)
  for pv in (2, 4):
    yield {'ops': [['parse', pv], ['finalize', 1], ['bind', 0]]}
  n = 4 if tier == 'quick' else 6
  for toks in itertools.product(TOKENS, repeat=n):
    yield _cyclic(toks)
  for _ in range(1500 if tier == 'quick' else 40000):
    yield {'ops': [[t, rng.randrange(NVAR.get(t, 1))] for t in
                   (rng.choice(TOKENS + ['finalize', 'hook', 'parse'])
                    for _ in range(rng.randint(5, 9)))]}
