"""C16 bounded stand-in: a failed parse applies exactly the preceding statements; errors say where.

Fault injection.  A config (top-level string or file, includes to depth 2) is rendered with one
faulty statement at a chosen position.  The reference model `_effects` lists, from the
property alone, the bindings of the statements that precede the fault in the flattened
(include-spliced) order, with the file and line each one begins on.  After the real parse
has failed the module compares: the store (via query_parameter) with the model; config_str()
with that of the flattened prefix parsed alone in a fresh gin (differential), again after a
follow-up parse; scope / lock / parse-context stack with their values before the call; the
exception with the expected class and location lines; config_str(show_provenance=True) with
the model's file:line of the statement that last set each binding.  When the real parse
does not fail nothing is claimed (the property speaks about failed parses); `unknown_macro`
is such a kind on today's gin (macros are resolved lazily) and is then checked as a full parse.

Clause labels -> sentence of the property:
  exactly_prefix_applied   "exactly the statements preceding it have taken effect, nothing
                            after it has"
  context_restored         "the active scope, lock state and per-file import tables are as
                            before the call"
  later_parse_as_fresh     "so later parsing behaves as in a fresh process with that prefix
                            applied"
  semantic_error_type      "A semantic error keeps its original exception type"
  semantic_error_location  "and names the file (or 'bindings string') and the line on which
                            the offending statement begins, once for each level of the
                            include chain"  (block member: its own line or the block's)
  syntax_error_lineno      title "errors say where", for gin's own one-line SyntaxErrors:
                            `lineno` is the line of the faulty statement
  provenance               "config_str(show_provenance=True) attributes each binding to the
                            file and line of the statement that last set it"
"""
import builtins
import logging
import os
import re
import tempfile

import gin
from gin import config as gc
from bounded import harness

BOUNDS = ('configs of <= 6 statements (bindings, multi-line bindings, macros, 2-member blocks, '
          'imports, comments) spread over a top-level string or file and <= 2 included files '
          '(include depth <= 2); one fault at every statement position x 12 fault kinds '
          '(40 variants); parse optionally run inside an active config_scope; sampled configs, '
          'all kinds per config')
EXHAUSTIVE = {'quick': False, 'thorough': False}

NAMES = {'top': 'c16top.gin', 'A': 'c16a.gin', 'B': 'c16b.gin'}
FOLLOW_UP = 'f.c = 70\ns1/g.y = 71\n'


def V(name, lines, cls, exc=None, lineno=False, before=(), off=0, alt=None, fails=True,
      prone=False):
  return {'name': name, 'lines': lines, 'cls': cls, 'exc': exc, 'lineno': lineno,
          'before': before, 'off': off, 'alt': alt, 'fails': fails, 'prone': prone}


_B = (('', 'f', 'b', 41, 1),)    # member `b = 41` on the line after the block header
# cls: 'syn' syntactic / tokenizer, 'sem' semantic.  off: line offset of the offending
# statement (or block member; alt: the block header is accepted too).  prone: variants on
# which the recorded C16 defects show (one-token lookahead; block parsed as a whole).
FAULTS = {
    'bad_value': [V('two_values', ['f.b = 1 2'], 'syn', lineno=True),
                  V('dollar', ['f.b = $x'], 'syn', lineno=True),
                  V('bare_name', ['f.b = foo'], 'syn', lineno=True),
                  V('unterminated_string', ["f.b = 'abc"], 'syn')],
    'missing_value': [V('no_rhs', ['f.b ='], 'syn', lineno=True),
                      V('no_equals', ['f.b'], 'syn', lineno=True)],
    'unbalanced_bracket': [V('open_list', ['f.b = [1, 2'], 'syn'),
                           V('open_dict', ['f.b = {1: 2'], 'syn'),
                           V('close_only', ['f.b = 1]'], 'syn', lineno=True),
                           V('crossed', ['f.b = (1, [2)'], 'syn', lineno=True)],
    'bad_selector': [V('double_dot', ['f..b = 1'], 'syn', lineno=True),
                     V('space', ['f .b = 1'], 'syn', lineno=True),
                     V('double_slash', ['a//f.b = 1'], 'syn', lineno=True),
                     V('digit', ['1f.b = 1'], 'syn', lineno=True),
                     V('dollar', ['$f.b = 2'], 'syn', lineno=True),
                     V('starts_with_quote', ["'abc = 2"], 'syn', prone=True)],
    'unknown_parameter': [V('plain', ['f.nope = 1'], 'sem', 'ValueError'),
                          V('scoped', ['s1/f.nope = 1'], 'sem', 'ValueError'),
                          V('multiline_value', ['f.nope = [1,', '    2]'], 'sem', 'ValueError')],
    'unknown_configurable': [V('binding', ['zz.a = 1'], 'sem', 'ValueError'),
                             V('block', ['zz:', '  a = 1'], 'sem', 'ValueError')],
    'unknown_reference': [V('plain', ['f.b = @zz'], 'sem', 'ValueError'),
                          V('evaluated', ['s1/f.b = @zz()'], 'sem', 'ValueError'),
                          V('in_list', ['f.b = [1, @s1/zz()]'], 'sem', 'ValueError'),
                          V('continuation_line', ['f.b = [1,', '    @zz]'], 'sem', 'ValueError',
                            prone=True)],
    'unknown_macro': [V('plain', ['f.b = %nomacro'], 'sem', fails=False)],
    'denylisted_parameter': [V('plain', ['f.d = 1'], 'sem', 'ValueError'),
                             V('scoped', ['s1/f.d = 1'], 'sem', 'ValueError'),
                             V('in_block', ['f:', '  b = 41', '  d = 1'], 'sem', 'ValueError',
                               before=_B, off=2, alt=0)],
    'bad_include': [V('missing_file', ["include 'c16nowhere.gin'"], 'sem', 'OSError'),
                    V('not_a_string', ['include nowhere'], 'syn', lineno=True)],
    'bad_import': [V('missing_module', ['import c16_nope'], 'sem', 'ModuleNotFoundError'),
                   V('from_missing', ['from c16_nope import x'], 'sem', 'ModuleNotFoundError'),
                   V('bad_name', ['import 1x'], 'syn', lineno=True)],
    'bad_block_member': [
        V('unknown_param', ['f:', '  b = 41', '  nope = 6', '  c = 1'], 'sem', 'ValueError',
          before=_B, off=2, alt=0),
        V('first_member_unknown', ['g:', '  nope = 6', '  x = 1'], 'sem', 'ValueError', off=1, alt=0),
        V('syntax_first_member', ['f:', '  c = $'], 'syn'),
        V('syntax_after_member', ['f:', '  b = 41', '  c = $'], 'syn', before=_B, prone=True),
        V('no_value_after_member', ['f:', '  b = 41', '  c ='], 'syn', before=_B, prone=True),
        V('bad_dedent', ['f:', '    b = 41', '  c = 6'], 'syn', before=_B, prone=True)],
}
KINDS = sorted(FAULTS)


def _variant(kind, name):
  return [v for v in FAULTS[kind] if v['name'] == name][0]


def _fail(clause, expected, observed, signature):
  return {'clause': clause, 'expected': expected, 'observed': observed, 'signature': signature}


# ---- rendering and the reference model ----------------------------------------
def _key(scope, sel, arg):
  return '%s%s.%s' % (scope + '/' if scope else '', sel.split('.')[-1], arg)


def _render(stmts):
  """-> text, [(statement, first line, effects)]; an effect is (key, value, line, alt line)."""
  lines, recs = [], []
  for st in stmts:
    at, k, eff = len(lines) + 1, st[0], []
    if k == 'bind':       # ['bind', scope, selector, arg, n]
      lines.append('%s%s.%s = %d' % (st[1] + '/' if st[1] else '', st[2], st[3], st[4]))
      eff = [(_key(*st[1:4]), st[4], at, at)]
    elif k == 'bindml':   # value spread over two lines
      lines += ['%s%s.%s = [%d,' % (st[1] + '/' if st[1] else '', st[2], st[3], st[4]),
                '    %d]  # end' % st[4]]
      eff = [(_key(*st[1:4]), [st[4], st[4]], at, at)]
    elif k == 'macro':    # ['macro', name, n]
      lines.append('%s = %d' % (st[1], st[2]))
      eff = [('%' + st[1], st[2], at, at)]
    elif k == 'block':    # ['block', scope, selector, [[arg, n], [arg, n]]]
      lines.append('%s%s:' % (st[1] + '/' if st[1] else '', st[2]))
      for arg, n in st[3]:
        lines.append('  %s = %d' % (arg, n))
        eff.append((_key(st[1], st[2], arg), n, len(lines), at))
    elif k == 'import':
      lines.append('import %s' % st[1])
    elif k == 'include':
      lines.append("include '%s'" % NAMES[st[1]])
    elif k == 'comment':
      lines += ['', '# a comment']
    else:                 # ['fault', kind, variant]
      v = _variant(st[1], st[2])
      lines += v['lines']
      eff = [(_key(s, f, a), n, at + o, at) for s, f, a, n, o in v['before']]
    recs.append((st, at, eff))
  return ''.join(l + '\n' for l in lines), recs


def _effects(case, name, chain, out, failed):
  """Effects in flattened order up to the fault.  Returns None, or the fault's include chain
  [(file, line, alt line), ...] innermost first.  `failed`: the real parse raised (decides
  the one kind, unknown macro, that need not fail at parse time)."""
  for st, at, eff in _render(case['files'][name])[1]:
    if st[0] == 'include':
      hit = _effects(case, st[1], [(name, at, at)] + chain, out, failed)
      if hit:
        return hit
    elif st[0] == 'fault':
      v = _variant(st[1], st[2])
      out += [(k, val, name, line, alt) for k, val, line, alt in eff]
      alt = at if v['alt'] is not None else at + v['off']
      if v['fails'] or failed:
        return [(name, at + v['off'], alt)] + chain
      out.append((_key('', 'f', 'b'), '%nomacro', name, at, at))
    else:
      out += [(k, val, name, line, alt) for k, val, line, alt in eff]
  return None


def _prefix_text(effects):
  out = []
  for k, val, _, _, _ in effects:
    out.append('%s = %s' % (k.lstrip('%'), val))
  return ''.join(l + '\n' for l in out)


# ---- real gin --------------------------------------------------------------------
def _register():
  def f(a=None, b=None, c=None, d=None):
    return [a, b, c, d]

  def g(x=None, y=None):
    return [x, y]
  gin.external_configurable(f, name='f', module='m', denylist=['d'])
  gin.external_configurable(g, name='g', module='m')


def _observe():
  out = {}
  keys = ['%s%s.%s' % (s, fn, p) for s in ('', 's1/') for fn, ps in (('f', 'abc'), ('g', 'xy'))
          for p in ps] + ['%M', '%N']
  for key in keys:
    try:
      v = gin.query_parameter(key)
    except ValueError:
      continue
    out[key] = v if isinstance(v, (int, list)) else repr(v)
  return out


def _bindings_only(config_str):
  lines = [l for l in config_str.split('\n') if not l.startswith(('import ', 'from '))]
  return '\n'.join(lines).strip('\n')


def _context():
  return {'scope': gc.current_scope(), 'locked': gin.config_is_locked(),
          'parse_contexts': [id(c) for c in gc._PARSE_CONTEXTS]}


def _loc_lines(msg, designation):
  return [l for l in msg.split('\n') if designation in l and re.search(r'\bline\s+\d+', l)]


def check(case):
  logging.disable(logging.CRITICAL)
  cwd = os.getcwd()
  try:
    with tempfile.TemporaryDirectory(prefix='c16_') as tmp:
      os.chdir(tmp)
      return _check(case, os.path.realpath(tmp))
  finally:
    os.chdir(cwd)
    logging.disable(logging.NOTSET)


def _check(case, tmp):
  fails = []
  _register()
  gin.add_config_file_search_path(os.path.join(tmp, 'conf'))
  os.makedirs(os.path.join(tmp, 'conf'))
  for name, stmts in case['files'].items():
    if name != 'top' or case['entry'] == 'file':
      with open(os.path.join(tmp, 'conf', NAMES[name]), 'w') as fh:
        fh.write(_render(stmts)[0])
  fault = case.get('fault')
  v = _variant(fault[0], fault[1]) if fault else None
  sig = 'no_fault' if not fault else 'kind=%s variant=%s' % tuple(fault)
  before = _context()
  exc = None
  try:
    with gin.config_scope(case['scope']):
      before['scope'] = gc.current_scope()
      try:
        if case['entry'] == 'file':
          gin.parse_config_file(NAMES['top'])
        else:
          gin.parse_config(_render(case['files']['top'])[0])
      finally:
        after = _context()
  except Exception as e:    # every fault kind ends here; classified below
    exc = e
  effects = []
  chain = _effects(case, 'top', [], effects, exc is not None)
  if chain is None and exc is not None:   # no fault in the text: gin must not raise
    raise exc
  if chain is not None and exc is None:
    return []   # the property only speaks about parses that fail
  model = {}
  for k, val, _, _, _ in effects:
    model[k] = val
  # -- what has taken effect
  got = _observe()
  if got != model:
    fails.append(_fail('exactly_prefix_applied', sorted(model.items(), key=str),
                       sorted(got.items(), key=str), sig))
  if after != before:
    diff = [k for k in before if before[k] != after[k]]
    fails.append(_fail('context_restored', {k: before[k] for k in diff},
                       {k: after[k] for k in diff}, sig + ' changed=' + ','.join(diff)))
  # -- what the exception says
  if exc is not None and chain is not None:
    msg = str(exc)
    if v['cls'] == 'sem':
      if type(exc).__name__ != v['exc'] or not isinstance(exc, getattr(builtins, v['exc'])):
        fails.append(_fail('semantic_error_type', v['exc'],
                           '%s %s' % (type(exc).__name__, [c.__name__ for c in type(exc).__mro__[1:4]]),
                           sig))
      for depth, (name, line, alt) in enumerate(chain):
        named = 'bindings string' if (name == 'top' and case['entry'] == 'string') else NAMES[name]
        locs = _loc_lines(msg, named)
        nums = [int(re.search(r'\bline\s+(\d+)', l).group(1)) for l in locs]
        if len(locs) != 1 or nums[0] not in (line, alt):
          fails.append(_fail('semantic_error_location',
                             'one line naming %s, line %s' % (named, sorted({line, alt})),
                             locs or msg[:300], sig + ' level=%d' % depth))
          break
    elif v['lineno'] and isinstance(exc, SyntaxError):
      if exc.lineno != chain[0][1]:
        fails.append(_fail('syntax_error_lineno', chain[0][1], exc.lineno, sig))
  # -- provenance of what is bound now
  last = {}
  for k, val, name, line, alt in effects:
    last[k] = (name, line, alt)
  shown = gin.config_str(show_provenance=True).split('\n')
  for k, (name, line, alt) in sorted(last.items() if got == model else []):
    named = 'bindings string' if (name == 'top' and case['entry'] == 'string') else NAMES[name]
    at = [i for i, l in enumerate(shown) if l.startswith(k.lstrip('%') + ' = ')]
    if not at:
      continue      # (what is bound is checked above)
    note = shown[at[0] - 1] if at[0] else ''
    ok = note.startswith('#') and named in note and any(
        re.search(r'(?<!\d)%d(?!\d)' % n, note.split(named, 1)[1]) for n in (line, alt))
    if not ok:
      fails.append(_fail('provenance', '%s set in %s line %d' % (k, named, line), note,
                         sig + ' where=' + ('top' if name == 'top' else 'include')))
      break
  # -- differential: the flattened prefix alone in a fresh gin, then the same follow-up
  mine = [_bindings_only(gin.config_str())]
  gin.parse_config(FOLLOW_UP)
  mine.append(_bindings_only(gin.config_str()))
  harness.reset()
  _register()
  gin.parse_config(_prefix_text(effects))
  fresh = [_bindings_only(gin.config_str())]
  gin.parse_config(FOLLOW_UP)
  fresh.append(_bindings_only(gin.config_str()))
  if mine[0] != fresh[0] and not fails:
    fails.append(_fail('exactly_prefix_applied', fresh[0], mine[0], sig + ' view=config_str'))
  elif mine[0] == fresh[0] and mine[1] != fresh[1]:
    fails.append(_fail('later_parse_as_fresh', fresh[1], mine[1], sig))
  return fails


# ---- case generation ------------------------------------------------------------
def _rand_stmt(rng, n):
  r = rng.random()
  fn, args = rng.choice([('f', 'abc'), ('g', 'xy')])
  scope, sel = rng.choice(['', '', 's1']), rng.choice([fn, 'm.' + fn])
  if r < 0.45:
    return ['bind', scope, sel, rng.choice(args), n]
  if r < 0.57:
    return ['bindml', scope, sel, rng.choice(args), n]
  if r < 0.69:
    return ['macro', rng.choice(['M', 'N']), n]
  if r < 0.84:
    return ['block', scope, sel, [[a, n + 100 * i] for i, a in enumerate(rng.sample(args, 2))]]
  if r < 0.92:
    return ['import', rng.choice(['math', 'json'])]
  return ['comment']


def _rand_config(rng):
  """<= 6 statements over top / A / B; A included by top, B by A or by top."""
  shape = rng.choice(['flat', 'flat', 'one', 'one', 'chain', 'chain', 'two'])
  files = {'top': []}
  if shape != 'flat':
    files['A'] = []
  if shape in ('chain', 'two'):
    files['B'] = []
  budget = 6 - (len(files) - 1)
  for i in range(rng.randint(1, budget)):
    files[rng.choice(sorted(files))].append(_rand_stmt(rng, 10 + i))
  if 'B' in files:
    parent = 'A' if shape == 'chain' else 'top'
    files[parent].insert(rng.randint(0, len(files[parent])), ['include', 'B'])
  if 'A' in files:
    files['top'].insert(rng.randint(0, len(files['top'])), ['include', 'A'])
  return files


def _with_fault(rng, files, kind, variant=None, where=None):
  files = {k: list(v) for k, v in files.items()}
  v = variant or rng.choice(FAULTS[kind])['name']
  name = where or rng.choice(sorted(files))
  pos = rng.randint(0, len(files[name]))
  files[name].insert(pos, ['fault', kind, v])
  return files, [kind, v], pos


def _case(rng, files, fault):
  return {'files': files, 'fault': fault, 'entry': rng.choice(['string', 'file']),
          'scope': rng.choice(['', '', 'outer', 'outer/inner'])}


def cases(tier, rng):
  late = []
  # every variant once at the end of a two-statement text, in an included file
  base = {'top': [['bind', '', 'f', 'a', 1], ['include', 'A'], ['bind', '', 'f', 'c', 3]],
          'A': [['bind', 's1', 'g', 'x', 4], ['macro', 'M', 5]]}
  for kind in KINDS:
    for v in FAULTS[kind]:
      files = {k: list(s) for k, s in base.items()}
      files['A'] = files['A'] + [['fault', kind, v['name']], ['bind', '', 'g', 'y', 6]]
      c = {'files': files, 'fault': [kind, v['name']], 'entry': 'file', 'scope': ''}
      if v['prone']:
        late.append(c)
      else:
        yield c
  nconf = 75 if tier == 'quick' else 1500
  for _ in range(nconf):
    files = _rand_config(rng)
    yield _case(rng, files, None)
    for kind in KINDS:
      faulty, fault, pos = _with_fault(rng, files, kind)
      c = _case(rng, faulty, fault)
      if _variant(*fault)['prone'] and (pos > 0 or fault[1] != 'starts_with_quote'):
        late.append(c)
      else:
        yield c
  # variants on which the recorded defects of /repo show run last, variants interleaved
  by_variant = {}
  for c in late:
    by_variant.setdefault(tuple(c['fault']), []).append(c)
  for i in range(max(len(cs) for cs in by_variant.values())):
    for key in sorted(by_variant):
      if i < len(by_variant[key]):
        yield by_variant[key][i]


def nontrivial(case):
  return sum(len(s) for s in case['files'].values()) > 0
