"""Entry point of the bounded tier:  /venv/bin/python bounded/run.py C09 --tier quick --seed 1"""
import argparse
import importlib
import json
import os
import sys

sys.path.insert(0, os.path.dirname(os.path.dirname(os.path.abspath(__file__))))
sys.path.insert(0, os.environ.get('PYVC_REPO', '/repo'))


def main():
  ap = argparse.ArgumentParser()
  ap.add_argument('prop')
  ap.add_argument('--tier', default='quick')
  ap.add_argument('--seed', type=int, default=0)
  ap.add_argument('--budget', type=float, default=None)
  ap.add_argument('--replay')
  a = ap.parse_args()
  from bounded import harness
  mod = importlib.import_module('bounded.b' + a.prop)
  budget = a.budget or (40 if a.tier == 'quick' else 600)
  replay = None
  if a.replay:
    with open(a.replay) as fh:
      rp = json.load(fh)
    replay = rp.get('case', rp.get('inputs'))
  res = harness.run_module(mod, a.tier, a.seed, budget, replay)
  json.dump(res, sys.stdout, default=str)
  print()


if __name__ == '__main__':
  main()
