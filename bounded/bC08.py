"""C08 bounded stand-in: dotted-suffix name resolution, at SelectorMap level against a
reference model (a plain dict + string suffix test), and at API level (every
unambiguous spelling of one parameter is one key through every API).

Clause labels -> sentence of the property:
  suffix_match        "such a name resolves to the entry whose full dotted name ends with it"
                      (the set of matches is exactly the stored names ending in '.'+query)
  exact_wins          "a name equal to a complete stored name resolves to exactly that entry"
  ambiguous_rejected  "a name matching several entries is rejected as ambiguous"
  unknown_reported    "one matching none is reported unknown"
  minimal_roundtrip   "The shortest name reported for an entry resolves back to that entry"
  minimal_is_shortest "and no shorter suffix does"
  history_view        "after any history of additions, removals, copies and clears"
                      (dict-like reads and error behaviour equal the model after the history)
  copy_independent    "a copy never shares state with its original"
  spelling_same_key   "Binding, querying, references, scoped lookups and finalize hooks all
                      treat every unambiguous spelling of one parameter as the same key"
  hook_conflict_any_spelling  the finalize-hook half of the previous sentence: two hooks
                      naming one parameter by different spellings are one key (=> conflict)
"""
import copy
import itertools

import gin
from gin import config as gc
from gin import selector_map

BOUNDS = ('map mode: 1-3 SelectorMaps (original + copies), names over labels {a,b,c} with '
          '1-4 components, histories of <= 7 set/pop/copy/clear/invalid-set ops, the whole '
          'view audited after every op on all suffix, prefix and foreign queries; quick '
          'also enumerates every name set of size <= 2 over labels {a,b} depth <= 3 '
          '(insert all, pop each, both orders), thorough every set of size <= 3 over '
          '{a,b,c}; api mode: 2-5 configurables named <1-2 modules over {a,b,c}>.<f|g>, a '
          'target, two of its unambiguous spellings, 5 write paths x 5 write paths x 3 '
          'scopes sampled, all 6 read paths, <= 4 ambiguous/unknown spellings through all '
          'paths; const mode: 1-4 dotted constants, every suffix spelling, fresh / after '
          'clear_config / after clear_config(clear_constants=True)')
EXHAUSTIVE = {'quick': False, 'thorough': False}

_SENT = object()


def _universe(labels, depth):
  out = []
  for d in range(1, depth + 1):
    out.extend('.'.join(t) for t in itertools.product(labels, repeat=d))
  return out


def _suffixes(name):
  c = name.split('.')
  return ['.'.join(c[i:]) for i in range(len(c))]   # longest (full) first


# ----------------------------------------------------------------- reference model
def _ref_matches(model, q):
  if q in model:
    return [q]
  return [s for s in model if s.endswith('.' + q)]


def _j(x):
  """JSON-safe short rendering (config snapshots have tuple keys)."""
  if isinstance(x, dict):
    return sorted('%s: %s' % (k, _j(v)) for k, v in x.items())
  if isinstance(x, (list, tuple)):
    return [_j(v) for v in x]
  return x if isinstance(x, (str, int, bool, type(None))) else repr(x)


def _fail(fails, clause, expected, observed, sig):
  fails.append({'clause': clause, 'expected': _j(expected), 'observed': _j(observed),
                'signature': '%s %s' % (clause, sig)})


def _queries(names):
  qs = set()
  for n in names:
    c = n.split('.')
    qs.update(_suffixes(n))
    qs.update('.'.join(c[:i]) for i in range(1, len(c)))   # outer prefixes: never match
    qs.add('z.' + n)
    qs.add(c[-1] + '.z')
  qs.update(['z', 'a', 'b.a', 'c.b.a'])
  return sorted(qs)


def _try(fn, *args):
  try:
    return fn(*args)
  except KeyError as e:
    return 'KeyError %s' % e


def _audit(sm, model, queries, fails, sig):
  """Whole observable view of `sm` against `model`; True if anything deviates."""
  n0 = len(fails)
  if sorted(sm.items()) != sorted(model.items()) or len(sm) != len(model):
    _fail(fails, 'history_view', sorted(model.items()), sorted(sm.items()), sig + ' items')
  for q in queries:
    want = _ref_matches(model, q)
    vals = sorted(model[s] for s in want)
    absent = 'KeyError %r' % q
    reads = [q in sm, sm.get(q, _SENT), _try(sm.__getitem__, q)]
    if reads != [q in model, model.get(q, _SENT), model.get(q, absent)]:
      _fail(fails, 'history_view', [q in model, model.get(q)], reads, sig + ' in/get/[]')
    clause = 'exact_wins' if q in model else 'suffix_match'
    got = sm.matching_selectors(q)
    if sorted(got) != sorted(want) or len(set(got)) != len(got):
      _fail(fails, clause, sorted(want), [q, sorted(got)], sig)
    gm = _try(sm.get_match, q, _SENT)
    if len(want) > 1:
      if not str(gm).startswith('KeyError'):
        _fail(fails, 'ambiguous_rejected', 'KeyError for %r' % q, gm, sig)
    elif not want:
      if gm is not _SENT:
        _fail(fails, 'unknown_reported', 'default for %r' % q, gm, sig)
    elif gm != vals[0]:
      _fail(fails, clause, [q, vals[0]], gm, sig + ' get_match')
    gam = _try(sm.get_all_matches, q)   # the property gives it no way to fail
    if (sorted(gam) if isinstance(gam, list) else gam) != vals:
      _fail(fails, 'suffix_match', vals, [q, gam], sig + ' get_all_matches')
    if q not in model and not str(_try(sm.minimal_selector, q)).startswith('KeyError'):
      _fail(fails, 'history_view', 'KeyError', sm.minimal_selector(q),
            sig + ' minimal_selector(absent)')
  for s in model:
    r = _try(sm.minimal_selector, s)
    sufs = _suffixes(s)
    if r not in sufs or _ref_matches(model, r) != [s]:
      _fail(fails, 'minimal_roundtrip', 'a suffix of %r matching only it' % s, r, sig)
    elif _try(sm.get_match, r, _SENT) != model[s]:
      _fail(fails, 'minimal_roundtrip', [r, model[s]], _try(sm.get_match, r, _SENT),
            sig + ' get_match')
    else:
      shorter = [t for t in sufs if len(t) < len(r) and _ref_matches(model, t) == [s]]
      if shorter:
        _fail(fails, 'minimal_is_shortest', shorter[-1], r, sig)
  return len(fails) > n0


def _shape(model):
  if len(model) == 1:
    return 'single'
  return 'nested' if any(a != b and a.endswith('.' + b) for a in model for b in model) \
      else 'multi'


def _check_map(case, fails):
  maps, models = [selector_map.SelectorMap()], [{}]
  names = [op[2] for op in case['ops'] if op[0] in ('set', 'pop')]
  queries = _queries(names) if names else ['a', 'z']
  for op, i, name, val in case['ops']:
    i = i % len(maps)
    sm, model = maps[i], models[i]
    if op == 'set':
      sm[name] = val
      model[name] = val
    elif op == 'set_bad':
      try:
        sm[name] = val
        _fail(fails, 'history_view', 'ValueError', 'accepted %r' % name, 'invalid name')
      except ValueError:
        pass
    elif op == 'pop':
      try:
        got = sm.pop(name)
      except KeyError:
        got = _SENT
      want = model.pop(name, _SENT)
      if got != want:
        _fail(fails, 'history_view', repr(want), repr(got), 'pop result')
    elif op == 'clear':
      sm.clear()
      model.clear()
    elif op == 'copy':
      if len(maps) < 3:
        maps.append(sm.copy() if val % 2 else copy.copy(sm))
        models.append(dict(model))
    for j in range(len(maps)):
      sig = 'after=%s shape=%s' % (op, _shape(models[j]) if models[j] else 'empty')
      if j == i or op == 'copy':
        _audit(maps[j], models[j], queries, fails, sig)
      else:   # a map that was not touched by this op: any deviation is shared state
        sub = []
        if _audit(maps[j], models[j], queries, sub, sig):
          _fail(fails, 'copy_independent', 'untouched map keeps its view',
                [sub[0]['clause'], sub[0]['observed']], 'after=%s' % op)
    if fails:
      return


# ----------------------------------------------------------------- API level
def _mk(full):
  def fn(x=None, y=None):
    return [full, x, y]
  fn.__name__ = full.split('.')[-1]
  fn.__qualname__ = fn.__name__
  return fn


def _sc(scope, rest):
  return (scope + '/' if scope else '') + rest


class _Hook:
  """A finalize hook returning fixed bindings (public hook protocol)."""

  def __init__(self, bindings):
    self.bindings = bindings

  def __call__(self, config):
    return dict(self.bindings)

  def __repr__(self):
    return '<hook>'


def _write(path, scope, sp, arg, val):
  key = _sc(scope, sp + '.' + arg)
  if path == 'bind_str':
    gin.bind_parameter(key, val)
  elif path == 'bind_tuple':
    gin.bind_parameter((scope, sp, arg), val)
  elif path == 'parse':
    gin.parse_config('%s = %d' % (key, val))
  elif path == 'block':
    gin.parse_config('%s:\n  %s = %d\n' % (_sc(scope, sp), arg, val))
  elif path == 'hook':
    gc.register_finalize_hook(_Hook({key: val}))
    gin.finalize()
  else:
    raise AssertionError(path)


WRITES = ['bind_str', 'bind_tuple', 'parse', 'block', 'hook']
READS = ['query', 'get_bindings', 'get_bindings_scope', 'call', 'scoped_call', 'ref']


def _read(path, scope, sp, wrappers, tfull, consume):
  """Value of parameter x of the target as seen through one read path."""
  if path == 'query':
    return gin.query_parameter(_sc(scope, sp + '.x'))
  if path == 'get_bindings':
    return gin.get_bindings(_sc(scope, sp), inherit_scopes=False).get('x', _SENT)
  if path == 'get_bindings_scope':
    with gin.config_scope(scope):
      return gin.get_bindings(sp).get('x', _SENT)
  if path == 'call':
    who, x, _ = gin.get_configurable(_sc(scope, sp))()
    return x if who == tfull else ('WRONG', who)
  if path == 'scoped_call':
    with gin.config_scope(scope):
      who, x, _ = wrappers[tfull]()
    return x if who == tfull else ('WRONG', who)
  if path == 'ref':
    who, x, _ = consume()
    return x if who == tfull else ('WRONG', who)
  raise AssertionError(path)


def _snapshot():
  return {k: dict(v) for k, v in gc._CONFIG.items() if v}


def _check_api(case, fails):
  names, tfull, scope = case['names'], case['target'], case['scope']
  reg = dict.fromkeys(names)
  wrappers = {}
  for full in names:
    mod, name = full.rsplit('.', 1)
    wrappers[full] = gin.external_configurable(_mk(full), name=name, module=mod)

  def consume_fn(arg=None):
    return arg
  consume = gin.external_configurable(consume_fn, name='consume', module='user')
  s1, s2 = case['s1'], case['s2']
  sig = 'w=%s/%s' % (case['w1'], case['w2'])

  # --- spellings the model calls ambiguous / unknown are refused by every path
  for bad in case['bad']:
    n = len(_ref_matches(reg, bad))
    clause = 'ambiguous_rejected' if n > 1 else 'unknown_reported'
    before = _snapshot()
    for w in WRITES:
      try:
        _write(w, scope, bad, 'x', 5)
        _fail(fails, clause, 'raise', 'accepted %r' % bad, 'write=%s' % w)
      except (ValueError, KeyError):
        pass
      if w == 'hook':
        gc._FINALIZE_HOOKS.pop()   # the refused hook must not poison the rest of the case
      if _snapshot() != before or gin.config_is_locked():
        _fail(fails, clause, before, [_snapshot(), gin.config_is_locked()],
              'write=%s changed config' % w)
      if fails:
        return
    for r in ('query', 'get_bindings', 'call'):
      try:
        got = _read(r, scope, bad, wrappers, tfull, consume)
        _fail(fails, clause, 'raise', repr(got), 'read=%s' % r)
      except (ValueError, KeyError):
        pass
    try:
      gin.parse_config('user.consume.arg = @%s()' % _sc(scope, bad))
      _fail(fails, clause, 'raise', 'reference accepted', 'read=ref')
    except (ValueError, KeyError):
      pass
  if fails:
    return

  if case['w1'] == 'hook' and case['w2'] == 'hook':
    # two hooks, one parameter, two spellings => conflict; different parameters => both
    gc.register_finalize_hook(_Hook({_sc(scope, s1 + '.x'): 11}))
    gc.register_finalize_hook(_Hook({_sc(scope, s2 + '.' + case['arg2']): 22}))
    before = _snapshot()
    try:
      gin.finalize()
      raised = False
    except ValueError:
      raised = True
    if case['arg2'] == 'x':
      if not raised or _snapshot() != before or gin.config_is_locked():
        _fail(fails, 'hook_conflict_any_spelling', 'ValueError, config untouched',
              [raised, _snapshot()],
              'same=%s' % (s1 == s2))
    elif raised or _snapshot() != {(scope, tfull): {'x': 11, 'y': 22}}:
      _fail(fails, 'spelling_same_key', {'x': 11, 'y': 22},
            [raised, _snapshot()], 'hooks distinct params')
    return

  gin.parse_config('user.consume.arg = @%s()' % _sc(scope, s2))
  ckey = ('', 'user.consume')

  def reads(sp, want, tag):
    for r in READS:
      if r == 'ref' and sp != s2:
        continue
      try:
        got = _read(r, scope, sp, wrappers, tfull, consume)
      except (ValueError, KeyError) as e:
        got = '%s: %s' % (type(e).__name__, str(e)[:60])
      if got != want:
        _fail(fails, 'spelling_same_key', want, repr(got),
              'read=%s %s' % (r, tag))

  _write(case['w1'], scope, s1, 'x', 11)
  reads(s2, 11, 'after_w1')
  reads(tfull, 11, 'after_w1_full')
  if case['w1'] == 'hook':
    with gin.unlock_config():
      _write(case['w2'], scope, s2, 'x', 22)
  else:
    _write(case['w2'], scope, s2, 'x', 22)
  reads(s1, 22, 'after_w2')
  snap = _snapshot()
  snap.pop(ckey, None)
  if snap != {(scope, tfull): {'x': 22}}:
    _fail(fails, 'spelling_same_key', {(scope, tfull): {'x': 22}},
          snap, sig + ' one key')
  # the names reported for the entries (config_str section headers) are the shortest
  # unambiguous ones and resolve back to exactly the bound entries
  heads = sorted(tuple(l[17:-1].rpartition('/')[::2]) for l in gin.config_str().splitlines()
                 if l.startswith('# Parameters for '))
  short = [t for t in _suffixes(tfull) if _ref_matches(reg, t) == [tfull]][-1]
  if heads != sorted([(scope, short), ('', 'consume')]):
    reg2 = dict(reg, **{'user.consume': None})
    back = sorted((sc, _ref_matches(reg2, sel)) for sc, sel in heads)
    ok = back == sorted([(scope, [tfull]), ('', ['user.consume'])])
    _fail(fails, 'minimal_is_shortest' if ok else 'minimal_roundtrip',
          [scope, short], heads, 'config_str header')


def _check_const(case, fails):
  def fn(x=None):
    return x
  w = gin.external_configurable(fn, name='f', module='user')
  model = {}
  for name, val in case['consts']:
    try:   # gin.constant refuses a name that already resolves; the model just follows
      gin.constant(name, val)
      model[name] = val
    except ValueError:
      pass
  queries = sorted({s for n, _ in case['consts'] for s in _suffixes(n)} | {'zz.K'})

  def sweep(model, tag):
    for q in queries:
      want = _ref_matches(model, q)
      try:
        got = gin.query_parameter(q)
      except ValueError:
        got = _SENT
      try:   # an unknown %name is a macro without value: reported when it is used
        gin.parse_config('user.f.x = %' + q)
        via_ref = w()
      except Exception:  # pylint: disable=broad-except
        via_ref = _SENT
      if len(want) == 1:
        if got != model[want[0]] or via_ref != model[want[0]]:
          _fail(fails, 'exact_wins' if q in model else 'suffix_match',
                [q, model[want[0]]], [repr(got), repr(via_ref)], 'constant ' + tag)
      elif got is not _SENT or via_ref is not _SENT:
        _fail(fails, 'ambiguous_rejected' if want else 'unknown_reported', 'raise',
              [q, repr(got), repr(via_ref)], 'constant ' + tag)
  sweep(model, 'fresh')
  gin.clear_config()
  sweep(model, 'after clear_config')
  gin.clear_config(clear_constants=True)
  sweep({}, 'after clear_constants')
  # a reference spelling the macro configurable 'macro' is the key ('mm', 'gin.macro')
  gin.parse_config('mm = 7\nuser.f.x = @mm/macro()')
  try:
    gin.finalize()
    got = w()
  except ValueError as e:
    got = 'ValueError %s' % str(e)[:60]
  if got != 7:
    _fail(fails, 'spelling_same_key', 7, got, 'reference to macro by short name')


def check(case):
  fails = []
  {'map': _check_map, 'api': _check_api, 'const': _check_const}[case['mode']](case, fails)
  return fails


def nontrivial(case):
  return bool(case.get('ops') or case.get('names') or case.get('consts'))


# ----------------------------------------------------------------- enumeration
def _set_case(names):
  ops = [['set', 0, n, k + 1] for k, n in enumerate(names)]
  ops += [['pop', 0, n, 0] for n in names]
  return {'mode': 'map', 'ops': ops}


def _api_case(rng, names, fixed=None):
  fixed = fixed or {}
  reg = dict.fromkeys(names)
  target = fixed.get('target') or rng.choice(names)
  good = [s for s in _suffixes(target) if _ref_matches(reg, s) == [target]]
  pool = {s for n in names for s in _suffixes(n)}
  bad = sorted(s for s in pool if len(_ref_matches(reg, s)) > 1)
  case = {'mode': 'api', 'names': names, 'target': target, 's1': rng.choice(good),
          's2': rng.choice(good), 'w1': rng.choice(WRITES), 'w2': rng.choice(WRITES),
          'scope': rng.choice(['', 'sc', 'o/i']), 'arg2': rng.choice(['x', 'y']),
          'bad': bad[:2] + ['z.' + target, target.rsplit('.', 1)[0]]}
  case.update(fixed)
  return case


def _rand_names(rng, k):
  mods = _universe('abc', 2)
  out = set()
  while len(out) < k:
    out.add(rng.choice(mods) + '.' + rng.choice('fg'))
  return sorted(out)


def _rand_history(rng, uni):
  pool = rng.sample(uni, rng.randint(2, 5))
  if rng.random() < 0.5:   # bias towards names sharing inner components
    base = rng.choice(uni)
    pool += [base, 'a.' + base, 'b.' + base][:rng.randint(1, 3)]
  pool = [p for p in pool if p.count('.') <= 3]
  ops, v = [], 0
  for _ in range(rng.randint(2, 7)):
    v += 1
    op = rng.choice(['set', 'set', 'set', 'pop', 'pop', 'copy', 'clear', 'set_bad'])
    name = rng.choice(pool)
    if op == 'set_bad':
      name = rng.choice(['', 'a..b', '.a', 'a.', '1a', 'a b', 'a.$'])
    if op in ('copy', 'clear'):
      name = ''
    ops.append([op, rng.randint(0, 2), name, v])
  return {'mode': 'map', 'ops': ops}


def cases(tier, rng):
  # fixed corners: single chain, nested names, copy-then-diverge, remove-then-reinsert
  yield _set_case(['a.b.c'])
  yield _set_case(['a'])
  yield _set_case(['c', 'b.c', 'a.b.c'])
  yield _set_case(['a.b.c', 'b.c', 'c'])
  yield _set_case(['a.b.c', 'x.b.c', 'a.y.c'])
  yield {'mode': 'map', 'ops': [['set', 0, 'a.b', 1], ['copy', 0, '', 1],
                                 ['set', 0, 'c.b', 2], ['set', 1, 'a.a.b', 3],
                                 ['pop', 1, 'a.b', 0], ['clear', 0, '', 0]]}
  yield {'mode': 'map', 'ops': [['set', 0, 'a.b.c', 1], ['set', 0, 'b.b.c', 2],
                                 ['copy', 0, '', 2], ['pop', 0, 'a.b.c', 0],
                                 ['set', 1, 'c', 5], ['pop', 1, 'b.b.c', 0]]}
  yield {'mode': 'map', 'ops': [['set', 0, 'a.b.c', 1], ['set', 0, 'c', 2],
                                 ['pop', 0, 'c', 0], ['set', 0, 'b.c', 3],
                                 ['pop', 0, 'a.b.c', 0], ['set_bad', 0, 'a..b', 1]]}
  for w1 in WRITES:
    for w2 in WRITES:
      for names, t, s1, s2 in ((['a.b.f', 'c.b.f', 'b.f', 'a.g'], 'b.f', 'b.f', 'b.f'),
                               (['a.b.f', 'c.g', 'a.c.g'], 'a.b.f', 'f', 'a.b.f'),
                               (['a.b.f', 'c.g', 'a.c.g'], 'c.g', 'c.g', 'c.g')):
        yield _api_case(rng, names, {'target': t, 's1': s1, 's2': s2, 'w1': w1, 'w2': w2,
                                     'arg2': 'x'})
  yield {'mode': 'const', 'consts': [['m.K', 1], ['n.m.K', 2], ['L', 3], ['m.L', 4]]}
  yield {'mode': 'const', 'consts': [['a.b.K', 1], ['c.b.K', 2], ['K', 3]]}

  small = _universe('ab', 3) if tier == 'quick' else _universe('abc', 3)
  for k in range(1, (2 if tier == 'quick' else 3) + 1):
    for names in itertools.combinations(small, k):
      yield _set_case(list(names))
      if k > 1:
        yield _set_case(list(names)[::-1])
  uni = _universe('abc', 3)
  for _ in range(900 if tier == 'quick' else 60000):
    yield _rand_history(rng, uni)
  for _ in range(500 if tier == 'quick' else 12000):
    yield _api_case(rng, _rand_names(rng, rng.randint(2, 5)))
  for _ in range(60 if tier == 'quick' else 2000):   # two hooks, two spellings
    yield _api_case(rng, _rand_names(rng, rng.randint(2, 4)), {'w1': 'hook', 'w2': 'hook'})
  kuni = [m + '.' + k for m in _universe('mn', 2) for k in 'KL'] + ['K', 'L']
  for _ in range(40 if tier == 'quick' else 1500):
    ks = rng.sample(kuni, rng.randint(1, 4))
    yield {'mode': 'const', 'consts': [[k, i + 1] for i, k in enumerate(ks)]}
