"""C15 bounded stand-in: skip_unknown drops exactly the statements that target unknown names.

Oracle: a reference model written here.  `_expect` walks the statements and decides, from
the property alone, which are deleted (target unknown and covered by skip_unknown; import of
a missing module), which are an error (unknown name not covered) and which are applied; the
resulting store is evaluated by `_Eval` (scope overlay, macros, references) and compared with
what the real configurables receive when called.  In addition the reduced text (the text
minus the deleted statements) is parsed with skip_unknown=False in a fresh gin and must give
the same observations (differential form of the first sentence).
'known' is decided by this module: static mode -> the names registered in `_setup`; dynamic
registration -> resolvable through the imports of the file being parsed, whatever was
registered or parsed before.

Clause labels -> sentence of the property:
  equals_text_minus_unknown   "yields exactly the configuration obtained by deleting from the
                               text every binding and block whose target configurable is
                               unknown (or ... unknown and listed) and every import of a
                               missing module"
  known_always_applied        "bindings of known configurables are always applied"
  uncovered_unknown_is_error  "an unknown name not covered by the list is still an error"
                               (also: skip_unknown=False)
  placeholder_raises_on_use   "References to unknown configurables inside applied bindings are
                               kept as placeholders that raise a 'no configurable matching'
                               error when the value is used ... never silently dropped or
                               resolved to something else"
  placeholder_raises_at_finalize  "... and at finalize"

Late registration (static mode, cases with a 'late' entry): the text holds an `import` line
whose module registers the configurable L (`lm.late`) when it is imported -- a module file
written to a tempfile directory on sys.path under a fresh name for every parse, so that the
import really executes -- and targets L both before and after that line.  By the property a
statement is deleted iff its target is unknown when the statement is read: the bindings and
blocks of L above the import are deleted (or are an error when not covered), those below it
are applied (`known_always_applied`).  L is referenced (`@late`) only below the import.
"""
import importlib
import logging
import os
import shutil
import sys
import tempfile
import types

import gin
from gin import config as gc
from bounded import harness

BOUNDS = ('config texts of <= 6 statements (bindings, macros, 2-member blocks, imports) over 2 '
          'known configurables x 2 scopes, 3 unknown names, values int / @ref / @ref() / %macro / '
          'list holding a reference; skip_unknown in {False, True, list, tuple, set} with every '
          'subset of the unknown names (+ an unrelated name); static registration, and dynamic '
          'registration with 2 import spellings x {nothing, f, g, both} registered by an '
          'earlier parse; sampled.  Plus, static only: texts with one import line whose module '
          'registers a third configurable (2 parameters, 2 selector spellings, import with / '
          'without alias) on import, that configurable being targeted by 1-2 flat bindings or '
          'blocks before and 1-3 after the import among <= 4 other statements: 11 fixed texts '
          'x 6 skip_unknown values + 150 (quick) / 2500 (thorough) sampled')
EXHAUSTIVE = {'quick': False, 'thorough': False}

KNOWN = {'F': ['a', 'b', 'c'], 'G': ['x']}
CALLABLE = dict(KNOWN, L=['p', 'q'])   # L: registered by the import line of a 'late' case
LATE_SRC = ('import gin\n\n\n@gin.configurable(module="lm")\n'
            'def late(p=None, q=None):\n  return ["late", p, q]\n')
_LATE = {'dir': None, 'n': 0, 'name': None, 'made': []}
SCOPES = ['', 's1']
MATCH = 'no configurable matching'


def _fail(clause, expected, observed, signature):
  return {'clause': clause, 'expected': expected, 'observed': observed, 'signature': signature}


# ---- names and text -----------------------------------------------------------
def _names(case):
  """Symbol -> selector as written.  F, G are known; Z, Y, S are unknown in the parsed file
  (S: registered statically elsewhere but, under dynamic registration, not importable)."""
  if case['mode'] == 'static':
    return {'F': case.get('fsel', 'f'), 'G': 'g', 'Z': 'zz', 'Y': 'm.yy', 'S': 'nn',
            'L': case.get('late', {}).get('sel', 'late')}
  p = case['prefix']
  return {'F': p + '.f', 'G': p + '.g', 'Z': p + '.zz', 'Y': 'yy.f', 'S': 'sf'}


def _header(case):
  if case['mode'] == 'static':
    return ''
  imp = 'import c15mod as fm' if case['prefix'] == 'fm' else 'import c15mod'
  return 'from __gin__ import dynamic_registration\n%s\n' % imp


def _modname(m):
  """'LATE' stands for the module written by the last `_setup` (fresh name per parse)."""
  return _LATE['name'] if m == 'LATE' else m


def _new_late_module():
  if _LATE['dir'] is None:
    _LATE['dir'] = tempfile.mkdtemp(prefix='c15late')
    sys.path.insert(0, _LATE['dir'])
  _LATE['n'] += 1
  _LATE['name'] = 'c15late_%d_%d' % (os.getpid(), _LATE['n'])
  with open(os.path.join(_LATE['dir'], _LATE['name'] + '.py'), 'w') as fh:
    fh.write(LATE_SRC)
  _LATE['made'].append(_LATE['name'])
  importlib.invalidate_caches()


def _cleanup_late():
  for name in _LATE['made']:
    sys.modules.pop(name, None)
  if _LATE['dir'] is not None:
    if _LATE['dir'] in sys.path:
      sys.path.remove(_LATE['dir'])
    shutil.rmtree(_LATE['dir'], ignore_errors=True)
  _LATE.update(dir=None, name=None, made=[])
  importlib.invalidate_caches()


def _val(v, nm):
  if v[0] == 'int':
    return str(v[1])
  if v[0] == 'ref':     # ['ref', symbol, evaluate, scope]
    return '@%s%s%s' % (v[3] + '/' if v[3] else '', nm[v[1]], '()' if v[2] else '')
  if v[0] == 'macro':
    return '%' + v[1]
  return '[%s]' % ', '.join(_val(x, nm) for x in v[1])


def _lines(st, nm):
  k = st[0]
  if k == 'bind':       # ['bind', scope, symbol, arg, value]
    return ['%s%s.%s = %s' % (st[1] + '/' if st[1] else '', nm[st[2]], st[3], _val(st[4], nm))]
  if k == 'macro':      # ['macro', name, value]
    return ['%s = %s' % (st[1], _val(st[2], nm))]
  if k == 'block':      # ['block', scope, symbol, [[arg, value], ...]]
    return ['%s%s:' % (st[1] + '/' if st[1] else '', nm[st[2]])] + [
        '  %s = %s' % (a, _val(v, nm)) for a, v in st[3]]
  return ['import %s%s' % (_modname(st[1]), ' as %s' % st[2] if len(st) > 2 else '')]


def _text(case, stmts):
  nm = _names(case)
  return _header(case) + ''.join(l + '\n' for st in stmts for l in _lines(st, nm))


def _refs(v):
  if v[0] == 'ref':
    yield v
  elif v[0] == 'list':
    for x in v[1]:
      yield from _refs(x)


# ---- the property, executable --------------------------------------------------
def _covered(sym, case, nm):
  form = case['skip']['form']
  if form in ('true', 'false'):
    return form == 'true'
  return nm[sym] in case['skip']['names']


def _expect(case):
  """-> (kept statements, error symbol or None, existing imports)."""
  nm, kept, imports = _names(case), [], []
  known = set(KNOWN)    # grows when the import line of a 'late' case is passed
  truthy = case['skip']['form'] == 'true' or (
      case['skip']['form'] != 'false' and bool(case['skip']['names']))
  for st in case['stmts']:
    if st[0] == 'import':
      if st[1].startswith('c15_nope'):
        if not truthy:
          return kept, 'import', imports
        continue
      imports.append(st[1])
      kept.append(st)
      if st[1] == 'LATE':
        known.add('L')
      continue
    values = [st[2]] if st[0] == 'macro' else [st[4]] if st[0] == 'bind' else [v for _, v in st[3]]
    target = None if st[0] == 'macro' else st[2]
    dropped = target is not None and target not in known and _covered(target, case, nm)
    for v in values:
      for r in _refs(v):
        if r[1] not in known and not _covered(r[1], case, nm):
          return kept, r[1], imports      # (generation keeps these out of dropped statements)
    if target is not None and target not in known and not dropped:
      return kept, target, imports
    if not dropped:
      kept.append(st)
  return kept, None, imports


class _Unknown(Exception):
  pass


class _Eval:
  """Last-binding-wins store + what a call of F / G receives."""

  def __init__(self, stmts, nm):
    self.store, self.macros, self.nm, self.hit = {}, {}, nm, []
    for st in stmts:
      if st[0] == 'bind':
        self.store[(st[1], st[2], st[3])] = st[4]
      elif st[0] == 'block':
        for a, v in st[3]:
          self.store[(st[1], st[2], a)] = v
      elif st[0] == 'macro':
        self.macros[st[1]] = st[2]

  def value(self, v):
    if v[0] == 'int':
      return v[1]
    if v[0] == 'macro':
      return self.value(self.macros[v[1]])
    if v[0] == 'list':
      return [self.value(x) for x in v[1]]
    if v[1] not in CALLABLE:
      self.hit.append(self.nm[v[1]])    # a placeholder is reached: the call must fail
      return None
    return self.call('', v[1], top=False)      # G (and L when referenced): unscoped bindings only

  def call(self, scope, sym, top=True):
    if top:
      self.hit = []
    out = {}
    for p in CALLABLE[sym]:
      v = None
      for s in ([''] if not scope else ['', scope]):
        v = self.store.get((s, sym, p), v)
      out[p] = None if v is None else self.value(v)
    if top and self.hit:
      raise _Unknown(' '.join(sorted(set(self.hit))))
    return out if sym == 'F' else ['g', out['x']] if sym == 'G' else ['late', out['p'], out['q']]

  def holds_unknown(self):
    vals = list(self.store.values()) + list(self.macros.values())
    return sorted(set(self.nm[r[1]] for v in vals for r in _refs(v) if r[1] not in CALLABLE))


# ---- real gin ----------------------------------------------------------------
def _setup(case):
  def f(a=None, b=None, c=None):
    return {'a': a, 'b': b, 'c': c}

  def g(x=None):
    return ['g', x]

  def h(a=None):
    return a
  if case['mode'] == 'static':
    gin.external_configurable(f, name='f', module='m')
    gin.external_configurable(g, name='g', module='m')
    if 'late' in case:    # a fresh module per parse; L is reached through it once imported
      _new_late_module()
      name = _LATE['name']
      return {'F': f, 'G': g, 'L': lambda: sys.modules[name].late()}
    return {'F': f, 'G': g}
  mod = types.ModuleType('c15mod')
  f.__module__ = g.__module__ = 'c15mod'
  mod.f, mod.g = f, g
  sys.modules['c15mod'] = mod
  gin.external_configurable(h, name='sf', module='st')
  pre = [['bind', '', s, KNOWN[s][-1], ['int', 0]] for s in case['pre']]
  if pre:
    gin.parse_config(_text(case, pre))
  return {'F': f, 'G': g}


def _norm(v):
  if callable(v):
    return _norm(v())
  if isinstance(v, (list, tuple)):
    return [_norm(x) for x in v]
  if isinstance(v, dict):
    return {k: _norm(x) for k, x in v.items()}
  return v


def _observe(fns):
  out = {}
  for s in SCOPES:
    for sym, fn in fns.items():
      try:
        wrapper = fn if sym == 'L' else gin.get_configurable(fn)
      except ValueError:      # never registered: nothing can be bound to it
        wrapper = fn
      try:
        with gin.config_scope(s):
          out['%s/%s' % (s, sym)] = _norm(wrapper())
      except ValueError as e:
        if MATCH not in str(e).lower():
          raise
        out['%s/%s' % (s, sym)] = 'ERR ' + str(e).split('\n')[0]
  return out


def _want(ev, fns):
  out = {}
  for s in SCOPES:
    for sym in fns:
      try:
        out['%s/%s' % (s, sym)] = ev.call(s, sym)
      except _Unknown as u:
        out['%s/%s' % (s, sym)] = 'ERR ' + str(u)
  return out


def _skip_value(case):
  form, names = case['skip']['form'], case['skip'].get('names', [])
  return {'true': True, 'false': False, 'list': list(names), 'tuple': tuple(names),
          'set': set(names)}[form]


def _finalize():
  try:
    gin.finalize()
    return None
  except ValueError as e:
    if MATCH not in str(e).lower():
      raise
    return str(e).split('\n')[0]


def check(case):
  logging.disable(logging.CRITICAL)
  try:
    return _check(case)
  finally:
    logging.disable(logging.NOTSET)
    sys.modules.pop('c15mod', None)
    _cleanup_late()


def _check(case):
  fails, nm = [], _names(case)
  kept, error, imports = _expect(case)
  sig = 'mode=%s skip=%s%s' % (case['mode'], case['skip']['form'],
                               ' late_registering_import' if 'late' in case else '')
  if case['mode'] == 'dynamic':   # the kind of input, not the particular text
    used = _mentioned(case)
    sig = 'mode=dynamic skip=%s unregistered_importable=%s registered_unimportable=%s' % (
        'off' if case['skip']['form'] == 'false' else 'on',
        'yes' if (used & set(KNOWN)) - set(case['pre']) else 'no', 'yes' if 'S' in used else 'no')
  fns = _setup(case)
  pre = [['bind', '', s, KNOWN[s][-1], ['int', 0]] for s in case.get('pre', [])]
  exc = res = None
  try:
    res = gin.parse_config(_text(case, case['stmts']), skip_unknown=_skip_value(case))
  except Exception as e:    # classified below
    exc = e
  if error is not None:
    if exc is None:
      fails.append(_fail('uncovered_unknown_is_error', 'error for %s' % (
          'the missing import' if error == 'import' else nm[error]), 'parse succeeded',
                         sig + ' unknown=' + error))
    return fails
  if exc is not None:   # the model says: parse succeeds with the unknown statements deleted
    return [_fail('equals_text_minus_unknown', 'parse succeeds',
                  '%s: %s' % (type(exc).__name__, str(exc).split('\n')[0][:150]),
                  sig + ' exc=%s' % type(exc).__name__)]
  ev = _Eval(pre + kept, nm)
  want, got = _want(ev, fns), _observe(fns)
  for key in sorted(want):
    w, g = want[key], got[key]
    if w == g or (isinstance(w, str) and isinstance(g, str) and
                  any(name in g for name in w[4:].split())):
      continue
    if isinstance(w, str):      # a placeholder must make the call fail
      clause = 'placeholder_raises_on_use'
    elif isinstance(g, str):    # a reference the model resolves was turned into a placeholder
      clause = 'equals_text_minus_unknown'
    elif (isinstance(w, dict) and any(w[p] is not None and g[p] is None for p in w)) or (
        isinstance(w, list) and isinstance(g, list) and len(w) == len(g) and
        any(a is not None and b is None for a, b in zip(w, g))):   # a binding did not arrive
      clause = 'known_always_applied'
    else:
      clause = 'equals_text_minus_unknown'
    fails.append(_fail(clause, {key: w}, {key: g}, sig))
    break
  got_imports = [m for m in res[1] if not m.startswith('__gin__') and m != 'c15mod']
  imports = [_modname(m) for m in imports]   # the module name this parse saw
  if got_imports != imports:
    fails.append(_fail('equals_text_minus_unknown', imports, got_imports, sig + ' imports'))
  holds = ev.holds_unknown()
  fin = _finalize()
  if holds and (fin is None or not any(h in fin for h in holds)):
    fails.append(_fail('placeholder_raises_at_finalize', "ValueError '%s' naming one of %s" % (
        MATCH, holds), fin, sig))
  elif not holds and fin is not None and not fails:
    fails.append(_fail('equals_text_minus_unknown', 'finalize succeeds', fin, sig + ' finalize'))
  if not fails and not any(r[1] not in CALLABLE for st in kept for v in _all_values(st)
                           for r in _refs(v)):
    # differential: the reduced text with skip_unknown=False in a fresh gin
    harness.reset()
    fns = _setup(case)
    gin.parse_config(_text(case, kept), skip_unknown=False)
    again = _observe(fns)
    if again != got:
      fails.append(_fail('equals_text_minus_unknown', again, got, sig + ' view=reduced_text'))
  return fails


# ---- case generation ------------------------------------------------------------
def _rand_value(rng, n, unknowns, for_g=False, in_macro=False):
  r = rng.random()
  if r < 0.45:
    return ['int', n]
  if r < 0.65 and unknowns:
    return ['ref', rng.choice(unknowns), rng.random() < 0.6, rng.choice(['', '', 's2'])]
  if in_macro:
    return ['int', n]
  if r < 0.78:
    return ['macro', rng.choice(['M', 'N'])]
  if for_g:
    return ['int', n]
  if r < 0.9:
    return ['ref', 'G', rng.random() < 0.6, '']
  return ['list', [['int', n], _rand_value(rng, n, unknowns, for_g=True)]]


def _rand_case(rng, mode):
  case = {'mode': mode}
  unknown_syms = ['Z', 'Y'] + (['S'] if mode == 'dynamic' and rng.random() < 0.3 else [])
  if mode == 'static':
    case['fsel'] = rng.choice(['f', 'm.f'])
  else:
    case['prefix'] = rng.choice(['fm', 'c15mod'])
    case['pre'] = rng.choice([[], ['F'], ['G'], ['F', 'G'], ['F', 'G']])
  nm = _names(case)
  form = rng.choice(['false', 'true', 'true', 'list', 'tuple', 'set'])
  case['skip'] = {'form': form}
  if form in ('list', 'tuple', 'set'):
    case['skip']['names'] = sorted(rng.sample([nm[s] for s in unknown_syms] + ['other'],
                                              rng.randint(0, len(unknown_syms) + 1)))
    if rng.random() < 0.25:   # listing a known name changes nothing
      case['skip']['names'] = sorted(case['skip']['names'] + [nm[rng.choice(['F', 'G'])]])
  listed = [s for s in unknown_syms if form == 'true' or nm[s] in case['skip'].get('names', [])]
  stmts = []
  for i in range(rng.randint(1, 6)):
    n = 10 + i
    r = rng.random()
    scope = rng.choice(SCOPES)
    if r < 0.34:
      sym = rng.choice(['F', 'F', 'G'])
      scope = scope if sym == 'F' else ''
      stmts.append(['bind', scope, sym, rng.choice(KNOWN[sym]),
                    _rand_value(rng, n, unknown_syms, for_g=sym == 'G')])
    elif r < 0.56:
      sym = rng.choice(unknown_syms)
      # references inside a statement that is to be deleted are known or covered themselves
      stmts.append(['bind', scope, sym, 'q', _rand_value(rng, n, listed)])
    elif r < 0.68:
      stmts.append(['macro', rng.choice(['M', 'N']), _rand_value(rng, n, unknown_syms, in_macro=True)])
    elif r < 0.80:
      sym = rng.choice(['F', 'F'] + unknown_syms)
      args = ['a', 'b'] if sym == 'F' else ['p', 'q']
      vals = [_rand_value(rng, n + 20 * j, unknown_syms if sym == 'F' else listed) for j in (0, 1)]
      stmts.append(['block', scope, sym, [[a, v] for a, v in zip(args, vals)]])
    elif r < 0.90:
      stmts.append(['import', rng.choice(['math', 'json'])])
    else:
      stmts.append(['import', 'c15_nope%d' % rng.randint(1, 2)])
  if form != 'true' and form != 'false' and not case['skip']['names'] and any(
      s[0] == 'import' and s[1].startswith('c15_nope') for s in stmts):
    case['skip']['names'] = ['other']   # an empty list with a missing import is left out (unclear)
  used = set(v[1] for st in stmts for v in _all_values(st) if v[0] == 'macro')
  defined = set(st[1] for st in stmts if st[0] == 'macro')
  for m in sorted(used - defined):      # every macro that is used has a definition
    stmts.insert(rng.randint(0, len(stmts)), ['macro', m, ['int', 1]])
  case['stmts'] = stmts
  return case


def _late_fixed():
  """Texts targeting L above and below the import line that registers it."""
  i1, i2, i3, i5 = ['int', 1], ['int', 2], ['int', 3], ['int', 5]
  imp, lref = ['import', 'LATE'], ['ref', 'L', True, '']
  texts = [
      [['bind', '', 'L', 'p', i1], imp, ['bind', '', 'L', 'p', i2]],
      [['bind', '', 'L', 'p', i1], imp, ['bind', '', 'L', 'q', i2]],
      [['block', '', 'L', [['p', i1], ['q', i1]]], imp, ['block', '', 'L', [['q', i2]]]],
      [['bind', 's1', 'L', 'p', i1], imp, ['bind', 's1', 'L', 'p', i2], ['bind', '', 'L', 'q', i3]],
      [['bind', '', 'L', 'p', i1], imp, ['block', 's1', 'L', [['p', i2], ['q', i3]]]],
      [['block', 's1', 'L', [['p', i1]]], imp, ['bind', '', 'L', 'q', i2]],
      [['bind', '', 'Z', 'q', i1], ['bind', '', 'L', 'p', i1], ['bind', '', 'F', 'a', i1], imp,
       ['bind', '', 'Z', 'q', i2], ['bind', '', 'L', 'q', i5], ['bind', '', 'F', 'b', lref]],
      [['bind', '', 'L', 'q', i1], ['import', 'LATE', 'zq'], ['bind', '', 'F', 'c', ['ref', 'L', False, '']],
       ['bind', '', 'L', 'p', i3]],
      [['bind', '', 'L', 'p', i1], ['block', '', 'L', [['q', i1]]], ['import', 'math'], imp,
       ['import', 'c15_nope1'], ['bind', '', 'L', 'p', i2], ['bind', '', 'L', 'p', i3]],
      [['bind', '', 'L', 'p', ['ref', 'G', True, '']], ['bind', '', 'G', 'x', i5], imp,
       ['bind', '', 'L', 'q', ['ref', 'G', True, '']]],
      [imp, ['bind', '', 'L', 'p', i1], ['block', 's1', 'L', [['q', i2]]]],   # only below
  ]
  for k, stmts in enumerate(texts):
    sel = ['late', 'lm.late'][k % 2]
    for sk in ({'form': 'true'}, {'form': 'list', 'names': [sel]},
               {'form': 'tuple', 'names': ['other', sel]}, {'form': 'set', 'names': [sel, 'zz']},
               {'form': 'list', 'names': ['other', 'zz']}, {'form': 'false'}):
      yield {'mode': 'static', 'fsel': 'f', 'late': {'sel': sel}, 'skip': sk, 'stmts': stmts}


def _late_case(rng):
  sel = rng.choice(['late', 'lm.late'])
  case = {'mode': 'static', 'fsel': rng.choice(['f', 'm.f']), 'late': {'sel': sel}}
  nm = _names(case)
  form = rng.choice(['true', 'true', 'list', 'tuple', 'set', 'false'])
  case['skip'] = {'form': form}
  if form in ('list', 'tuple', 'set'):
    case['skip']['names'] = sorted(
        ([sel] if rng.random() < 0.8 else []) + rng.sample(['zz', 'm.yy', 'other'], rng.randint(0, 2)))
    if not case['skip']['names']:
      case['skip']['names'] = ['other']
  listed = [s for s in ('Z', 'Y') if form == 'true' or nm[s] in case['skip'].get('names', [])]
  with_ref = rng.random() < 0.4     # L is then bound unscoped only (see _Eval.value)
  n = [10]

  def on_late():
    n[0] += 1
    scope = '' if with_ref else rng.choice(SCOPES)
    val = ['int', n[0]] if rng.random() < 0.8 else ['ref', 'G', True, '']
    if rng.random() < 0.6:
      return ['bind', scope, 'L', rng.choice('pq'), val]
    return ['block', scope, 'L', [[a, ['int', n[0] + 20 * j]] for j, a in
                                  enumerate(rng.sample('pq', rng.randint(1, 2)))]]

  def other(after):
    n[0] += 1
    r = rng.random()
    if r < 0.45:
      v = ['ref', 'L', rng.random() < 0.6, ''] if after and with_ref and rng.random() < 0.7 else ['int', n[0]]
      return ['bind', rng.choice(SCOPES), 'F', rng.choice('abc'), v]
    if r < 0.6:
      return ['bind', '', 'G', 'x', ['int', n[0]]]
    if r < 0.85 or not listed:
      return ['bind', rng.choice(SCOPES), rng.choice(listed or ['F']), 'q' if listed else 'a', ['int', n[0]]]
    return ['import', rng.choice(['math', 'json'])]

  def part(k_late, after):
    sts = [on_late() for _ in range(k_late)] + [other(after) for _ in range(rng.randint(0, 2))]
    rng.shuffle(sts)
    return sts

  imp = ['import', 'LATE'] + (['zq'] if rng.random() < 0.3 else [])
  case['stmts'] = part(rng.randint(1, 2), False) + [imp] + part(rng.randint(1, 3), True)
  return case


def _all_values(st):
  top = [st[2]] if st[0] == 'macro' else [st[4]] if st[0] == 'bind' else (
      [v for _, v in st[3]] if st[0] == 'block' else [])
  for v in top:
    yield v
    if v[0] == 'list':
      yield from v[1]


def _mentioned(case):
  out = set()
  for st in case['stmts']:
    if st[0] in ('bind', 'block'):
      out.add(st[2])
    out.update(r[1] for v in _all_values(st) for r in _refs(v))
  return out


def _defect_prone(case):
  """Dynamic registration where something known through the imports is not registered yet
  (or something registered is not importable): the recorded C15 defect shows here; these
  cases run last so that the rest of the space is always covered."""
  used = _mentioned(case)
  return case['mode'] == 'dynamic' and case['skip']['form'] != 'false' and bool(
      (used & set(KNOWN)) - set(case['pre']) or 'S' in used)


def cases(tier, rng):
  t = ['int', 1]
  unk = ['ref', 'Z', True, '']
  fixed = [
      [['bind', '', 'Z', 'q', t], ['bind', '', 'F', 'a', t]],
      [['bind', '', 'F', 'a', unk], ['bind', 's1', 'F', 'b', ['int', 2]]],
      [['macro', 'M', unk], ['bind', '', 'F', 'a', ['macro', 'M']]],
      [['block', 's1', 'Z', [['p', t], ['q', unk]]], ['block', '', 'F', [['a', t], ['b', unk]]]],
      [['bind', '', 'F', 'a', ['list', [t, ['ref', 'Z', False, 's2']]]]],
      [['import', 'c15_nope1'], ['import', 'math'], ['bind', '', 'G', 'x', t],
       ['bind', '', 'F', 'c', ['ref', 'G', True, '']]],
  ]
  skips = [{'form': 'false'}, {'form': 'true'}, {'form': 'list', 'names': ['zz']},
           {'form': 'tuple', 'names': ['other', 'zz']}, {'form': 'set', 'names': ['other']}]
  for stmts in fixed:
    for sk in skips:
      yield {'mode': 'static', 'fsel': 'f', 'skip': sk, 'stmts': stmts}
  yield from _late_fixed()
  for _ in range(150 if tier == 'quick' else 2500):
    yield _late_case(rng)
  n_static, n_dyn = (700, 500) if tier == 'quick' else (12000, 9000)
  for _ in range(n_static):
    yield _rand_case(rng, 'static')
  late = []
  for _ in range(n_dyn):
    c = _rand_case(rng, 'dynamic')
    if _defect_prone(c):
      late.append(c)
    else:
      yield c
  for stmts in fixed[:2]:
    yield {'mode': 'dynamic', 'prefix': 'fm', 'pre': [], 'skip': {'form': 'true'}, 'stmts': stmts}
  for c in late:
    yield c


def nontrivial(case):
  return len(case['stmts']) > 0
