"""C05 bounded stand-in: macros and constants are late-bound named values.

Independent model.  Macros: a table name -> most recently parsed value expression,
updated statement by statement in source order (strings, lists of lines, files,
included files, files+bindings); a use '%n' evaluates, at call time, the expression
the table holds THEN (recursively; every '@g()' in it is one fresh run per use).
Constants: a plain dict name -> object; '%s' resolves to the name s itself if it is
defined, else to the unique defined name ending in '.'+s; several such names are an
error; none makes it an ordinary macro.

Clause labels -> sentence of the property:
  macro_latest_value     "'%name' always evaluates to the value most recently bound
                          to that macro anywhere in the parsed configuration, whether
                          that binding appears before or after the use"
  macro_reevaluates_ref  "a macro bound to an evaluated reference re-evaluates it at
                          every use"
  constant_identity      "a '%name' that matches a Python-defined constant yields that
                          very object" (also through containers and through a macro)
  constant_suffix        "a constant may be abbreviated to any unambiguous dotted
                          suffix of its name"
  constant_ambiguous     "an ambiguous abbreviation ... is an error"
  constant_invalid_name  "an invalid name ... is an error" (and defines nothing)
  constant_duplicate     "a duplicate definition is an error" (and changes nothing)
  constant_definable     a valid name that collides with nothing must be accepted
  finalize_rejects       "finalizing rejects a macro that is referenced but never
                          bound or referenced without being evaluated"
  finalize_accepts       converse: every referenced macro bound and evaluated => no error
"""
import enum
import os
import re
import shutil
import tempfile

import gin
from gin import config as gc

BOUNDS = ('macro mode: <= 3 parse calls (string / list of lines / file / file with an '
          'include / files_and_bindings), <= 5 statements each, over macro names '
          '{m,n,a,a/b,a/b/c,b} (acyclic value references; values: literals, containers, '
          '@g(), %other) and 4 consumers (bound at root, s/ or a/); every resolvable consumer is '
          'called twice after every parse call, then finalize (in 3 fixed cases inside a '
          'config_scope).  constant mode: <= 4 valid names out of 12 over {a,b,c}*.{X,Y} '
          '(optionally an enum), one duplicate / shadowing / invalid / fresh definition '
          'attempt, every dotted suffix of every defined or attempted name and of X, Y, '
          'a.X, q.X queried.  quick: 78 fixed + 1200 sampled cases; thorough: 40000 sampled.')
EXHAUSTIVE = {'quick': False, 'thorough': False}

MACROS = ['m', 'n', 'a', 'a/b', 'a/b/c', 'b']       # a value may only mention later names
HOWS = ['str', 'list', 'file', 'include', 'fab']
POOL = ['X', 'a.X', 'b.a.X', 'c.a.X', 'b.X', 'a.b.X', 'Y', 'a.Y', 'c.Y', 'b.c.Y', 'a.b.c.X',
        'c.b.c.Y']
INVALID = ['', '1a', 'a..X', 'a.', '.X', 'a/X', 'a X', 'a.X\n', 'a-X', '%X', 'a.X ', 'a.1']
VALID_RE = re.compile(r'([A-Za-z_][A-Za-z0-9_]*\.)*[A-Za-z_][A-Za-z0-9_]*\Z')


# ---------------------------------------------------------------- case generation
def _lit(rng, serial):
  serial[0] += 1
  v = serial[0]
  return {'t': 'lit', 'v': rng.choice([v, v, 'v%d' % v, [v], {'k': v}, None])}


def _expr(rng, serial, names, depth=0, in_use=False):
  r = rng.random()
  if depth < 2 and r < 0.2:
    t = rng.choice(['list', 'tuple', 'dict'])
    items = [_expr(rng, serial, names, depth + 1, in_use) for _ in range(rng.randint(1, 2))]
    node = {'t': t, 'i': items}
    if t == 'dict':
      node['k'] = ['k%d' % j for j in range(len(items))]
    return node
  if names and r < (0.75 if in_use else 0.45):
    n = rng.choice(names)
    if in_use and rng.random() < 0.07:
      return {'t': 'dkey', 'n': n}
    if in_use and depth == 0 and rng.random() < 0.05:
      return {'t': 'uneval', 'n': n, 'short': rng.random() < 0.5}
    return {'t': 'mac', 'n': n}
  if r < 0.85:
    return {'t': 'g'}
  return _lit(rng, serial)


def _macro_case(rng):
  serial = [0]
  steps = []
  for _ in range(rng.randint(1, 3)):
    stmts = []
    for _s in range(rng.randint(1, 5)):
      if rng.random() < 0.55:
        i = rng.randrange(len(MACROS))
        stmts.append({'k': 'def', 'name': MACROS[i],
                      'form': rng.choice(['plain', 'plain', 'macro.value', 'gin.macro.value']),
                      'val': _expr(rng, serial, MACROS[i + 1:])})
      else:
        stmts.append({'k': 'use', 'u': rng.randrange(4), 'scope': rng.choice(['', '', 's', 'a']),
                      'val': _expr(rng, serial, MACROS, in_use=True)})
    steps.append({'how': rng.choice(HOWS), 'split': rng.randint(0, len(stmts)), 'stmts': stmts})
  case = {'mode': 'macro', 'steps': steps, 'fin_scope': None}
  if _final_sites(case) == {'unbound-in-dictkey'}:
    # Known defect (finalize does not look at dict keys): reported by the fixed cases
    # only, so that it cannot use up the violation budget of a run.
    for step in steps:
      for s in step['stmts']:
        _undkey(s['val'])
  return case


def _undkey(e):
  if e['t'] == 'dkey':
    e['t'] = 'mac'
  for i in e.get('i', []):
    _undkey(i)


def _const_case(rng):
  names = rng.sample(POOL, rng.randint(1, 4))
  extra = rng.choice(['dup', 'shadow', 'invalid', 'fresh', 'enum', 'none'])
  attempt = None
  if extra == 'dup':
    attempt = rng.choice(names)
  elif extra == 'shadow':       # a proper dotted suffix of an existing name
    parts = rng.choice(names).split('.')
    attempt = '.'.join(parts[rng.randint(1, len(parts) - 1):]) if len(parts) > 1 else parts[0]
  elif extra == 'invalid':
    attempt = rng.choice([n for n in INVALID if not n.endswith('\n')])   # '\n': fixed cases
  elif extra == 'fresh':
    attempt = rng.choice(['Z', 'q.Z', 'X.q', 'a.Xx'])
  return {'mode': 'const', 'names': names, 'attempt': attempt, 'enum': extra == 'enum',
          'where': rng.randint(0, len(names)), 'via_macro': rng.random() < 0.3}


def _fixed_cases():
  use = lambda n, u=0: {'k': 'use', 'u': u, 'scope': '', 'val': {'t': 'mac', 'n': n}}
  dfn = lambda n, v, form='plain': {'k': 'def', 'name': n, 'form': form, 'val': v}
  lit = lambda v: {'t': 'lit', 'v': v}
  for n in MACROS:
    for how in HOWS:      # use before definition, redefinition in a later parse call / file
      yield {'mode': 'macro', 'fin_scope': None, 'steps': [
          {'how': how, 'split': 1,
           'stmts': [use(n), dfn(n, lit(1)), dfn(n, lit(2), 'macro.value')]},
          {'how': how, 'split': 0, 'stmts': [dfn(n, {'t': 'list', 'i': [{'t': 'g'}, lit(3)]})]},
          {'how': 'str', 'split': 0, 'stmts': [use('b' if n != 'b' else 'm', 1)]}]}
    yield {'mode': 'macro', 'fin_scope': None, 'steps': [      # definition, use, redefinition
        {'how': 'str', 'split': 0, 'stmts': [dfn(n, lit(1)), use(n), dfn(n, lit([2]))]},
        {'how': 'file', 'split': 0, 'stmts': [dfn(n, {'t': 'g'})]}]}
  for n in ('m', 'a/b'):         # include / files-then-bindings are processed in place
    for how in ('include', 'fab'):
      yield {'mode': 'macro', 'fin_scope': None, 'steps': [{'how': how, 'split': 2, 'stmts': [
          use(n), dfn(n, lit(1)), dfn(n, lit(2)), dfn(n, lit(3)), dfn(n, lit(4))]}]}
      yield {'mode': 'macro', 'fin_scope': None, 'steps': [{'how': how, 'split': 1, 'stmts': [
          dfn(n, lit(1)), dfn(n, lit(2)), dfn(n, lit(3)), use(n)]}]}
  for n in MACROS[:3]:
    yield {'mode': 'macro', 'fin_scope': None, 'steps': [{'how': 'str', 'split': 0, 'stmts': [
        dfn(n, lit(1)),
        {'k': 'use', 'u': 0, 'scope': '', 'val': {'t': 'uneval', 'n': n, 'short': False}}]}]}
    yield {'mode': 'macro', 'fin_scope': None, 'steps': [{'how': 'str', 'split': 0, 'stmts': [
        dfn(n, {'t': 'mac', 'n': 'b'})]}]}
    # a use as dict key (bound, then never bound)
    yield {'mode': 'macro', 'fin_scope': None, 'steps': [{'how': 'str', 'split': 0, 'stmts': [
        {'k': 'use', 'u': 0, 'scope': '', 'val': {'t': 'dkey', 'n': n}}] +
        ([dfn(n, lit(5))] if n == 'm' else [])}]}
  # finalize called while a config_scope is active: unbound / all bound / unevaluated
  for stmts in ([use('m')], [use('m'), dfn('m', lit(1))],
                [dfn('n', lit(1)), {'k': 'use', 'u': 0, 'scope': '', 'val':
                                    {'t': 'uneval', 'n': 'n', 'short': True}}]):
    yield {'mode': 'macro', 'fin_scope': 'q',
           'steps': [{'how': 'str', 'split': 0, 'stmts': stmts}]}
  for names in (['a.X', 'b.X'], ['X', 'a.X'], ['b.a.X', 'c.a.X', 'a.Y'],
                ['a.b.c.X', 'b.c.Y', 'c.b.c.Y']):
    for attempt in (None, names[0], 'X', 'a..X'):
      yield {'mode': 'const', 'names': names, 'attempt': attempt, 'enum': False,
             'where': len(names), 'via_macro': False}
  for attempt in ('a.X\n', 'Y\n'):
    yield {'mode': 'const', 'names': ['b.X'], 'attempt': attempt, 'enum': False, 'where': 1,
           'via_macro': False}
  yield {'mode': 'const', 'names': ['a.X'], 'attempt': None, 'enum': True, 'where': 1,
         'via_macro': True}


def cases(tier, rng):
  for c in _fixed_cases():
    yield c
  n = 1200 if tier == 'quick' else 40000
  for i in range(n):
    yield _const_case(rng) if i % 3 == 2 else _macro_case(rng)


def nontrivial(case):
  return bool(case.get('steps') or case.get('names'))


# ---------------------------------------------------------------- shared helpers
class _R:
  """Result of one run of the probe g (hashable, so it may also be a dict key)."""

  def __init__(self, idx):
    self.idx = idx


def _fail(fails, clause, expected, observed, sig):
  fails.append({'clause': clause, 'expected': expected, 'observed': observed,
                'signature': '%s %s' % (clause, sig)})


def _text(e):
  t = e['t']
  if t == 'lit':
    return repr(e['v'])
  if t == 'mac':
    return '%' + e['n']
  if t == 'g':
    return '@g()'
  if t == 'dkey':
    return '{%%%s: 1}' % e['n']
  if t == 'uneval':
    return '@%s/%s' % (e['n'], 'macro' if e['short'] else 'gin.macro')
  items = [_text(i) for i in e['i']]
  if t == 'list':
    return '[' + ', '.join(items) + ']'
  if t == 'tuple':
    return '(' + ', '.join(items) + (',' if len(items) == 1 else '') + ')'
  return '{' + ', '.join('%r: %s' % kv for kv in zip(e['k'], items)) + '}'


def _stmt_text(s):
  if s['k'] == 'def':
    key = s['name'] if s['form'] == 'plain' else '%s/%s' % (s['name'], s['form'])
  else:
    key = '%su%d.v' % (s['scope'] + '/' if s['scope'] else '', s['u'])
  return '%s = %s' % (key, _text(s['val']))


class _Unbound(Exception):
  pass


_G = ('<one fresh run of g>',)


def _model(e, table):
  """Expected delivery of expression e under the current macro table."""
  t = e['t']
  if t == 'lit':
    return e['v']
  if t == 'mac':
    if e['n'] not in table:
      raise _Unbound(e['n'])
    return _model(table[e['n']], table)
  if t == 'g':
    return _G
  if t == 'dkey':
    key = _model({'t': 'mac', 'n': e['n']}, table)
    hash(key)               # TypeError: an unhashable key cannot be delivered at all
    return {key: 1}
  if t == 'uneval':
    raise _Unbound('not called')
  items = [_model(i, table) for i in e['i']]
  return items if t == 'list' else tuple(items) if t == 'tuple' else dict(zip(e['k'], items))


def _match(want, got, runs):
  """Structural equality; every _G must be a distinct _R; collects their indices."""
  if want is _G:
    if not isinstance(got, _R) or got.idx in runs:
      return False
    runs.append(got.idx)
    return True
  if type(want) is not type(got):
    return False
  if isinstance(want, (list, tuple)):
    return len(want) == len(got) and all(_match(w, g, runs) for w, g in zip(want, got))
  if isinstance(want, dict):
    if len(want) != len(got):
      return False
    if len(want) == 1:                  # e.g. {%m: 1}: the key may contain g results
      (wk, wv), = want.items()
      (gk, gv), = got.items()
      return _match(wk, gk, runs) and _match(wv, gv, runs)
    return list(want) == list(got) and all(_match(want[k], got[k], runs) for k in want)
  return want == got


def _sites(e, table, out, where):
  """Kinds of places in which e refers to an unbound / unevaluated macro."""
  t = e['t']
  if t in ('mac', 'dkey') and e['n'] not in table:
    out.add('unbound-in-' + ('dictkey' if t == 'dkey' else where))
  elif t == 'uneval':
    out.add('unevaluated' + ('' if e['n'] in table else '-unbound'))
  for i in e.get('i', []):
    _sites(i, table, out, where)


def _show(v):
  if isinstance(v, _R) or v is _G:
    return '<g run>'
  if isinstance(v, (list, tuple)):
    return type(v)(_show(i) for i in v)
  if isinstance(v, dict):
    return {str(_show(k)): _show(i) for k, i in v.items()}
  return v


def _final_sites(case):
  table, uses = {}, {}
  for step in case['steps']:
    _apply(step, table, uses)
  return _all_sites(table, uses)


def _apply(step, table, uses):
  """Model of one parse call: statements take effect in source order (an included file
  in place of its include statement, files before the extra bindings)."""
  for s in step['stmts']:
    if s['k'] == 'def':
      table[s['name']] = s['val']
    else:
      uses[(s['scope'], s['u'])] = s['val']


def _all_sites(table, uses):
  sites = set()
  for e in uses.values():
    _sites(e, table, sites, 'value')
  for e in table.values():
    _sites(e, table, sites, 'macrovalue')
  return sites


# ---------------------------------------------------------------- macro mode
def _parse_step(step, tmp, idx):
  lines = [_stmt_text(s) for s in step['stmts']]
  how, k = step['how'], step['split']

  def write(name, body):
    path = os.path.join(tmp, name)
    with open(path, 'w') as fh:
      fh.write('\n'.join(body) + '\n')
    return path
  if how == 'str':
    gin.parse_config('\n'.join(lines) + '\n')
  elif how == 'list':
    gin.parse_config(lines)
  elif how == 'file':
    gin.parse_config_file(write('f%d.gin' % idx, lines))
  elif how == 'include':      # statements k, k+1 live in an included file
    inc = write('inc%d.gin' % idx, lines[k:k + 2])
    gin.parse_config_file(
        write('f%d.gin' % idx, lines[:k] + ['include %r' % inc] + lines[k + 2:]))
  else:
    gin.parse_config_files_and_bindings([write('f%d.gin' % idx, lines[:k])], lines[k:],
                                        finalize_config=False)


def _check_macro(case, fails):
  runs_log = []

  def g():
    runs_log.append(gc.current_scope())
    return _R(len(runs_log) - 1)
  gin.external_configurable(g, name='g', module='pm')
  users = [gin.external_configurable((lambda v='unset': v), name='u%d' % i, module='um')
           for i in range(4)]
  table, uses = {}, {}
  tmp = tempfile.mkdtemp(prefix='bC05_')
  try:
    for idx, step in enumerate(case['steps']):
      _parse_step(step, tmp, idx)
      _apply(step, table, uses)
      order = 'first parse call' if idx == 0 else 'later parse call'
      for scope in ('', 's', 'a'):   # 'a' is also a macro name: '%b' there is still 'b'
        for u in range(4):
          e = uses.get((scope, u), uses.get(('', u)))
          if e is None:
            continue
          for _rep in range(2):
            try:
              want = _model(e, table)
            except (_Unbound, TypeError):
              break
            lo = len(runs_log)
            try:
              with gin.config_scope(scope or None):
                got = users[u]()
            except Exception as exc:  # pylint: disable=broad-except
              _fail(fails, 'macro_latest_value', _show(want), repr(exc)[:160],
                    'raised ' + type(exc).__name__)
              break
            runs = []
            ok = _match(want, got, runs)
            n_runs = len(runs_log) - lo
            if ok and (n_runs != len(runs) or any(not lo <= r < lo + n_runs for r in runs)):
              _fail(fails, 'macro_reevaluates_ref', '%d fresh runs of g for this use' % len(runs),
                    '%d runs, results of runs %s' % (n_runs, [r - lo for r in runs]),
                    'rep=%d' % _rep)
            elif not ok:
              stale = any(isinstance(x, _R) and x.idx < lo for x in _flat(got))
              _fail(fails, 'macro_reevaluates_ref' if stale else 'macro_latest_value',
                    _show(want), _show(got), 'how=%s %s' % (step['how'], order))
            if not ok:
              break
  finally:
    shutil.rmtree(tmp, ignore_errors=True)
  # finalize
  sites = _all_sites(table, uses)
  sig = ('inside-config_scope' if case['fin_scope'] else
         'dictkey-only' if sites == {'unbound-in-dictkey'} else
         'sites=%s' % (','.join(sorted(sites)) or '-'))
  try:
    with gin.config_scope(case['fin_scope']):
      gin.finalize()
    raised = None
  except Exception as e:  # pylint: disable=broad-except
    raised = e
  if sites and raised is None:
    _fail(fails, 'finalize_rejects', 'an error (%s)' % ','.join(sorted(sites)),
          'finalize() returned', sig)
  elif not sites and raised is not None:
    _fail(fails, 'finalize_accepts', 'no error', repr(raised)[:200], sig)


def _flat(v):
  if isinstance(v, dict):
    v = list(v.keys()) + list(v.values())
  if isinstance(v, (list, tuple)):
    for i in v:
      for j in _flat(i):
        yield j
  else:
    yield v


# ---------------------------------------------------------------- constant mode
def _resolve(store, s):
  """-> list of matching full names (the property's reading of 'dotted suffix')."""
  if s in store:
    return [s]
  return [n for n in store if n.endswith('.' + s)]


def _define(store, name, obj, fails):
  """gin.constant(name, obj) checked against, and recorded in, the model `store`."""
  try:
    gin.constant(name, obj)
    err = None
  except Exception as e:  # pylint: disable=broad-except
    err = e
  valid = isinstance(name, str) and bool(VALID_RE.match(name))
  shadows = valid and name not in store and bool(_resolve(store, name))
  if not valid:
    if err is None:
      kind = 'trailing-newline' if name.endswith('\n') and VALID_RE.match(name[:-1]) else 'other'
      _fail(fails, 'constant_invalid_name', 'an error for %r' % name, 'accepted', kind)
      if kind == 'trailing-newline':
        store[name] = obj       # follow the implementation so that later checks stay exact
  elif name in store:
    if err is None:
      _fail(fails, 'constant_duplicate', 'an error for a second %r' % name, 'accepted', 'exact')
      store[name] = obj
  elif shadows:
    # 'X' while 'a.X' exists: the statement allows either outcome; follow the implementation
    if err is None:
      store[name] = obj
  elif err is not None:
    _fail(fails, 'constant_definable', '%r defined' % name, repr(err)[:160],
          'longer-than-existing' if any(name.endswith('.' + n) for n in store) else 'unrelated')
  else:
    store[name] = obj


def _check_const(case, fails):
  user = gin.external_configurable((lambda v='unset': v), name='u0', module='um')
  store = {}
  objs = {}

  def obj(name):
    objs[name] = ['constant', name, len(objs)]      # mutable, compared by identity
    return objs[name]
  plan = list(case['names'])
  if case['attempt'] is not None:
    plan.insert(case['where'], case['attempt'])
  for name in plan:
    _define(store, name, obj(name), fails)
  if case['enum']:
    class Color(enum.Enum):
      X = 1
      RED = 2
    gin.constants_from_enum(Color, module='c.a')
    for member in Color:
      store['c.a.Color.' + member.name] = member
    try:
      gin.constants_from_enum(Color, module='c.a')
    except ValueError:
      pass
    else:
      _fail(fails, 'constant_duplicate', 'an error for a second registration of the enum',
            'accepted', 'enum')
  # every dotted suffix resolves as the model says, to the object of the accepted definition
  queries = set()
  for n in list(store) + case['names'] + ['X', 'Y', 'a.X', 'q.X']:
    parts = n.rstrip('\n').split('.')
    queries.update('.'.join(parts[i:]) for i in range(len(parts)))
  for q in sorted(queries):
    gin.clear_config()
    matches = _resolve(store, q)
    ref = '%m' if case['via_macro'] else '%' + q
    text = ('m = %' + q + '\n' if case['via_macro'] else '') + (
        'u0.v = [' + ref + ', {"k": ' + ref + '}]')
    sig = 'matches=%s exact=%s' % (min(len(matches), 2), q in store)
    try:
      gin.parse_config(text)
      err = None
    except Exception as e:  # pylint: disable=broad-except
      err = e
    if len(matches) > 1:
      if err is None:
        _fail(fails, 'constant_ambiguous', 'an error: %%%s matches %s' % (q, sorted(matches)),
              'parsed', sig)
      continue
    if err is not None:
      _fail(fails, 'constant_suffix' if matches else 'macro_latest_value',
            '%%%s accepted (%s)' % (q, matches or 'plain macro'), repr(err)[:160], sig)
      continue
    if not matches:             # no constant: an ordinary, unbound macro
      try:
        gin.finalize()
      except Exception:  # pylint: disable=broad-except
        continue
      _fail(fails, 'finalize_rejects', 'an error: %%%s is not bound' % q, 'finalize() returned',
            'sites=nonconstant')
      continue
    want = store[matches[0]]
    for _rep in range(2):
      try:
        got = user()
      except Exception as e:  # pylint: disable=broad-except
        got = e
      ok = (isinstance(got, list) and len(got) == 2 and isinstance(got[1], dict) and
            got[0] is want and got[1].get('k') is want)
      if not ok:
        same_value = isinstance(got, list) and got and got[0] == want
        _fail(fails, 'constant_identity' if same_value else 'constant_suffix',
              'the object defined as %r, twice' % matches[0], repr(got)[:160],
              sig + ' via_macro=%s' % case['via_macro'])
        break
    try:
      gin.finalize()
    except Exception as e:  # pylint: disable=broad-except
      _fail(fails, 'finalize_accepts', 'no error', repr(e)[:160], 'constant use')


def check(case):
  fails = []
  if case['mode'] == 'macro':
    _check_macro(case, fails)
  else:
    _check_const(case, fails)
  return fails
