"""C03 bounded stand-in: statements are recovered exactly, whatever the layout.

A statement list is generated as data (the model), rendered to config text in a layout,
and the text is read back through the real `config_parser.ConfigParser` and the real
`gin.parse_config`.  The oracle is the model itself (plus CPython's `ast.literal_eval`
for literal values) and a differential run on the canonical one-statement-per-line
rendering of the same model; gin is never compared with itself on the same text.

Clause labels (sentence of the property each one stands for):
  statements_recovered     "A config text is read as exactly the sequence of statements it
                           spells: parameter bindings (scope, configurable, parameter,
                           value), macro definitions, imports in all four forms with their
                           aliases, and includes, regardless of blank lines, comments,
                           backslash continuations, spacing around '=' and whether bindings
                           are written flat or grouped in an indented block" -- the
                           ConfigParser stream equals the model, in order (a block yields
                           its header, then its members with the header's scope/selector).
  layout_accepted          same sentence: a legal rendering must not be rejected.
  same_configuration       "Two layouts of the same statements therefore produce the same
                           configuration": config_str() after parse_config(layout) equals
                           config_str() after parse_config(canonical flat rendering).
  values_bound             same sentence, against the model: every literal binding / macro
                           of the model (last one wins) is what query_parameter returns.
  malformed_name_rejected  "Scoped names containing internal whitespace, empty components
                           or misplaced separators are rejected rather than silently
                           repaired": parser and parse_config raise, nothing gets bound.
                           Kinds `continuation_inside:*`: the internal whitespace is a
                           backslash-newline between two tokens of the name (after or before
                           a '/' or '.'), with 0-8 blanks before the backslash and the
                           continuation line indented by 0..24 columns; a continuation does
                           not make the name legal, so each of them must be refused with the
                           SyntaxError of the other malformed names, at every indentation.
"""
import ast
import os
import random
import shutil
import tempfile

import gin
from gin import config_parser as cp

BOUNDS = ('statement lists of 1..6 statements over 9 statement kinds (binding with 0-2 scope '
          'parts, 5 selector spellings x 4 parameters, macro with/without scope, the 4 import '
          'forms, include), values from 16 literals, @references, %macros and containers of '
          'them to depth 2; 8 named layouts (plain, blank_lines, comments, continuations, '
          'spacing, block, block_messy, everything) with seeded decoration, each with/without '
          'final newline; 31 malformed-name patterns (inner blank x 3 blank kinds, empty '
          'component, misplaced separator) x 6 positions = 185 texts; a backslash-newline '
          'inside a scoped name: 19 (position, break point) patterns x 5 widths of blanks before '
          'the backslash x continuation indents 0..24 = 2375 texts, plus 150 (quick) / 2000 '
          '(thorough) seeded ones (1-3 scope parts, 1-3 selector parts, any break point, '
          'indent of blanks or tabs); 3 import-alias pairs x '
          '16 blank-line offsets. quick: 1500 lists (one layout each, all 8 for the first 60); '
          'thorough: 8000 lists x 8 layouts.')
EXHAUSTIVE = {'quick': False, 'thorough': False}

LAYOUTS = ['plain', 'blank_lines', 'comments', 'continuations', 'spacing', 'block',
           'block_messy', 'everything']
SCOPES = ['', '', 'a', 'a/b', 'train/eval_1']
SELECTORS = ['x', 'cm.x', 'y', 'other.pkg.z', 'z']
FULL_NAME = {'x': 'cm.x', 'cm.x': 'cm.x', 'y': 'cm.y', 'z': 'other.pkg.z',
             'other.pkg.z': 'other.pkg.z'}   # as registered by _register()
ARGS = ['p', 'q', 'r', 's']
LITS = ['1', '-2.5', "'s'", '"# not a comment"', "'a = b: c'", 'None', 'True', '(1, 2)',
        '[]', "{'k': [1, 2]}", "'''two\nlines'''", "'x.p = 9'", '0x10', "'it''s'",
        "'\\\\'", '()']
IMPORTS = [('os.path', None), ('json', 'j'), ('os.path', 'osp'), ('collections', None)]
FROMS = [('os', 'path', None), ('os', 'path', 'pth'), ('collections', 'abc', 'cabc'),
         ('xml.etree', 'ElementTree', None), ('json', 'decoder', 'dec')]
INCLUDES = {'inc0.gin': 'x.u = 10\n', 'inc1.gin': "y.u = 11\nincm = 'from include'\n"}
COMMENTS = ['# c', '#', '# x.p = 99', "# 'unterminated", '# [ (', '# ends with \\',
            '#: a/b/x:', '#\tinclude "nope.gin"']


# ---------------------------------------------------------------- model generation
def _gen_value(rng, depth=0):
  r = rng.random()
  if depth < 2 and r < 0.25:
    kind = rng.choice(['list', 'tuple', 'dict'])
    n = rng.choice([1, 2, 3])
    if kind == 'dict':
      return {'t': 'dict', 'items': [[{'t': 'lit', 'src': rng.choice(["'k'", '1', "'k2'", '(1, 2)'])},
                                      _gen_value(rng, depth + 1)] for _ in range(n)]}
    return {'t': kind, 'items': [_gen_value(rng, depth + 1) for _ in range(n)]}
  if r < 0.4:
    return {'t': 'ref', 'name': rng.choice(['y', 'cm.x', 'sc/y', 'a/b/other.pkg.z']),
            'call': rng.random() < 0.5}
  if r < 0.5:
    return {'t': 'macro', 'name': rng.choice(['m', 'sc/m', 'a/b/m2'])}
  return {'t': 'lit', 'src': rng.choice(LITS)}


def _gen_stmts(rng):
  n = rng.choice([1, 2, 3, 4, 5, 6, 6])
  out = []
  aliases = {}   # one alias per (module, style) in a list: see mode 'import_tie'
  while len(out) < n:
    r = rng.random()
    if r < 0.55:
      scope, sel = rng.choice(SCOPES), rng.choice(SELECTORS)
      for _ in range(rng.choice([1, 1, 2, 3])):   # runs that can form a block
        if len(out) < n:
          out.append({'k': 'bind', 'scope': scope, 'sel': sel, 'arg': rng.choice(ARGS),
                      'val': _gen_value(rng)})
    elif r < 0.7:
      out.append({'k': 'macro', 'name': rng.choice(['m', 'sc/m', 'a/b/m2', 'M_3']),
                  'val': _gen_value(rng)})
    elif r < 0.8:
      m, a = rng.choice(IMPORTS)
      a = aliases.setdefault(('import', m), a)
      out.append({'k': 'import', 'module': m, 'alias': a})
    elif r < 0.9:
      m, nm, a = rng.choice(FROMS)
      a = aliases.setdefault(('from', m, nm), a)
      out.append({'k': 'from', 'module': m, 'name': nm, 'alias': a})
    else:
      out.append({'k': 'include', 'file': rng.choice(sorted(INCLUDES))})
  return out


def _layout(name, rng):
  lay = {'name': name, 'seed': rng.randrange(10 ** 6), 'eol': rng.random() < 0.7,
         'blank': 0.0, 'comment': 0.0, 'cont': 0.0, 'eq': [' = '], 'block': False,
         'indent': ['  '], 'multiline': 0.0, 'gap': [' ']}
  if name in ('blank_lines', 'everything'):
    lay['blank'] = 0.6
  if name in ('comments', 'block_messy', 'everything'):
    lay['comment'] = 0.5
    lay['multiline'] = 0.5
  if name in ('continuations', 'everything'):
    lay['cont'] = 0.6
  if name in ('spacing', 'everything'):
    lay['eq'] = ['=', ' = ', '   =   ', '\t=\t', ' =', '= ']
    lay['gap'] = [' ', '   ', '\t']
  if name in ('block', 'block_messy', 'everything'):
    lay['block'] = True
    lay['indent'] = ['  ', ' ', '    ', '\t', '        ']
  if name == 'block_messy':
    lay['blank'] = 0.5
  return lay


def cases(tier, rng):
  for kind, text in _bad_names():
    yield {'mode': 'bad', 'kind': kind, 'text': text}
  for kind, text in _broken_by_continuation():
    yield {'mode': 'bad', 'kind': kind, 'text': text}
  for _ in range(150 if tier == 'quick' else 2000):
    yield dict(zip(('kind', 'text'), _seeded_continuation(rng)), mode='bad')
  # the same module imported twice in the same style under two aliases
  for pair in (['from os import path', 'from os import path as pth'],
               ['import os.path as osp', 'import os.path'],
               ['from json import decoder as d1', 'from json import decoder as d2']):
    yield {'mode': 'import_tie', 'lines': pair}
  n = 1500 if tier == 'quick' else 8000
  for i in range(n):
    stmts = _gen_stmts(rng)
    names = LAYOUTS if (tier != 'quick' or i < 60) else [LAYOUTS[i % len(LAYOUTS)]]
    for name in names:
      yield {'mode': 'layout', 'stmts': stmts, 'layout': _layout(name, rng)}


def nontrivial(case):
  return case['mode'] != 'layout' or case['layout']['name'] != 'plain' or len(case['stmts']) > 1


def _bad_names():
  out = []
  for ws in (' ', '\t', '  '):
    defects = [('inner_blank', 'a' + ws + '/NAME'), ('inner_blank', 'a/' + ws + 'NAME'),
               ('inner_blank', 'a/b' + ws + '/NAME'), ('inner_blank', 'cm' + ws + '.NAME'),
               ('inner_blank', 'cm.' + ws + 'NAME'), ('inner_blank', 'a' + ws + '/' + ws + 'NAME')]
    if ws == ' ':
      defects += [('empty_component', 'a//NAME'), ('empty_component', 'a///NAME'),
                  ('empty_component', 'cm..NAME'), ('empty_component', 'a/b//cm.NAME'),
                  ('misplaced_separator', '/NAME'), ('misplaced_separator', '.NAME'),
                  ('misplaced_separator', 'a/.NAME'), ('misplaced_separator', 'a./NAME'),
                  ('misplaced_separator', 'NAME.'), ('misplaced_separator', 'NAME/'),
                  ('misplaced_separator', 'a/NAME/'), ('misplaced_separator', '/a/NAME'),
                  ('misplaced_separator', 'a/NAME./b')]
    for kind, pat in defects:
      name = pat.replace('NAME', 'x')
      out.append((kind + ':key', '%s.p = 1\n' % name))
      if not pat.endswith('NAME.'):      # `x.:` + '.p' would be the same key test
        out.append((kind + ':block', '%s:\n  p = 1\n' % name))
      out.append((kind + ':macro_def', '%s = 1\n' % pat.replace('NAME', 'm')))
      out.append((kind + ':ref', 'x.p = @%s\n' % name))
      out.append((kind + ':ref_call', 'x.p = [@%s()]\n' % name))
      out.append((kind + ':macro_use', 'x.p = %%%s\n' % pat.replace('NAME', 'm')))
  seen, uniq = set(), []
  for item in out:
    if item[1] not in seen:
      seen.add(item[1])
      uniq.append(item)
  return uniq


# (position, text up to the break, text after it): the break sits between two tokens of one
# scoped name -- after or before a '/' or a '.'
_BREAKS = [
    ('key', 'a/', 'x.p = 1'), ('key', 'a', '/x.p = 1'), ('key', 'cm.', 'x.p = 1'),
    ('key', 'cm', '.x.p = 1'), ('key', 'a/b/', 'cm.x.p = 1'), ('key', 'a/cm.x.', 'p = 1'),
    ('block', 'a/', 'x:\n  p = 1'), ('block', 'cm.', 'x:\n  p = 1'),
    ('macro_def', 'a/', 'm = 1'), ('macro_def', 'a', '/m = 1'),
    ('ref', 'x.p = @a/', 'y'), ('ref', 'x.p = @cm.', 'y'), ('ref', 'x.p = @a', '/y'),
    ('ref', 'x.p = @a/cm', '.y'),
    ('ref_call', 'x.p = [@a/', 'y()]'), ('ref_call', 'x.p = [@cm.', 'y()]'),
    ('macro_use', 'x.p = %a/', 'm'), ('macro_use', 'x.p = %a', '/m'), ('macro_use', 'x.p = %cm.', 'm'),
]


def _broken_by_continuation():
  for pos, head, tail in _BREAKS:
    for pad in (0, 1, 2, 3, 8):          # blanks between the last token and the backslash
      for width in range(25):            # indentation of the continuation line
        yield ('continuation_inside:' + pos,
               '%s%s\\\n%s%s\n' % (head, ' ' * pad, ' ' * width, tail))


def _seeded_continuation(rng):
  tokens = []
  for part in rng.sample(['a', 'b', 'sc', 'train', 'eval_1'], rng.randint(0, 3)):
    tokens += [part, '/']
  for part in rng.sample(['cm', 'other', 'pkg'], rng.randint(0, 2)):
    tokens += [part, '.']
  pos = rng.choice(['key', 'block', 'macro_def', 'ref', 'ref_call', 'macro_use'])
  tokens.append('m' if pos.startswith('macro') else 'x')
  if pos == 'key':
    tokens += ['.', 'p']
  if len(tokens) == 1:
    tokens = ['a', '/'] + tokens
  cut = rng.randint(1, len(tokens) - 1)
  indent = ' ' * rng.randint(0, 24) if rng.random() < 0.8 else '\t' * rng.randint(1, 3)
  name = (''.join(tokens[:cut]) + rng.choice(['', ' ', '  ', '\t', ' ' * rng.randint(3, 12)]) + '\\\n' +
          indent + ''.join(tokens[cut:]))
  lead = rng.choice(['', '', '\n', '# c\n', '\n\n# x.p = 9\n'])
  text = {'key': '%s = 1\n', 'block': '%s:\n  p = 1\n', 'macro_def': '%s = 1\n', 'ref': 'x.p = @%s\n',
          'ref_call': 'x.p = [@%s()]\n', 'macro_use': 'x.p = %%%s\n'}[pos] % name
  return 'continuation_inside:' + pos, lead + text


# ---------------------------------------------------------------- rendering
def _rv(v, lay, rnd, indent):
  t = v['t']
  if t == 'lit':
    return v['src']
  if t == 'ref':
    return '@' + v['name'] + ('()' if v['call'] else '')
  if t == 'macro':
    return '%' + v['name']
  op, cl = {'list': '[]', 'tuple': '()', 'dict': '{}'}[t]
  inner = indent + '    '
  if t == 'dict':
    items = [_rv(k, lay, rnd, inner) + ': ' + _rv(w, lay, rnd, inner) for k, w in v['items']]
  else:
    items = [_rv(e, lay, rnd, inner) for e in v['items']]
  tail = ',' if (t == 'tuple' and len(items) == 1) else ''
  if rnd.random() < lay['multiline']:
    parts = []
    for i, it in enumerate(items):
      sep = ',' if i + 1 < len(items) or tail or rnd.random() < 0.5 else ''
      com = '  ' + rnd.choice(COMMENTS) if rnd.random() < lay['comment'] else ''
      parts.append(rnd.choice([inner, '', indent]) + it + sep + com)
    return op + '\n' + '\n'.join(parts) + '\n' + rnd.choice([indent, '', inner]) + cl
  return op + ', '.join(items) + tail + cl


def _assign(lhs, v, lay, rnd, indent):
  eq = rnd.choice(lay['eq'])
  if rnd.random() < lay['cont']:
    eq = rnd.choice([eq.rstrip() + ' \\\n' + indent + rnd.choice(['', '  ', '      ']),
                     ' \\\n' + indent + ' ' + eq.lstrip()])
  return indent + lhs + eq + _rv(v, lay, rnd, indent)


def _words(words, lay, rnd):
  out = words[0]
  for w in words[1:]:
    out += (' \\\n' + rnd.choice([' ', '    ']) if rnd.random() < lay['cont'] * 0.5
            else rnd.choice(lay['gap'])) + w
  return out


def render(stmts, lay, incdir=''):
  """Returns (text, expected statement stream); include files are spelled under `incdir`."""
  rnd = random.Random(lay['seed'])
  lines, expected = [], []

  def decorate(indent=''):
    while rnd.random() < lay['blank']:
      lines.append(rnd.choice(['', '', '   ', '\t']))
    while rnd.random() < lay['comment']:
      lines.append(rnd.choice([indent, '', indent + '   ']) + rnd.choice(COMMENTS))
      if rnd.random() < lay['blank']:
        lines.append('')

  def trailing():
    return rnd.choice(['  ', ' ', '']) + rnd.choice(COMMENTS) if rnd.random() < lay['comment'] else ''

  i = 0
  while i < len(stmts):
    s = stmts[i]
    decorate()
    if s['k'] == 'bind':
      key = (s['scope'] + '/' if s['scope'] else '') + s['sel']
      j = i + 1
      while (j < len(stmts) and stmts[j]['k'] == 'bind' and
             (stmts[j]['scope'], stmts[j]['sel']) == (s['scope'], s['sel'])):
        j += 1
      if lay['block'] and rnd.random() < 0.8:
        j = rnd.randint(i + 1, j)          # the block takes a prefix of the run
        indent = rnd.choice(lay['indent'])
        lines.append(key + ':' + trailing())
        expected.append(['block', s['scope'], s['sel']])
        for m in stmts[i:j]:
          decorate(indent)
          lines.append(_assign(m['arg'], m['val'], lay, rnd, indent) + trailing())
          expected.append(['bind', m['scope'], m['sel'], m['arg'], _model_value(m['val'])])
        if rnd.random() < lay['comment']:
          lines.append(indent + rnd.choice(COMMENTS))
        i = j
        continue
      lines.append(_assign(key + '.' + s['arg'], s['val'], lay, rnd, '') + trailing())
      expected.append(['bind', s['scope'], s['sel'], s['arg'], _model_value(s['val'])])
    elif s['k'] == 'macro':
      lines.append(_assign(s['name'], s['val'], lay, rnd, '') + trailing())
      expected.append(['macro', s['name'], _model_value(s['val'])])
    elif s['k'] == 'import':
      words = ['import', s['module']] + (['as', s['alias']] if s['alias'] else [])
      lines.append(_words(words, lay, rnd) + trailing())
      expected.append(['import', s['module'], s['alias']])
    elif s['k'] == 'from':
      words = ['from', s['module'], 'import', s['name']] + (['as', s['alias']] if s['alias'] else [])
      lines.append(_words(words, lay, rnd) + trailing())
      expected.append(['from', s['module'], s['name'], s['alias']])
    else:
      quote = rnd.choice('\'"')
      lines.append(_words(['include', quote + os.path.join(incdir, s['file']) + quote], lay, rnd)
                   + trailing())
      expected.append(['include', os.path.join(incdir, s['file'])])
    i += 1
  decorate()
  text = '\n'.join(lines)
  if lay['eol'] or text.endswith('\\'):    # a final comment ending in '\' needs its newline
    text += '\n'
  return text, expected


# ---------------------------------------------------------------- the oracle
def _model_value(v):
  t = v['t']
  if t == 'lit':
    return _typed(ast.literal_eval(v['src']))
  if t == 'ref':
    return ['ref', v['name'], v['call']]
  if t == 'macro':
    return ['macroref', v['name']]
  if t == 'dict':
    return ['dict', [[_model_value(k), _model_value(w)] for k, w in _last_wins(v['items'])]]
  return [t, [_model_value(e) for e in v['items']]]


def _last_wins(items):
  out = {}
  for k, w in items:
    out[repr(k)] = [k, w]
  return list(out.values())


class _Ref(object):
  def __init__(self, *parts):
    self.parts = list(parts)


class _Delegate(cp.ParserDelegate):
  def configurable_reference(self, scoped_configurable_name, evaluate):
    return _Ref('ref', scoped_configurable_name, bool(evaluate))

  def macro(self, macro_name):
    return _Ref('macroref', macro_name)


def _typed(v):
  if isinstance(v, _Ref):
    return v.parts
  if isinstance(v, (list, tuple)):
    return [type(v).__name__, [_typed(e) for e in v]]
  if isinstance(v, dict):
    return ['dict', [[_typed(k), _typed(w)] for k, w in v.items()]]
  return [type(v).__name__, repr(v)]


def _observed_stream(text):
  out = []
  for s in cp.ConfigParser(text, _Delegate()):
    if isinstance(s, cp.BindingStatement):
      if s.arg_name:
        out.append(['bind', s.scope, s.selector, s.arg_name, _typed(s.value)])
      else:   # a key without '.parameter' defines the macro `scope/name`
        out.append(['macro', (s.scope + '/' if s.scope else '') + s.selector, _typed(s.value)])
    elif isinstance(s, cp.BlockDeclaration):
      out.append(['block', s.scope, s.selector])
    elif isinstance(s, cp.ImportStatement):
      if s.is_from:
        out.append(['from'] + s.module.rsplit('.', 1) + [s.alias])
      else:
        out.append(['import', s.module, s.alias])
    elif isinstance(s, cp.IncludeStatement):
      out.append(['include', s.filename])
    else:
      out.append(['unknown', repr(s)])
  return out


def _register():
  def x(p=None, q=None, r=None, s=None, u=None):
    return p

  def y(p=None, q=None, r=None, s=None, u=None):
    return p

  def z(p=None, q=None, r=None, s=None, u=None):
    return p
  gin.external_configurable(x, name='x', module='cm')
  gin.external_configurable(y, name='y', module='cm')
  gin.external_configurable(z, name='z', module='other.pkg')


def _exc(e):
  return '%s: %s' % (type(e).__name__, str(e).split('\n')[0][:100])


def _short(v):
  s = v if isinstance(v, str) else repr(v)
  return s if len(s) <= 200 else s[:197] + '...'


def _parse_into_config(text):
  gin.clear_config(clear_constants=True)
  gin.parse_config(text)
  return gin.config_str()


def check(case):
  _register()
  if case['mode'] == 'bad':
    return _check_bad(case)
  if case['mode'] == 'import_tie':
    return _check_import_tie(case)
  fails = []
  lay = case['layout']
  plain = dict(_layout('plain', random.Random(0)), eol=True)
  text, expected = render(case['stmts'], lay)
  plain_expected = render(case['stmts'], plain)[1]
  sig = 'layout=%s' % lay['name']

  def fail(clause, exp, obs, extra=''):
    fails.append({'clause': clause, 'expected': _short(exp), 'observed': _short(obs),
                  'signature': ('%s %s %s' % (clause, sig, extra)).strip(), 'text': text[:400]})

  flat = [e for e in expected if e[0] != 'block']
  assert flat == plain_expected, 'renderer bug: layouts disagree on the model'
  try:
    observed = _observed_stream(text)
  except Exception as e:   # pylint: disable=broad-except
    fail('layout_accepted', 'statement stream of %d statements' % len(expected), _exc(e),
         'parser exc=%s' % type(e).__name__)
    observed = None
  if observed is not None and observed != expected:
    k = next((i for i, (a, b) in enumerate(zip(observed, expected)) if a != b),
             min(len(observed), len(expected)))
    fail('statements_recovered', 'statement %d: %r' % (k, expected[k:k + 1]),
         'statement %d: %r (%d statements, expected %d)' % (
             k, observed[k:k + 1], len(observed), len(expected)),
         'kind=%s' % (expected[k][0] if k < len(expected) else 'extra'))

  tmp = tempfile.mkdtemp(prefix='bC03_')
  try:
    for name, content in INCLUDES.items():
      with open(os.path.join(tmp, name), 'w') as fh:
        fh.write(content)
    try:
      reference = _parse_into_config(render(case['stmts'], plain, tmp)[0])
    except Exception as e:   # pylint: disable=broad-except
      fail('layout_accepted', 'parse_config accepts the flat one-per-line rendering', _exc(e),
           'reference exc=%s' % type(e).__name__)
      return fails
    text = render(case['stmts'], lay, tmp)[0]   # same decoration (same seed), absolute includes
    try:
      got = _parse_into_config(text)
    except Exception as e:   # pylint: disable=broad-except
      fail('layout_accepted', 'parse_config accepts the layout', _exc(e),
           'parse_config exc=%s' % type(e).__name__)
      return fails
    if got != reference:
      diff = [(a, b) for a, b in zip(got.split('\n'), reference.split('\n')) if a != b][:1]
      fail('same_configuration', 'config_str() of the flat rendering', diff or
           '%d vs %d lines' % (got.count('\n'), reference.count('\n')))
    final = {}
    include_seen = False
    for e in flat:
      if e[0] == 'include':
        include_seen = True     # included bindings may override/are overridden: skip keys
      elif e[0] == 'bind':
        final[(e[1] + '/' if e[1] else '') + FULL_NAME[e[2]] + '.' + e[3]] = e[4]
      elif e[0] == 'macro':
        final['%' + e[1]] = e[2]
    for key, want in sorted(final.items()):
      if want[0] in ('ref', 'macroref') or _has_ref(want):
        continue
      if include_seen and (key.endswith('.u') or key == '%incm'):
        continue
      try:
        have = _typed(gin.query_parameter(key))
      except ValueError as e:
        have = _exc(e)
      if have != want:
        fail('values_bound', '%s = %r' % (key, want), have)
        break
  finally:
    shutil.rmtree(tmp, ignore_errors=True)
  return fails


def _has_ref(t):
  if isinstance(t, list):
    return t[:1] in (['ref'], ['macroref']) or any(_has_ref(e) for e in t)
  return False


def _check_bad(case):
  fails = []
  text = case['text']
  sig = 'kind=%s' % case['kind']
  strict = case['kind'].startswith('continuation_inside')   # these must be a SyntaxError
  raised = []
  try:
    stream = _observed_stream(text)
    fails.append({'clause': 'malformed_name_rejected', 'expected': 'parser raises',
                  'observed': _short(stream), 'signature': 'malformed_name_rejected %s parser_accepted' % sig})
  except Exception as e:   # pylint: disable=broad-except
    raised.append(e)
  try:
    gin.parse_config(text)
    accepted = True
  except Exception as e:   # pylint: disable=broad-except
    accepted = False
    raised.append(e)
  other = sorted({type(e).__name__ for e in raised if not isinstance(e, SyntaxError)})
  if strict and other:
    fails.append({'clause': 'malformed_name_rejected', 'expected': 'SyntaxError',
                  'observed': _short([_exc(e) for e in raised]),
                  'signature': 'malformed_name_rejected %s raised=%s' % (sig, ','.join(other))})
  bound = gin.config_str()
  if accepted or bound.strip():
    fails.append({'clause': 'malformed_name_rejected',
                  'expected': 'parse_config raises and binds nothing',
                  'observed': _short('accepted=%s config=%r' % (accepted, bound)),
                  'signature': 'malformed_name_rejected %s parse_config_%s' % (
                      sig, 'accepted' if accepted else 'bound')})
  return fails


def _check_import_tie(case):
  """Blank lines before the statements must not change config_str()."""
  outs = []
  for k in range(16):
    gin.clear_config(clear_constants=True)
    gin.parse_config('\n' * k + '\n'.join(case['lines']) + '\n')
    out = gin.config_str()
    if out not in outs:
      outs.append(out)
  outs.sort()
  if len(outs) > 1:
    return [{'clause': 'same_configuration', 'expected': 'one config_str() for 16 layouts '
             '(0..15 leading blank lines)', 'observed': _short(outs),
             'signature': 'same_configuration import_alias_tie'}]
  return []
