"""C07 bounded stand-in: operative_config_str() records exactly what Gin supplied and
suffices to replay.

Oracle: an executable reference model of the property statement (`_Model`): it knows
the bindings (it made them), the signatures, allow/denylists and the call history, and
derives -- without looking at gin's record -- which (scope, configurable) pairs were
called (directly, or through evaluated references and macros) and, per pair, the
parameters Gin supplied (binding or signature default, not supplied by the caller)
with the value used most recently.  The text is read back by parsing it into a cleared
configuration; values are compared in a type-exact normal form.  Replay compares the
arguments *received by the functions* (they log them) in the original and replayed run.

Clause labels -> sentence of the property
  never_raises     "After any sequence of calls, operative_config_str() has ..." (returns)
  sections_exact   "has a section for exactly the (scope, configurable) pairs that were
                   called"; "configurables never called do not appear"
  macros_constants "macros that were used appear as macro definitions, constant lookups are
                   omitted"
  params_exact     "lists in it exactly the configurable parameters for which, in at least one
                   of those calls, Gin supplied a literally representable value from a binding
                   or from the signature default, showing the value used most recently;
                   parameters the caller always supplied, parameters outside the allowlist or
                   inside the denylist ... do not appear" (signature says which half failed)
  text_parses      the text can be parsed into a cleared configuration (presupposed by replay)
  replay_args      "clearing the configuration, parsing that text and repeating the same calls
                   gives every call the same arguments"
  replay_text      "... and reproduces the same text"
"""
import re

import gin
from gin import config as gc

BOUNDS = ('histories of <= 6 steps (calls, and in a third of the cases <= 2 re-bindings between '
          'calls) over 9 configurables (plain, keyword-only, REQUIRED, allowlist, denylist, '
          'non-literal defaults, **kwargs, a class and its method) x scopes of depth <= 2 over {a, b} x '
          'every split of the parameters into positional / keyword / REQUIRED / omitted; <= 7 '
          'bindings with values of depth <= 2 (literals, evaluated and plain references, '
          'scoped references, 3 macros, 1 constant, 3 non-literal objects); replay is checked '
          'when the history has no re-binding and every bound value is literal')
EXHAUSTIVE = {'quick': False, 'thorough': False}

LOG = []


def _log(name, **kw):
  LOG.append([name, gc.current_scope_str(), {k: _norm(v) for k, v in sorted(kw.items())}])


_OBJ = object()
_INF = float('inf')


def fa(x, y=2, z='zed'):
  _log('fa', x=x, y=y, z=z)


def fb(p=1, q=None, *, k=5.5):
  _log('fb', p=p, q=q, k=k)


def fr(req=gin.REQUIRED, o=(1, 'o')):
  _log('fr', req=req, o=o)


class Kc:

  def __init__(self, u=7, v=None):
    self.v = [u, v]
    _log('Kc', u=u, v=v)

  def meth(self, arg=1, opt='m'):
    _log('meth', arg=arg, opt=opt)


def fw(a=1, b=[2], c=3):
  _log('fw', a=a, b=b, c=c)


def fd(a=1, b={'k': 2}, c=3):
  _log('fd', a=a, b=b, c=c)


def fnl(a=_OBJ, b=True, c=_INF, d=-4):
  _log('fnl', a=a, b=b, c=c, d=d)


def fk(a=1, **kw):
  _log('fk', a=a, **kw)


# target -> (object, positional parameters, keyword-only parameters, literal defaults that are
# configurable (not denylisted, allowlisted), parameters that can be bound)
TARGETS = {
    'fa': (fa, ['x', 'y', 'z'], [], {'y': ['i', 2], 'z': ['s', 'zed']}, ['x', 'y', 'z']),
    'fb': (fb, ['p', 'q'], ['k'], {'p': ['i', 1], 'q': ['n'], 'k': ['f', '5.5']}, ['p', 'q', 'k']),
    'fr': (fr, ['req', 'o'], [], {'o': ['t', [['i', 1], ['s', 'o']]]}, ['req', 'o']),
    'Kc': (Kc, ['u', 'v'], [], {'u': ['i', 7], 'v': ['n']}, ['u', 'v']),
    'meth': (Kc.meth, ['arg', 'opt'], [], {'arg': ['i', 1], 'opt': ['s', 'm']}, ['arg', 'opt']),
    'fw': (fw, ['a', 'b', 'c'], [], {'a': ['i', 1], 'b': ['l', [['i', 2]]]}, ['a', 'b']),
    'fd': (fd, ['a', 'b', 'c'], [], {'a': ['i', 1], 'b': ['d', [[['s', 'k'], ['i', 2]]]]}, ['a', 'b']),
    'fnl': (fnl, ['a', 'b', 'c', 'd'], [], {'b': ['b', True], 'd': ['i', -4]}, ['a', 'b', 'c', 'd']),
    'fk': (fk, ['a'], ['extra'], {'a': ['i', 1]}, ['a', 'extra', 'more']),   # **kw takes any name
}
ORDER = list(TARGETS)          # evaluated references only point to later targets (no cycles)
LEAVES = ORDER[5:]             # bound to plain values only; macros may reference them
REQUIRED_BY_DEFAULT = {('fr', 'req'), ('fa', 'x')}   # no usable default: bound or caller-supplied
SCOPES = [[], ['a'], ['b'], ['a', 'b'], ['b', 'a'], ['a', 'a']]
MACROS = ['mm', 'MM', 'a/mm']
WRAPPERS = {}
_OBJECTS = {'object': lambda: _OBJ, 'inf': lambda: _INF, 'lambda': lambda: _log}


# -------------------------------------------------------------- value descriptors
def _children(d):
  return d[1] if d[0] in 'lt' else [x for kv in d[1] for x in kv] if d[0] == 'd' else []


def _walk(d):
  yield d
  for x in _children(d):
    for y in _walk(x):
      yield y


def _literal(d):
  return all(x[0] != 'o' for x in _walk(d))


def _canon(d):
  t = d[0]
  if t in 'lt':
    return [t, [_canon(x) for x in d[1]]]
  if t == 'd':
    return ['d', sorted(([_canon(k), _canon(v)] for k, v in d[1]), key=repr)]
  if t == 'r':
    return ['ref', d[1], d[2], d[3]]
  if t in 'mc':
    return ['ref', d[1], '%' if t == 'm' else '<constant>', True]
  return ['f', repr(float(d[1]))] if t == 'f' else list(d)


def _norm(v):
  """Type-exact normal form of a value held by gin or received by a function."""
  t = type(v)
  if t is gc.ConfigurableReference:
    w = v.configurable.wrapped
    name = '%' if w is gc.macro else '<constant>' if w is gc._retrieve_constant else getattr(
        w, '__name__', '?')
    return ['ref', '/'.join(v.scopes), name, v.evaluate]
  if t is list or t is tuple:
    return ['l' if t is list else 't', [_norm(x) for x in v]]
  if t is dict:
    return ['d', sorted(([_norm(k), _norm(x)] for k, x in v.items()), key=repr)]
  if v is None:
    return ['n']
  for tag, typ in (('b', bool), ('i', int), ('s', str)):
    if t is typ:
      return [tag, v]
  if t is float:
    return ['f', repr(v)]
  if isinstance(v, Kc):
    return ['instance', _norm(v.v)]
  if callable(v):
    return ['callable', getattr(v, '__name__', '?')]
  return ['?', t.__name__]


def _source(d):
  t = d[0]
  if t == 'l':
    return '[' + ', '.join(map(_source, d[1])) + ']'
  if t == 't':
    return '(' + ''.join(_source(x) + ', ' for x in d[1]) + ')'
  if t == 'd':
    return '{' + ', '.join('%s: %s' % (_source(k), _source(v)) for k, v in d[1]) + '}'
  if t == 'r':
    sel = 'Kc.meth' if d[2] == 'meth' else d[2]
    return '@' + (d[1] + '/' if d[1] else '') + sel + ('()' if d[3] else '')
  return '%' + d[1] if t in 'mc' else repr(_python(d))


def _python(d):
  t = d[0]
  if t in 'lt':
    return (list if t == 'l' else tuple)(map(_python, d[1]))
  if t == 'd':
    return {_python(k): _python(v) for k, v in d[1]}
  if t in 'rmc':
    return gc.parse_value(_source(d))
  if t == 'o':
    return _OBJECTS[d[1]]()
  return {'n': lambda: None, 'f': lambda: float(d[1]), 'REQ': lambda: gin.REQUIRED}.get(
      t, lambda: d[1])()


# ------------------------------------------------------------- the reference model
class _Undefined(Exception):
  pass


class _Model:
  """What the property statement says the record must be, from the history alone."""

  def __init__(self):
    self.config = {}   # (scope, target | '%', param) -> descriptor
    self.record = {}   # (scope, target | '%') -> {param: descriptor}, most recent value

  def bound(self, scope, target):
    """Bindings in effect for `target` in `scope` (outer scopes first, inner ones override)."""
    out = {}
    for i in range(len(scope) + 1):
      for (s, t, p), v in self.config.items():
        if t == target and s == '/'.join(scope[:i]):
          out[p] = v
    return out

  def call(self, scope, target, supplied=()):
    bound = self.bound(scope, target)
    given = dict(TARGETS[target][3] if target != '%' else {})   # configurable literal defaults
    given.update(bound)
    for p in supplied:                                          # the caller's own values
      given.pop(p, None)
    self.record.setdefault(('/'.join(scope), target), {}).update(given)
    if target == '%' and 'value' not in bound:
      raise _Undefined()
    for p, v in bound.items():    # evaluated references inside the values Gin hands over
      if p not in supplied:
        for d in _walk(v):
          if d[0] == 'r' and d[3]:
            self.call(d[1].split('/') if d[1] else scope, d[2])
          elif d[0] == 'm':
            self.call(d[1].split('/'), '%')

  def expected(self):
    sections = {k for k in self.record if k[1] != '%'}
    params = {(s, t, p): _canon(v) for (s, t), ps in self.record.items()
              for p, v in ps.items() if _literal(v)}
    return sections, params


# ---------------------------------------------------------------- case generation
def _gen_value(rng, target, depth=0):
  """A value that may be bound to a parameter of `target` ('%': a macro)."""
  r = rng.random()
  level = len(ORDER) if target == '%' or target in LEAVES else ORDER.index(target)
  later = LEAVES if target == '%' else ORDER[level + 1:]
  if depth < 2 and r < 0.2:
    kind, n = rng.choice('ltd'), rng.choice([0, 1, 2, 3])
    items = [_gen_value(rng, target, depth + 1) for _ in range(n)]
    return ['d', [[['s', 'k%d' % i], x] for i, x in enumerate(items)]] if kind == 'd' else [kind, items]
  if r < 0.45 and later:
    to = rng.choice(later)   # only what can be called without arguments is evaluated
    return ['r', rng.choice(['', '', 'a', 'b/a', 's']), to, to not in ('fr', 'meth') and rng.random() < 0.7]
  if r < 0.55 and target not in LEAVES and target != '%':
    return ['m', rng.choice(MACROS)]
  if r < 0.6 and target != '%':
    return ['c', 'KONST']
  if r < 0.68:
    return ['o', rng.choice(sorted(_OBJECTS))]
  return rng.choice([['i', 0], ['i', 1], ['b', True], ['f', '1.0'], ['f', '0.0'],
                     ['i', -3], ['i', 10**12], ['f', '0.25'], ['f', '-1e-09'], ['b', False],
                     ['n'], ['s', ''], ['s', "it's"], ['s', 'lorem ipsum ' * 9], ['s', '@fa'],
                     ['t', []], ['l', [['i', 1], ['s', 'two']]]])


def _gen_binding(rng, targets, literal_only):
  target = '%' if rng.random() < 0.15 else rng.choice(targets)
  while True:
    value = _gen_value(rng, target)
    if _literal(value) or not literal_only:
      break
  if target == '%':
    return {'scope': rng.choice(MACROS), 'target': '%', 'param': 'value', 'value': value}
  return {'scope': '/'.join(rng.choice(SCOPES[:4])), 'target': target,
          'param': rng.choice(TARGETS[target][4]), 'value': value}


def _gen_call(rng, target, model, scopes=SCOPES):
  """A call that cannot fail: what has no default is bound in that scope or supplied."""
  _, pos, kwonly, _, _ = TARGETS[target]
  scope = rng.choice(scopes)
  bound = model.bound(scope, target)
  npos = rng.choice([0, 0, 1, 2, len(pos)])
  call = {'op': 'call', 'scope': scope, 'target': target, 'pos': [], 'kw': {},
          'enter': rng.choice(['nested', 'joined'])}
  for i, p in enumerate(pos + kwonly):
    must = (target, p) in REQUIRED_BY_DEFAULT and p not in bound
    if i < npos and p in pos:
      call['pos'].append(['REQ'] if p in bound and rng.random() < 0.2 else ['s', 'caller:' + p])
    elif must or rng.random() < 0.25:
      call['kw'][p] = ['REQ'] if p in bound and rng.random() < 0.2 else ['i', 1000 + i]
  return call


def _gen_case(rng):
  model = _Model()
  kind = rng.choice(['replay', 'replay', 'rebind'])
  # re-binding histories call few configurables in few scopes, so that calls repeat
  targets = rng.sample(ORDER, rng.randint(1, 4 if kind == 'replay' else 2))
  scopes = SCOPES if kind == 'replay' else rng.sample(SCOPES[:4], 2)
  if 'meth' in targets and 'Kc' not in targets:
    targets.append('Kc')
  # references may point outside `targets`; all 9 configurables are always registered
  bindings, keys = [], set()
  for _ in range(rng.randint(0, 7)):
    b = _gen_binding(rng, targets, literal_only=(kind == 'replay' and rng.random() < 0.8))
    if (b['scope'], b['target'], b['param']) not in keys:
      keys.add((b['scope'], b['target'], b['param']))
      bindings.append(b)
  for m in sorted({d[1] for b in bindings for d in _walk(b['value']) if d[0] == 'm'}):
    if (m, '%', 'value') not in keys:   # every macro that is used is defined
      keys.add((m, '%', 'value'))
      bindings.append({'scope': m, 'target': '%', 'param': 'value', 'value': _gen_value(rng, '%')})
  for b in bindings:
    model.config[(b['scope'], b['target'], b['param'])] = b['value']
  history = []
  for _ in range(rng.randint(1, 6)):
    if kind == 'rebind' and history and rng.random() < 0.35 and bindings:
      b = dict(rng.choice([b for b in bindings if b['target'] in targets] or bindings))
      b['value'] = _gen_value(rng, b['target'])
      if b['target'] == '%' or all(d[0] != 'm' for d in _walk(b['value'])):
        model.config[(b['scope'], b['target'], b['param'])] = b['value']
        history.append(dict(b, op='bind'))
        continue
    history.append(_gen_call(rng, rng.choice(targets), model, scopes))
  return {'via': rng.choice(['bind', 'parse']), 'bindings': bindings, 'history': history}


def _corner_cases():
  call = lambda t, scope=(), pos=(), **kw: {'op': 'call', 'scope': list(scope), 'target': t,
                                             'pos': list(pos), 'kw': kw, 'enter': 'nested'}
  b = lambda s, t, p, v: {'scope': s, 'target': t, 'param': p, 'value': v}
  x1, cx = b('', 'fa', 'x', ['i', 1]), ['s', 'caller']
  # caller always supplies / supplies once / never; positional, keyword, REQUIRED
  for hist in ([call('fa', (), [cx])], [call('fa', (), [cx]), call('fa')],
               [call('fa'), call('fa', (), [cx])], [call('fa', (), [], x=cx, y=cx, z=cx)],
               [call('fa', (), [['REQ']], y=['i', 9])],
               [call('fa', ('a',)), call('fa', ('a', 'b'), [cx]), call('fb', ('b',), [], k=cx)]):
    yield {'via': 'bind', 'bindings': [x1, b('a', 'fa', 'y', ['s', 'in a'])], 'history': hist}
  # the value used most recently; a later caller-supplied call does not erase the record
  yield {'via': 'bind', 'bindings': [x1], 'history': [
      call('fa'), dict(b('', 'fa', 'x', ['i', 2]), op='bind'), call('fa'), call('fa', (), [cx])]}
  # re-binding to a value that COMPARES EQUAL to the recorded one but is a different value
  # (1 -> True, a reference under another scope): the record must show the new one
  yield {'via': 'bind', 'bindings': [b('', 'fa', 'x', ['i', 1]), b('', 'fa', 'y', ['r', 'a', 'fb', True])],
         'history': [call('fa'), dict(b('', 'fa', 'x', ['b', True]), op='bind'),
                     dict(b('', 'fa', 'y', ['r', 'b', 'fb', True]), op='bind'), call('fa')]}
  yield {'via': 'bind', 'bindings': [b('', 'fa', 'x', ['b', False]), b('', 'fa', 'y', ['i', 0])],
         'history': [call('fa'), dict(b('', 'fa', 'x', ['i', 0]), op='bind'),
                     dict(b('', 'fa', 'y', ['f', '0.0']), op='bind'), call('fa')]}
  # allowlist / denylist / non-literal defaults / keyword-only / REQUIRED default / **kwargs
  yield {'via': 'parse', 'bindings': [b('', 'fr', 'req', ['i', 3]), b('', 'fw', 'a', ['i', 4]),
                                      b('a', 'fk', 'more', ['s', 'kw'])],
         'history': [call(t) for t in ('fw', 'fd', 'fnl', 'fb', 'fr', 'fk')] + [
             call('fw', ('a',), [], c=cx), call('fk', ('a', 'b'), [], extra=cx)]}
  # evaluated, scoped and plain references, macros (scoped, nested), constants, class and method
  yield {'via': 'parse', 'history': [call('fa'), call('fa', ('b',)), call('meth', ('a',))], 'bindings': [
      b('', 'fa', 'x', ['r', '', 'fb', True]),
      b('', 'fa', 'y', ['l', [['r', 's', 'Kc', True], ['r', '', 'fw', False]]]),
      b('', 'fb', 'p', ['m', 'mm']), b('mm', '%', 'value', ['r', '', 'fd', True]),
      b('', 'fb', 'q', ['c', 'KONST']), b('b', 'fa', 'z', ['m', 'a/mm']),
      b('a/mm', '%', 'value', ['i', 5]), b('a', 'meth', 'arg', ['m', 'MM']),
      b('MM', '%', 'value', ['o', 'object'])]}
  # a macro that is used but not defined: the call fails, the text must still be produced
  yield {'via': 'bind', 'bindings': [b('', 'fa', 'x', ['m', 'mm'])],
         'history': [dict(call('fa'), fails=True), call('fb')]}


def cases(tier, rng):
  for case in _corner_cases():
    yield case
  for _ in range(4000 if tier == 'quick' else 100000):
    yield _gen_case(rng)


def nontrivial(case):
  return any(h['op'] == 'call' for h in case['history'])


# ------------------------------------------------------------------- the check
def _bind(b):
  key = '%' + b['scope'] if b['target'] == '%' else (
      b['scope'], 'Kc.meth' if b['target'] == 'meth' else b['target'], b['param'])
  gin.bind_parameter(key, _python(b['value']))


def _run(history, model=None, replay=False):
  """Performs the history on gin (and on the model); returns the log of received arguments."""
  per_call = []
  for h in history:
    del LOG[:]
    if h['op'] == 'bind':
      if not replay:
        _bind(h)
        model.config[(h['scope'], h['target'], h['param'])] = h['value']
      continue
    names = TARGETS[h['target']][1]
    supplied = [n for n, v in list(zip(names, h['pos'])) + list(h['kw'].items()) if v != ['REQ']]
    args, kwargs = [_python(v) for v in h['pos']], {k: _python(v) for k, v in h['kw'].items()}
    scopes = h['scope'] if h['enter'] == 'nested' else ['/'.join(h['scope'])] * bool(h['scope'])
    managers = [gin.config_scope(s) for s in scopes]
    for m in managers:
      m.__enter__()
    try:
      if model:
        try:
          if h['target'] == 'meth':
            model.call(h['scope'], 'Kc')
          model.call(h['scope'], h['target'], supplied)
        except _Undefined:
          assert h.get('fails')
      try:
        fn = WRAPPERS['Kc']().meth if h['target'] == 'meth' else WRAPPERS[h['target']]
        fn(*args, **kwargs)
        assert not h.get('fails')
      except TypeError:
        if not h.get('fails'):
          raise
    finally:
      for m in reversed(managers):
        m.__exit__(None, None, None)
    # what this call and the calls it triggered received; their order follows the order of
    # the bindings and is not part of the property
    per_call.append(sorted(LOG, key=repr))
  return per_call


_HEADER = re.compile(r'^# Parameters for (?:(.*)/)?([\w.]+):$')
_STMT = re.compile(r'^([A-Za-z_][\w./]*) = ')


def _read(text):
  """(scope, configurable) of every section and (scope, configurable, parameter) of every
  binding line of the text; all configurable names are unique here."""
  sections, keys, section = set(), set(), None
  for line in text.split('\n'):
    h, m = _HEADER.match(line), _STMT.match(line)
    if h:
      section = (h.group(1) or '', h.group(2).split('.')[-1])
      sections.add(section)
    elif line.startswith('# Macros:'):
      section = '%'
    elif m and section == '%':
      keys.add((m.group(1), '%', 'value'))
    elif m and section:
      keys.add(section + (m.group(1).rpartition('.')[2],))
  return sections, keys


def check(case):
  fails = []
  feat = ('rebinding ' * any(h['op'] == 'bind' for h in case['history']) +
          'failing_call ' * any(h.get('fails') for h in case['history'])).strip() or 'plain'

  def fail(clause, expected, observed, sig):
    sig = '%s: %s [%s]' % (clause, sig, feat)
    if sig not in [f['signature'] for f in fails]:
      fails.append({'clause': clause, 'expected': str(expected)[:300], 'observed': str(observed)[:300],
                    'signature': sig})

  def attempt(clause, fn, *args):
    try:
      return fn(*args)
    except Exception as e:   # reported here with a stable signature rather than by the harness
      fail(clause, 'no exception', '%s: %s' % (type(e).__name__, e), 'exc=' + type(e).__name__)
      return None

  gin.constant('KONST', _OBJ)
  gin.register(Kc.meth)
  for name, (obj, _, _, _, bindable) in TARGETS.items():
    if name != 'meth':
      WRAPPERS[name] = gin.external_configurable(
          obj, name=name, module='c7', allowlist=bindable if name == 'fw' else None,
          denylist=['c'] if name == 'fd' else None)
  model = _Model()
  text_part = [b for b in case['bindings'] if case['via'] == 'parse' and _literal(b['value'])]
  gin.parse_config(['%s = %s' % (b['scope'] if b['target'] == '%' else '%s%s.%s' % (
      b['scope'] + '/' * bool(b['scope']), 'Kc.meth' if b['target'] == 'meth' else b['target'], b['param']),
                                 _source(b['value'])) for b in text_part])
  for b in case['bindings']:
    if b not in text_part:
      _bind(b)
    model.config[(b['scope'], b['target'], b['param'])] = b['value']
  log = _run(case['history'], model)
  text = attempt('never_raises', gc.operative_config_str)
  if text is None:
    return fails
  want_sections, want_params = model.expected()
  got_sections, got_keys = _read(text)
  if 'gin.constant' in text:
    fail('macros_constants', 'constant lookups omitted', text, 'constant lookup listed')
  for s in sorted(want_sections ^ got_sections):
    kind = 'missing section of a called' if s in want_sections else 'section of a never called'
    fail('sections_exact', sorted(want_sections), sorted(got_sections), '%s %s' % (kind, s[1]))
  for key in sorted(set(want_params) ^ got_keys):
    kind = ('not listed although Gin supplied it' if key in want_params else
            'listed although Gin never supplied it')
    fail('macros_constants' if key[1] == '%' else 'params_exact', sorted(want_params), sorted(got_keys),
         '%s (%s.%s)' % (kind, key[1], key[2]))
  # the values: read back through the parser
  gin.clear_config()
  if attempt('text_parses', gc.parse_config, text) is None:
    return fails
  for (scope, selector), params in gc._CONFIG.items():
    name = '%' if selector == 'gin.macro' else selector.split('.')[-1]
    for p, v in params.items():
      want = want_params.get((scope, name, p))
      if want is not None and want != _norm(v):
        fail('macros_constants' if name == '%' else 'params_exact', want, _norm(v),
             'shows another value than the one used most recently (%s.%s)' % (name, p))
  # replay
  replayable = feat == 'plain' and all(_literal(b['value']) for b in case['bindings'])
  if replayable:
    log2 = _run(case['history'], replay=True)
    if log2 != log:
      diff = [(a, b) for a, b in zip(log, log2) if a != b][:1] or [len(log), len(log2)]
      fail('replay_args', log, diff, 'a call receives other arguments when replayed')
    text2 = attempt('never_raises', gc.operative_config_str)
    if text2 is not None and text2 != text:
      fail('replay_text', text, text2, 'text differs after replay')
  return fails
