"""C10 bounded stand-in: gin.REQUIRED markers are replaced by the applicable binding,
or the call fails cleanly; the marker never reaches the wrapped function.

Run-time contract on the real gin: a probe callable of each of 14 shapes (reached
through gin.configurable / external_configurable / register) gets REQUIRED as the
default of some parameters, is registered with an allowlist/denylist or neither,
bindings are made under prefixes and non-prefixes of the active scope, and it is
called with REQUIRED in some positional / keyword / **kwargs / *args places.
Expected behaviour comes from `_expect` (an executable reading of the property
statement), never from gin.

Clause labels (sentence of the property each stands for):
  filled_from_binding        "a parameter marked gin.REQUIRED, by the caller
                              (positionally or by keyword) or as the signature
                              default, is filled from the applicable binding"
  correct_position           "... in the correct position": every other argument
                              of the call (named, *args, **kwargs) is what the
                              caller passed / the binding / the default, and the
                              call goes through without an exception
  unfilled_fails_before_body "if no binding applies, the call fails before the
                              function body runs" (an exception, body not run)
  error_names_configurable   "... with an error naming the configurable"
  error_lists_unfilled       "... and exactly the unfilled parameters in signature
                              order" (names found in the message: the signature's
                              parameters in signature order, no duplicates, no
                              others; **kwargs-only names as a set)
  marker_never_passed        "the REQUIRED marker itself is never passed to the
                              wrapped function in place of such a parameter"
  vararg_marker_rejected     "passing it for an unnamed variadic positional
                              argument is rejected" (an exception, body not run)
  registration_rejected      "a signature-level REQUIRED on a parameter that is
                              denylisted or not allowlisted is rejected at
                              registration"
  registration_accepted      converse: no such parameter => registration succeeds
                              (otherwise the property would hold vacuously)
"""
import contextlib
import os
import re
import traceback

import gin

BOUNDS = ('14 callable shapes (function/class/method x plain, defaults, kw-only, '
          '*args, **kwargs) x every assignment none/plain/REQUIRED of defaults to '
          'alpha,beta,gamma that Python accepts x no list / allowlist / denylist '
          'over those names x active scope of depth <= 2 x each parameter unbound, '
          'bound at root / a proper prefix / the full scope / only under a '
          'non-prefix scope x calls with every valid positional/keyword/omitted '
          'split, <= 2 extra *args, <= 2 **kwargs-only names (delta, omega), each '
          'supplied place a value or gin.REQUIRED; bound values str/list/None; 2 calls '
          'per case; fixed corners, then a seeded sample (quick 6000, thorough '
          '200000 cases).')
EXHAUSTIVE = {'quick': False, 'thorough': False}

NAMES = ('alpha', 'beta', 'gamma')
EXTRAS = ('delta', 'omega')      # reach a body only through **kw
R = gin.REQUIRED
PROBE = {'fn': 'probe_fn', 'method': 'probe_meth', 'reg_method': 'probe_meth'}

KINDS = ['str', 'str', 'str', 'list', 'list', 'none']   # kinds of bound values


def _sig(kind, reg, pos, kwonly=(), varargs=False, varkw=False):
  return dict(kind=kind, reg=reg, pos=list(pos), kwonly=list(kwonly),
              varargs=varargs, varkw=varkw)

A, B, G = NAMES
SHAPES = {
    'fn_pos': _sig('fn', 'configurable', [A, B, G]),
    'fn_ext': _sig('fn', 'external', [A, B, G]),
    'fn_kwonly': _sig('fn', 'configurable', [A], kwonly=[B, G]),
    'fn_varargs': _sig('fn', 'configurable', [A, B], kwonly=[G], varargs=True),
    'fn_varkw': _sig('fn', 'register', [A, B], varkw=True),
    'fn_mixed': _sig('fn', 'configurable', [A], kwonly=[B], varargs=True, varkw=True),
    'cls_init': _sig('init', 'configurable', [A, B, G]),
    'cls_new': _sig('new', 'configurable', [A, B], kwonly=[G]),
    'cls_both': _sig('both', 'configurable', [A], kwonly=[B, G]),
    'cls_neither': _sig('inherit', 'configurable', [A, B], varkw=True),
    'ext_cls_init': _sig('init', 'external', [A, B], kwonly=[G], varargs=True),
    'ext_cls_new': _sig('new', 'external', [A, B], varkw=True),
    'method': _sig('method', 'configurable', [A, B], kwonly=[G]),
    'reg_method': _sig('reg_method', 'register', [A, B, G]),
}
SHAPE_NAMES = list(SHAPES)


class _Val:
  """A caller-supplied value (compared by identity)."""

  def __init__(self, label):
    self.label = label

  def __repr__(self):
    return '<%s>' % self.label


def _make_fn(name, lead, sig, dflt, rec):
  """def name(lead, <pos>, *rest | *, <kwonly>, **kw): record what was received."""
  parts = [lead] if lead else []
  for p in sig['pos'] + ['*'] + sig['kwonly']:
    if p == '*':
      if sig['varargs']:
        parts.append('*rest')
      elif sig['kwonly']:
        parts.append('*')
    else:
      parts.append('%s=_D[%r]' % (p, p) if p in dflt else p)
  if sig['varkw']:
    parts.append('**kw')
  named = ', '.join('%r: %s' % (p, p) for p in sig['pos'] + sig['kwonly'])
  src = 'def %s(%s):\n  _rec.append(({%s}, %s, %s))\n' % (
      name, ', '.join(parts), named,
      'list(rest)' if sig['varargs'] else 'None',
      'dict(kw)' if sig['varkw'] else 'None')
  if name == '__new__':
    src += '  return object.__new__(cls)\n'
  env = {'__name__': __name__, '_rec': rec,
         '_D': {p: (R if d == 'R' else 'D:' + p) for p, d in dflt.items()}}
  exec(src, env)   # pylint: disable=exec-used
  return env[name]


def _register(case, rec):
  """Registers a fresh probe; returns (callable, selector, configurable's name)."""
  sig = SHAPES[case['shape']]
  kind, reg = sig['kind'], sig['reg']
  lists = {}
  if case.get('allow'):
    lists['allowlist'] = list(case['allow'])
  if case.get('deny'):
    lists['denylist'] = list(case['deny'])
  wrap = {'configurable': lambda x: gin.configurable(x, module='pm', **lists),
          'external': lambda x: gin.external_configurable(x, module='pm', **lists),
          'register': lambda x: gin.get_configurable(
              gin.register(x, module='pm', **lists))}[reg]
  dflt = case['dflt']
  if kind == 'fn':
    return wrap(_make_fn('probe_fn', None, sig, dflt, rec)), 'pm.probe_fn', 'probe_fn'
  if kind == 'method':
    fn = _make_fn('probe_meth', 'self', sig, dflt, rec)
    holder = type('Holder', (object,), {
        'probe_meth': gin.configurable(fn, module='pm.Holder', **lists)})
    return ((lambda *a, **k: holder().probe_meth(*a, **k)), 'pm.Holder.probe_meth',
            'probe_meth')
  if kind == 'reg_method':   # registered method of a registered class: renamed selector
    fn = _make_fn('probe_meth', 'self', sig, dflt, rec)
    fn.__qualname__ = 'Holder.probe_meth'
    holder = type('Holder', (object,), {'probe_meth': gin.register(fn, **lists),
                                        '__module__': __name__})
    dec = gin.external_configurable(holder, module='pm')
    return ((lambda *a, **k: dec().probe_meth(*a, **k)), 'pm.Holder.probe_meth',
            'probe_meth')
  if kind == 'new':
    body = {'__new__': _make_fn('__new__', 'cls', sig, dflt, rec)}
  else:
    body = {'__init__': _make_fn('__init__', 'self', sig, dflt, rec)}
  if kind == 'both':   # unwrapped pass-through __new__: not the wrapped function
    body['__new__'] = lambda cls, *a, **k: object.__new__(cls)
  body['__module__'] = __name__
  if kind == 'inherit':
    base = type('Base', (object,), body)
    return wrap(type('ProbeCls', (base,), {'__module__': __name__})), 'pm.ProbeCls', 'ProbeCls'
  return wrap(type('ProbeCls', (object,), body)), 'pm.ProbeCls', 'ProbeCls'


# ----------------------------------------------------------------- the spec
def _active(entries):
  cur = []
  for e in entries:
    if e is None or e == '':
      cur = []
    elif isinstance(e, list):
      cur = list(e)
    else:
      cur = cur + e.split('/')
  return cur


def _bval(scope, param, kind):
  label = 'B:%s:%s' % (scope, param)
  if kind == 'none':   # `f.x = None` is a binding like any other
    return None
  return [label, {'k': label}] if kind == 'list' else label


def _applicable(bindings, active):
  best = {}
  for scope, param, kind in bindings:
    comps = scope.split('/') if scope else []
    if len(comps) <= len(active) and all(c == a for c, a in zip(comps, active)):
      if param not in best or len(comps) > best[param][0]:
        best[param] = (len(comps), _bval(scope, param, kind))
  return {p: v for p, (_, v) in best.items()}


def _must_reject_registration(case):
  req = [p for p, d in case['dflt'].items() if d == 'R']
  return [p for p in req if (case.get('deny') and p in case['deny']) or
          (case.get('allow') and p not in case['allow'])]


def _expect(case, sig, pos, kw, active):
  """-> ('vararg',) | ('unfilled', [names in signature order], {extras}) |
        ('call', named, rest, kw, marked) | ('novalue',)"""
  bound = _applicable(case['bindings'], active)
  params = sig['pos'] + sig['kwonly']
  m = min(len(pos), len(sig['pos']))
  if any(v is R for v in pos[m:]):
    return ('vararg',)
  supplied = dict(zip(sig['pos'], pos[:m]))
  supplied.update(kw)
  marked = {p: how for p, how in
            [(p, 'pos') for p in sig['pos'][:m] if supplied[p] is R] +
            [(p, 'kw') for p in kw if kw[p] is R] +
            [(p, 'sig') for p, d in case['dflt'].items() if d == 'R' and p not in supplied]}
  unfilled = [p for p in marked if p not in bound]
  if unfilled:
    return ('unfilled', [p for p in params if p in unfilled],
            set(p for p in unfilled if p not in params))
  named, extra = {}, {}
  for p, v in supplied.items():
    (named if p in params else extra)[p] = ('filled', bound[p]) if v is R else ('caller', v)
  for p, v in bound.items():
    if p not in supplied or p in marked:
      (named if p in params else extra)[p] = ('filled' if p in marked else 'bound', v)
  for p in params:
    if p not in named:
      if p not in case['dflt']:
        return ('novalue',)
      named[p] = ('default', 'D:' + p)
  return ('call', named, [('caller', v) for v in pos[m:]] if sig['varargs'] else None,
          extra if sig['varkw'] else None, marked)


# ---------------------------------------------------------------- the cases
def _all_names(sig):
  names = sig['pos'] + sig['kwonly']
  return names + ([p for p in NAMES + EXTRAS if p not in names] if sig['varkw'] else [])


def _bindable(case, sig):
  return [p for p in _all_names(sig)
          if not (case.get('deny') and p in case['deny'])
          and not (case.get('allow') and p not in case['allow'])]


def _gen_call(rng, sig, pmark):
  npos = rng.randint(0, len(sig['pos']))
  extra = rng.choice([0, 0, 1, 2]) if sig['varargs'] and npos == len(sig['pos']) else 0
  others = [p for p in _all_names(sig) if p not in sig['pos'][:npos]]
  mark = lambda: 'R' if rng.random() < pmark else 'v'
  return {'pos': [mark() for _ in range(npos)] + [
      ('R' if rng.random() < 0.3 else 'v') for _ in range(extra)],
          'kw': {p: mark() for p in others if rng.random() < 0.45}}


def _gen_dflt(rng, sig):
  dflt = {}
  start = rng.randint(0, len(sig['pos']))
  for p in sig['pos'][start:]:
    dflt[p] = rng.choice('DR')
  for p in sig['kwonly']:
    d = rng.choice('nDR')
    if d != 'n':
      dflt[p] = d
  return dflt


def _gen(rng):
  shape = rng.choice(SHAPE_NAMES)
  sig = SHAPES[shape]
  case = {'shape': shape, 'dflt': _gen_dflt(rng, sig)}
  names = _all_names(sig)
  lst = rng.random()
  if lst < 0.3:
    case['allow' if lst < 0.15 else 'deny'] = sorted(
        rng.sample(names, rng.randint(1, len(names) - 1)))
  depth = rng.choice([0, 1, 2, 2])
  active = [rng.choice('stu') for _ in range(depth)]
  case['scope'] = rng.choice([list(active), ['/'.join(active)] if active else [None],
                              ['u', list(active)], [list(active)]])
  case['via'] = ('selector' if sig['kind'] not in ('method', 'reg_method')
                 and rng.random() < 0.1 else 'with')
  if case['via'] == 'selector':
    case['scope'] = [list(active)]
  non = [s for s in ['t', 'u/s', '/'.join(active + ['s']), '/'.join(active[1:])]
         if s and s.split('/') != active[:len(s.split('/'))]]
  bindings = []
  for p in _bindable(case, sig):
    where = rng.choice(['none', 'root', 'root', 'full', 'full', 'prefix', 'non',
                        'root+full', 'non+root'])
    scopes = {'none': [], 'root': [''], 'full': ['/'.join(active)],
              'prefix': ['/'.join(active[:max(0, len(active) - 1)])],
              'non': non[:1], 'root+full': ['', '/'.join(active)],
              'non+root': non[-1:] + ['']}[where]
    for s in dict.fromkeys(scopes):
      bindings.append([s, p, rng.choice(KINDS)])
  rng.shuffle(bindings)
  case['bindings'] = bindings
  case['calls'] = []
  pmark = rng.choice([0.15, 0.4, 0.7])
  for _ in range(2):
    for _ in range(10):
      call = _gen_call(rng, sig, pmark)
      pos = [R if x == 'R' else 0 for x in call['pos']]
      kw = {p: (R if x == 'R' else 0) for p, x in call['kw'].items()}
      if _expect(case, sig, pos, kw, active)[0] != 'novalue':
        break
    case['calls'].append(call)
  return case


def cases(tier, rng):
  for shape in SHAPE_NAMES:   # fixed corners
    sig = SHAPES[shape]
    names = sig['pos'] + sig['kwonly']
    allpos = {'pos': ['R'] * len(sig['pos']), 'kw': {p: 'R' for p in sig['kwonly']}}
    allkw = {'pos': [], 'kw': {p: 'R' for p in reversed(_all_names(sig))}}
    sigdef = {p: 'R' for p in names}
    for dflt in ({}, sigdef, {names[-1]: 'R'}):
      for bindings in ([], [['', p, 'str'] for p in names],
                       [['s', names[0], 'str'], ['t', names[-1], 'str']],
                       [['s/t', names[-1], 'list'], ['', names[-1], 'str']]):
        yield {'shape': shape, 'dflt': dflt, 'scope': ['s', 't'], 'via': 'with',
               'bindings': bindings, 'calls': [allpos, allkw, {'pos': [], 'kw': {}}]}
    if sig['varargs']:
      yield {'shape': shape, 'dflt': {}, 'scope': [], 'via': 'with',
             'bindings': [['', p, 'str'] for p in names],
             'calls': [{'pos': ['v'] * len(sig['pos']) + ['R'], 'kw': {}},
                       {'pos': ['R'] * len(sig['pos']) + ['v', 'R'], 'kw': {}}]}
    for key in ('allow', 'deny'):
      for lst in ([names[0]], names[1:], list(names)):
        for dflt in ({names[-1]: 'R'}, {p: 'R' for p in names}, {names[-1]: 'D'}):
          yield {'shape': shape, 'dflt': dflt, key: lst, 'scope': [], 'via': 'with',
                 'bindings': [], 'calls': [{'pos': [], 'kw': {names[-1]: 'R'}}]}
  n = 6000 if tier == 'quick' else 200000
  for _ in range(n):
    yield _gen(rng)


def nontrivial(case):
  return (any(d == 'R' for d in case['dflt'].values()) or
          any('R' in c['pos'] or 'R' in c['kw'].values() for c in case['calls']))


# ---------------------------------------------------------------- the check
def _same(tagged, got):
  src, want = tagged
  if src == 'caller':
    return got is want
  return type(got) is type(want) and got == want


def _show(x):
  return repr(x)[:160].replace(repr(R), 'REQUIRED')


def _place(sig, p):
  return 'named' if p in sig['pos'] else 'kwonly' if p in sig['kwonly'] else 'varkw'


def _compare(case, sig, name, want, recs, exc):
  fails = []

  def fail(clause, expected, observed, detail):
    fails.append({'clause': clause, 'expected': _show(expected),
                  'observed': _show(observed),
                  'signature': '%s %s %s' % (case['shape'], clause, detail)})
  leaked = [k for named, rest, kw in recs for k, v in
            list(named.items()) + list((kw or {}).items()) +
            [('*rest', x) for x in rest or []] if v is R]
  kind = want[0]
  if kind == 'novalue':   # not a C10 situation (see C01); only non-leak is checked
    if leaked:
      fail('marker_never_passed', 'no REQUIRED in the body', leaked, 'novalue')
  elif kind == 'vararg':
    if recs or exc is None:
      fail('vararg_marker_rejected', 'exception, body not run',
           [len(recs), repr(exc)], 'leak' if leaked else 'ran' if recs else 'silent')
  elif kind == 'unfilled':
    ordered, extras = want[1], want[2]
    how = '+'.join(sorted(set(_place(sig, p) for p in ordered + sorted(extras))))
    if recs or exc is None:
      fail('marker_never_passed' if leaked else 'unfilled_fails_before_body',
           'exception, body not run', [recs, repr(exc)], how)
    else:
      msg = str(exc)
      if not re.search(r'\b%s\b' % name, msg):
        fail('error_names_configurable', name, msg, type(exc).__name__)
      found = re.findall(r'\b(%s)\b' % '|'.join(NAMES + EXTRAS), msg)
      params = sig['pos'] + sig['kwonly']
      if ([p for p in found if p in params] != ordered or
          sorted(p for p in found if p not in params) != sorted(extras)):
        fail('error_lists_unfilled', ordered + sorted(extras), found,
             '%s n=%d' % (how, len(ordered) + len(extras)))
  else:
    _, wnamed, wrest, wkw, marked = want
    if exc is not None or len(recs) != 1:
      fail('filled_from_binding' if marked else 'correct_position',
           'one call, no exception', [len(recs), repr(exc)],
           'exc=%s marks=%s' % (type(exc).__name__, '+'.join(sorted(set(marked.values())))))
      return fails
    named, rest, kw = recs[0]
    got = dict(named)
    got.update(kw or {})
    wantall = dict(wnamed)
    wantall.update(wkw or {})
    for p in sorted(set(got) | set(wantall)):
      if p in got and got[p] is R:
        fail('marker_never_passed', wantall.get(p, '<absent>'), got[p],
             '%s/%s' % (_place(sig, p), marked.get(p, 'unmarked')))
      elif p not in got or p not in wantall or not _same(wantall[p], got[p]):
        fail('filled_from_binding' if p in marked else 'correct_position',
             wantall.get(p, '<absent>'), got.get(p, '<absent>'),
             '%s/%s' % (_place(sig, p), marked.get(p, 'unmarked')))
    if wrest is not None and (len(rest) != len(wrest) or
                              not all(_same(t, g) for t, g in zip(wrest, rest))):
      fail('marker_never_passed' if any(x is R for x in rest) else 'correct_position',
           wrest, rest, 'rest')
  return fails


def check(case):
  sig = SHAPES[case['shape']]
  rec = []
  reject = _must_reject_registration(case)
  try:
    target, selector, name = _register(case, rec)
  except Exception as e:   # pylint: disable=broad-except
    inner = traceback.extract_tb(e.__traceback__)[-1].filename
    if os.path.dirname(os.path.realpath(inner)) != os.path.dirname(
        os.path.realpath(gin.__file__)):
      raise   # not raised by gin: a bug of this module, reported as a harness error
    if reject:
      return []
    return [{'clause': 'registration_accepted', 'expected': 'registered',
             'observed': repr(e)[:160],
             'signature': '%s registration_accepted %s' % (
                 case['shape'], 'allow' if case.get('allow') else 'deny'
                 if case.get('deny') else 'nolist')}]
  if reject:
    return [{'clause': 'registration_rejected', 'expected': 'error for %s' % reject,
             'observed': 'registered',
             'signature': '%s registration_rejected %s' % (
                 case['shape'], 'allow' if case.get('allow') else 'deny')}]
  for scope, param, kind in case['bindings']:
    gin.bind_parameter((scope, selector, param), _bval(scope, param, kind))
  active = _active(case['scope'])
  fails = []
  for idx, call in enumerate(case['calls']):
    del rec[:]
    pos = [R if x == 'R' else _Val('C%d:pos%d' % (idx, i)) for i, x in enumerate(call['pos'])]
    kw = {p: (R if x == 'R' else _Val('C%d:kw:%s' % (idx, p))) for p, x in call['kw'].items()}
    want = _expect(case, sig, pos, kw, active)
    exc = None
    try:
      if case['via'] == 'selector':
        gin.get_configurable('/'.join(active + [selector]))(*pos, **kw)
      else:
        with contextlib.ExitStack() as stack:
          for entry in case['scope']:
            stack.enter_context(gin.config_scope(entry))
          target(*pos, **kw)
    except Exception as e:   # pylint: disable=broad-except
      exc = e
    for f in _compare(case, sig, name, want, list(rec), exc):
      f['call'] = idx
      fails.append(f)
  return fails
