"""C02 bounded stand-in: literal values parse to exactly what Python evaluates them to.

Differential run-time contract on the real parser.  The oracle is CPython itself
(`ast.literal_eval` / `ast.parse` on the raw value text) plus a small recogniser of
the property's literal grammar written here over CPython's AST and token stream; gin
is only ever asked through `gin.parse_config` + `gin.query_parameter`.

Clause labels (sentence of the property each one stands for):
  literal_accepted    "A binding value written as a Python literal (...) is stored":
                      a text of the literal grammar must not be rejected.
  literal_value       "... is stored as the value, of the same type, that Python itself
                      evaluates that text to": value and every nested type agree with
                      ast.literal_eval(text).
  next_statement_kept the value ends where the literal ends: a binding on the next line
                      is still read (the literal is stored, not literal + something).
  near_miss_rejected  "Text that is not such a literal (arithmetic, bare names,
                      comprehensions, unbalanced brackets, trailing junk) is rejected
                      with a syntax (or tokenizer) error".
  never_other_value   "... and never yields some other value": after a rejection
                      nothing is bound; a text outside the stated grammar that CPython
                      nevertheless evaluates (set, `1+2j`, `-(1)`, bare `1, 2`) may be
                      rejected or bound to CPython's value, nothing else.
"""
import ast
import io
import tokenize

import gin

BOUNDS = ('literal texts: nesting depth <= 3, <= 4 elements per container, atoms from a '
          '61-atom alphabet (int/float/complex forms, every string/bytes prefix, quote '
          'style and escape class, True/False/None) plus 15 adjacent concatenations with '
          'empty pieces; 7 layouts x 4 statement contexts (flat, block member, macro, '
          'between two bindings) x 3 placements after "=" x 3 line endings; near-misses: '
          'one edit of a one-line text of that grammar (15 edit kinds) x 4 contexts. quick: '
          '156 fixed corner cases + 3000 sampled literals + 1500 sampled near-misses; '
          'thorough: 150000 + 60000 sampled.')
EXHAUSTIVE = {'quick': False, 'thorough': False}

INTS = ['0', '7', '-3', '0x1F', '0Xff', '-0x10', '0o17', '0b101', '1_000', '-0', '00',
        '123456789012345678901234567890']
FLOATS = ['1.5', '-2.0', '1.', '.5', '1e3', '1E-2', '-1.5e+3', '1_0.0_1', '1e999',
          '-0.0', '-1e999']
COMPLEX = ['2j', '-1.5J', '1e2j', '0j']
STRS = ["'a'", '"b"', "''", '""', "'''t'''", '"""t"""', "'''two\nlines'''", "r'\\n'",
        'R"\\d"', "u'u'", "'\\n\\t\\\\'", "'\\x41\\101'", "'\\u00e9\\N{BULLET}'",
        "'it\"s'", '"it\'s"', "'\\''", "'#nocomment'", "'a, b] )'", "'%m @r'",
        "'\u00e9\u2713'", "'''q'uo\"te'''", "'x = 1'"]
BYTES = ["b'a'", 'B"b"', "b''", "rb'\\x'", "Rb'\\n'", "bR'q'", 'BR"z"', "b'\\xff\\0'",
         "b'''t'''"]
# adjacent concatenations: list of pieces (joined by the layout's separator)
CATS = [["'a'", "'b'"], ["''", "'a'"], ["'a'", "''"], ["''", "''"], ['"a"', "'b'"],
        ["'a'", '"b"', "'c'"], ["b'a'", "b''"], ["b''", "b'x'"], ["r'\\n'", "'\\n'"],
        ["'''a'''", "'b'"], ["''", "'''x'''"], ["'a'", "''", "'b'"], ['""', '"\'"'],
        ["''", '"""y"""', "''"], ["u'a'", "R'\\b'"]]
CONSTS = ['True', 'False', 'None']
ATOMS = INTS + FLOATS + COMPLEX + STRS + BYTES + CONSTS   # + CATS, handled apart
LAYOUTS = ['oneline', 'tight', 'breaks', 'trailing', 'comments', 'continuation', 'blanks']
CONTEXTS = ['flat', 'block', 'macro', 'between']
PRES = [' ', '', ' \\\n    ']
POSTS = ['', '  # trailing comment', '   ']


# ---------------------------------------------------------------- generation
def _gen(rng, depth, hashable=False):
  """A value tree: ('atom', text) | ('cat', pieces) | ('list'|'tuple'|'dict'|'paren', items)."""
  r = rng.random()
  if depth >= 3 or r < (0.45 if depth else 0.15):
    if rng.random() < 0.22:
      return ('cat', rng.choice(CATS))
    return ('atom', rng.choice(ATOMS))
  kinds = ['tuple', 'paren'] if hashable else ['list', 'tuple', 'dict', 'paren']
  kind = rng.choice(kinds)
  if kind == 'paren':
    return ('paren', [_gen(rng, depth + 1, hashable)])
  n = rng.choice([0, 1, 1, 2, 2, 3, 4])
  if kind == 'dict':
    return ('dict', [(_gen(rng, depth + 1, True), _gen(rng, depth + 1)) for _ in range(n)])
  return (kind, [_gen(rng, depth + 1, hashable) for _ in range(n)])


def _render(node, lay, rng, top=True):
  kind = node[0]
  if kind == 'atom':
    return node[1]
  if kind == 'cat':
    seps = [' ']
    if lay == 'tight':
      seps = ['', ' ']
    elif lay == 'blanks':
      seps = ['   ', '\t']
    elif lay == 'continuation':
      seps = [' \\\n  ', ' ']
    elif not top and lay == 'breaks':
      seps = ['\n', '\n      ']
    elif not top and lay == 'comments':
      seps = ['  # piece\n ', ' ']
    out = node[1][0]
    for piece in node[1][1:]:
      sep = rng.choice(seps)
      if sep == '' and out[-1] == piece[0] or piece[0].isalpha() and sep == '':
        sep = ' '       # keep the pieces separate tokens: '' '' glued would be ''''
      out += sep + piece
    return out
  op, cl = {'list': '[]', 'tuple': '()', 'dict': '{}', 'paren': '()'}[kind]
  items = []
  for it in node[1]:
    if kind == 'dict':
      colon = {'tight': ':', 'blanks': '  :   ', 'breaks': ':\n'}.get(lay, ': ')
      if lay == 'comments' and rng.random() < 0.3:
        colon = ':  # value follows\n    '
      items.append(_render(it[0], lay, rng, False) + colon + _render(it[1], lay, rng, False))
    else:
      items.append(_render(it, lay, rng, False))
  comma = {'tight': ',', 'breaks': ',\n', 'blanks': '  ,   ', 'comments': ',  # c, ]\n  ',
           'continuation': ', \\\n  '}.get(lay, ', ')
  body = comma.join(items)
  trail = ''
  if kind == 'tuple' and len(items) == 1:
    trail = ','
  elif kind != 'paren' and items and (lay == 'trailing' or rng.random() < 0.15):
    trail = ',' if lay != 'breaks' else ',\n'
  if lay == 'breaks':
    return op + '\n' + body + trail + '\n  ' + cl
  if lay == 'comments':
    return op + '  # open (\n' + body + trail + '  # last\n' + cl
  if lay == 'blanks':
    return op + '  ' + body + ' ' + trail + '   ' + cl
  return op + body + trail + cl


def _one_line(node):
  class _R:   # rng stub: the plain layout makes no random choice that matters
    def random(self): return 1.0
    def choice(self, xs): return xs[0]
  return _render(node, 'oneline', _R())


def _paths(node, path, out):
  """Paths of all atom/cat leaves of a value tree."""
  if node[0] in ('atom', 'cat'):
    out.append(path)
  else:
    for i, it in enumerate(node[1]):
      if node[0] == 'dict':
        _paths(it[0], path + [(i, 0)], out)
        _paths(it[1], path + [(i, 1)], out)
      else:
        _paths(it, path + [(i, None)], out)
  return out


def _get(node, path):
  for i, side in path:
    node = node[1][i] if side is None else node[1][i][side]
  return node


def _subst(node, path, new):
  if not path:
    return new
  (i, side), rest = path[0], path[1:]
  items = list(node[1])
  if side is None:
    items[i] = _subst(items[i], rest, new)
  else:
    pair = list(items[i])
    pair[side] = _subst(pair[side], rest, new)
    items[i] = tuple(pair)
  return (node[0], items)


MISS_KINDS = ['operator', 'del_bracket', 'bare_name', 'comprehension', 'trailing_token',
              'sign', 'comma', 'dict_item', 'call_attr', 'mismatch', 'fstring', 'empty',
              'minus_ref', 'bad_number', 'bad_string']


def _near_miss(rng, kind):
  """One edit of a one-line text of the grammar; returns the edited text."""
  for _ in range(50):
    node = _gen(rng, rng.choice([0, 1, 1, 2]))
    text = _one_line(node)
    if '\n' in text:
      continue
    path = rng.choice(_paths(node, [], []) or [None])
    a = _one_line(_get(node, path)) if path is not None else None
    b = rng.choice(ATOMS[:40])

    def swap(new):   # the text with the chosen leaf replaced by `new`
      return _one_line(_subst(node, path, ('atom', new)))
    if kind == 'operator' and a:
      op = rng.choice([' + ', ' * ', ' - ', ' / ', ' ** ', ' < ', ' == ', ' and ', ' or ',
                       ' if 1 else ', ' | ', ' in ', ' is ', '+', '-'])
      return swap(a + op + b)
    if kind == 'del_bracket':
      pos = [i for i, c in enumerate(text) if c in '[](){}' and not _in_string(text, i)]
      if pos:
        i = rng.choice(pos)
        return text[:i] + text[i + 1:]
    if kind == 'bare_name' and a:
      return swap(rng.choice(['foo', 'true', 'none', 'nan', 'inf', 'x.y', 'Ellipsis',
                              '__debug__', 'a/b', 'x', 'p']))
    if kind == 'comprehension' and a:
      return swap(rng.choice(['[v for v in (1, 2)]', '{k: 1 for k in [1]}',
                              '(v for v in [])', '{v for v in [1]}', 'lambda: 1',
                              '[*[1]]', '{**{}}', '(y := 1)']))
    if kind == 'trailing_token':
      return text + rng.choice([' 2', ' ]', ' )', ' }', ' ,', ' ;', ' foo', ' = 3', ' : 3',
                                " 'a'" if text[-1] not in '\'"' else ' 1', '.real', '[0]',
                                '()', ' ; x.q = 1', ' [', ' (1)', ' [2]', ' None', ' -1'])
    if kind == 'sign' and a:
      if rng.random() < 0.5:
        return swap(rng.choice(['--', '- -', '+', '~', 'not ', '-+']) +
                    rng.choice(['1', '2.5', a]))
      return swap('-' + rng.choice(["'a'", 'True', 'None', "b'x'", '[1]', '(1)', '{}', '()',
                                    '(1, 2)']))
    if kind == 'comma' and node[0] in ('list', 'tuple', 'dict') and node[1]:
      inner = text[1:-1]
      return text[0] + rng.choice([
          ',' + inner,
          inner.replace(', ', ',, ', 1) if ', ' in inner else inner + ',,',
          inner.replace(', ', ' ', 1) if ', ' in inner else inner + ' ' + b]) + text[-1]
    if kind == 'dict_item':
      return rng.choice(['{%s}', '{%s:}', '{:%s}', '{%s: 2: 3}', '{%s 2}', '{1: 2, %s}',
                         '{%s, 1: 2}', '{%s = 2}', '{%s: 1 2}']).replace('%s', a or b)
    if kind == 'call_attr':
      return rng.choice(['dict()', 'list()', 'int(%s)', 'set()', '%s.real', '(%s)()',
                         'tuple([%s])', 'str(%s)', '%s[0]', '[%s][0]']).replace('%s', a or b)
    if kind == 'mismatch' and node[0] in ('list', 'tuple', 'dict'):
      return rng.choice([text[:-1] + rng.choice(')]}'.replace(text[-1], '')),
                         rng.choice('([{'.replace(text[0], '')) + text[1:]])
    if kind == 'fstring':
      return rng.choice(["f'a'", "F'a'", "fr'a'", "f'{1}'", "'a' f'b'", "f'a' 'b'", "[f'']",
                         "'a' b'b'", "b'a' 'b'", "u'a' b''", "ub'a'", "'\\N{NOSUCH}'"])
    if kind == 'empty':
      return rng.choice(['', '#', '# 1', '\\', ',', '=', ':', '.'])
    if kind == 'bad_number' and a:
      return swap(rng.choice(['1__0', '1_', '0xg', '01', '1e', '0b2', '1.2.3', '1j2', '0o8',
                              '1e+', '0x', '1_000_', '1.e', '9a', '-01']))
    if kind == 'bad_string' and a:
      return swap(rng.choice(["'abc", '"a\'', "'''a", "'a\\'", "'a''", "b'\u00e9'", "'a'b",
                              "rb'a' r'b'", "'\\x4'", "b'a", "''''"]))
    if kind == 'minus_ref':
      ref = rng.choice(['-%m', '-@x', '-@x()', '- %m', '-%sc/m', '-@sc/x'])
      return rng.choice(['%s', '[%s]', '{1: %s}', '(%s,)', '[1, %s]']).replace('%s', ref)
  return '1 2'


def _in_string(text, i):
  try:
    for t in tokenize.generate_tokens(io.StringIO(text).readline):
      if t.type == tokenize.STRING and t.start[0] == 1 == t.end[0] and t.start[1] <= i < t.end[1]:
        return True
  except (tokenize.TokenError, SyntaxError):
    pass
  return False


def cases(tier, rng):
  corner = ["'' 'a'", "'a' ''", "'' '''x'''", "(1)", "(1,)", "()", "((1),)", "{1: (2,),}",
            "-0x10", "-2j", "1e999", "'''two\nlines'''", "[1,  # c\n 2]", "'a' \\\n 'b'",
            "('a'\n'b')", "[[[1]]]", "{(1, 'a'): [None, {}]}", '"a"\'b\'', "00", "1_0.0_1"]
  for t in corner:
    for ctx in CONTEXTS:
      yield {'mode': 'lit', 'text': t, 'ctx': ctx, 'pre': ' ', 'post': ''}
  fixed_miss = [('minus_ref', '-%m'), ('minus_ref', '-@x()'), ('sign', '--1'), ('operator', '1 + 2'),
                ('bare_name', 'foo'), ('comprehension', '[v for v in (1, 2)]'),
                ('del_bracket', '[1'), ('del_bracket', '1]'), ('trailing_token', '1 2'),
                ('trailing_token', "'a' 1"), ('dict_item', '{1}'), ('operator', '1+2j'),
                ('sign', '-(1)'), ('trailing_token', '1,'), ('empty', ''),
                ('sign', "-'a'"), ('sign', '-True'), ('minus_ref', '[-%m]'), ('fstring', "f'a'")]
  for kind, t in fixed_miss:
    for ctx in ('flat', 'block', 'macro', 'after'):
      yield {'mode': 'miss', 'kind': kind, 'text': t, 'ctx': ctx}
  n_lit, n_miss = (3000, 1500) if tier == 'quick' else (150000, 60000)
  for i in range(n_lit):
    node = _gen(rng, 0 if i % 4 else 1)
    lay = LAYOUTS[i % len(LAYOUTS)]
    yield {'mode': 'lit', 'text': _render(node, lay, rng), 'layout': lay,
           'ctx': rng.choice(CONTEXTS), 'pre': rng.choice(PRES), 'post': rng.choice(POSTS)}
  for i in range(n_miss):
    kind = MISS_KINDS[i % len(MISS_KINDS)]
    yield {'mode': 'miss', 'kind': kind, 'text': _near_miss(rng, kind),
           'ctx': rng.choice(['flat', 'block', 'macro', 'after'])}


def nontrivial(case):
  return case['mode'] == 'miss' or len(case['text']) > 1


# ---------------------------------------------------------------- the oracle
def _tokens(text):
  try:
    return [t for t in tokenize.generate_tokens(io.StringIO(text).readline)]
  except (tokenize.TokenError, SyntaxError):
    return None


def _has_sigil(text):
  try:
    for t in tokenize.generate_tokens(io.StringIO(text).readline):
      if t.type == tokenize.OP and t.string in ('@', '%'):
        return True
  except (tokenize.TokenError, SyntaxError):
    pass
  return False


def in_grammar(text):
  """True iff `text` belongs to the literal grammar of the property statement."""
  try:
    tree = ast.parse(text, mode='eval').body
  except (SyntaxError, ValueError):
    return False
  toks = _tokens(text)
  if toks is None:
    return False
  depth = 0
  for t, nxt in zip(toks, toks[1:] + [None]):
    if t.type == tokenize.OP:
      if t.string in '([{':
        depth += 1
      elif t.string in ')]}':
        depth -= 1
      elif t.string == ',' and depth == 0:
        return False          # bare top-level tuple `1, 2`
      elif t.string == '-' and (nxt is None or nxt.type != tokenize.NUMBER):
        return False          # minus not directly on a number: `-(1)`, `- \n 1`

  def ok(n):
    if isinstance(n, ast.Constant):
      return type(n.value) in (int, float, complex, str, bytes, bool, type(None))
    if isinstance(n, ast.UnaryOp):
      return (isinstance(n.op, ast.USub) and isinstance(n.operand, ast.Constant) and
              type(n.operand.value) in (int, float, complex))
    if isinstance(n, (ast.List, ast.Tuple)):
      return all(ok(e) for e in n.elts)
    if isinstance(n, ast.Dict):
      return all(k is not None and ok(k) for k in n.keys) and all(ok(v) for v in n.values)
    return False
  return ok(tree)


def typed(v):
  """Value with the type of every node made explicit (1 == 1.0 == True otherwise)."""
  if isinstance(v, (list, tuple)):
    return [type(v).__name__, [typed(e) for e in v]]
  if isinstance(v, dict):
    return ['dict', sorted(([typed(k), typed(w)] for k, w in v.items()), key=repr)]
  return [type(v).__name__, repr(v)]


def _build(case):
  """(config text, query key, sentinel query key or None)."""
  stmt = case.get('pre', ' ') + case['text'] + case.get('post', '')
  ctx = case['ctx']
  if ctx == 'flat':
    return 'x.p =' + stmt, 'x.p', None
  if ctx == 'block':
    return 'x:\n  q = 7\n  p =' + stmt + '\n', 'x.p', None
  if ctx == 'macro':
    return 'm =' + stmt + '\n', '%m', None
  if ctx == 'after':
    return 'x.q = 7\n\nx.p =' + stmt + '\n', 'x.p', None
  return 'x.q = 6\nx.p =' + stmt + '\nx.r = 8\n', 'x.p', 'x.r'


def _short(v):
  s = v if isinstance(v, str) else repr(v)
  return s if len(s) <= 160 else s[:157] + '...'


# (label, is the feature present in the text?, smallest text showing only that feature)
PROBES = [
    ('adjacent_strings_empty_piece', lambda t: "''" in t or '""' in t, "'' 'a'"),
    ('adjacent_strings', lambda t: t.count("'") + t.count('"') >= 4, "'a' 'b'"),
    ('one_tuple', lambda t: ',' in t and '(' in t, '(1,)'),
    ('parenthesised_value', lambda t: '(' in t, '(1)'),
    ('trailing_comma', lambda t: ',' in t, '[1, 2,]'),
    ('duplicate_dict_key', lambda t: '{' in t, '{1: 2, 1: 3}'),
    ('dict', lambda t: '{' in t, '{1: 2}'),
    ('comment_in_brackets', lambda t: '#' in t, '[1,  # c ]\n 2]'),
    ('break_after_open_bracket', lambda t: '\n' in t, '[\n1, 2]'),
    ('break_before_close_bracket', lambda t: '\n' in t, '[1, 2\n]'),
    ('break_after_comma', lambda t: '\n' in t, '[1,\n2]'),
    ('break_after_colon', lambda t: '\n' in t and '{' in t, '{1:\n2}'),
    ('continuation', lambda t: '\\\n' in t, "'a' \\\n 'b'"),
    ('minus', lambda t: '-' in t, '-1'),
    ('nested_container', lambda t: t[:1] in ('(', '[', '{'), '[[1], (2, 3)]'),
    ('empty_container', lambda t: t[:1] in ('(', '[', '{'), '[]'),
]


def _feature(case):
  """Kind of failing literal: the first single-feature probe, among the features the
  text has, that fails in the same context; 'atom'/'combination' when none does."""
  text = case['text']
  for label, present, probe in PROBES:
    if present(text):
      gin.clear_config()
      if _evaluate(dict(case, text=probe), diagnose=False):
        return label
  return 'combination' if text[:1] in ('(', '[', '{') or ' ' in text else 'atom'


def check(case):
  def x(p=None, q=None, r=None):
    return p
  gin.external_configurable(x, name='x', module='cm')
  return _evaluate(case)


def _evaluate(case, diagnose=True):
  text = case['text']
  config, key, sentinel = _build(case)
  try:
    py = ('ok', ast.literal_eval(text))
  except Exception as e:   # CPython rejects the text
    py = ('err', type(e).__name__)
  grammatical = py[0] == 'ok' and in_grammar(text)
  if case['mode'] == 'lit':
    assert grammatical, 'generator produced a text outside the grammar: %r' % text
  try:
    gin.parse_config(config)
    got = ('ok', None)
  except Exception as e:   # pylint: disable=broad-except
    got = ('err', e)
  bound = True
  try:
    value = gin.query_parameter(key)
  except ValueError:
    bound = False
  fails = []

  def fail(clause, expected, observed, sig):
    fails.append({'clause': clause, 'expected': _short(expected), 'observed': _short(observed),
                  'signature': '%s %s' % (clause, sig)})

  if grammatical:
    wrong = got[0] == 'ok' and (not bound or typed(value) != typed(py[1]))
    lost = False
    if sentinel and got[0] == 'ok':
      try:
        lost = not (gin.query_parameter(sentinel) == 8 and gin.query_parameter('x.q') == 6)
      except ValueError:
        lost = True
    if not (got[0] == 'err' or wrong or lost):
      return fails
    feat = _feature(case) if diagnose else '-'
    if got[0] == 'err':
      fail('literal_accepted', typed(py[1]), '%s: %s' % (
          type(got[1]).__name__, str(got[1]).split('\n')[0]),
           'exc=%s input=%s' % (type(got[1]).__name__, feat))
    elif wrong:
      fail('literal_value', typed(py[1]), typed(value) if bound else 'unbound',
           'input=%s' % feat)
    if lost:
      fail('next_statement_kept', 'x.q = 6 and x.r = 8', 'missing or changed',
           'input=%s' % feat)
    return fails

  kind = case.get('kind', 'lit')
  if kind != 'minus_ref' and _has_sigil(text):
    return fails   # `@ref` / `%macro` are gin values, not near-misses (never generated)
  if py[0] == 'ok':   # CPython evaluates it, but it is outside the stated grammar
    if got[0] == 'ok' and (not bound or typed(value) != typed(py[1])):
      fail('never_other_value', 'rejected, or ' + repr(typed(py[1])),
           typed(value) if bound else 'accepted, unbound', 'kind=%s accepted' % kind)
    elif got[0] == 'err' and bound:
      fail('never_other_value', 'nothing bound after rejection', typed(value),
           'kind=%s bound_after_error' % kind)
    return fails
  # not a literal for CPython either: must be rejected, nothing bound
  if got[0] == 'ok':
    fail('near_miss_rejected', 'SyntaxError or TokenError (CPython: %s)' % py[1],
         'accepted, %s = %s' % (key, typed(value) if bound else 'unbound'),
         'kind=%s accepted' % kind)
  else:
    syntactic = isinstance(got[1], (SyntaxError, tokenize.TokenError))
    # a well-formed literal that CPython cannot *evaluate* (unhashable key) may fail
    # with CPython's own error type
    if not syntactic and not (py[1] == 'TypeError' and isinstance(got[1], TypeError)):
      fail('near_miss_rejected', 'SyntaxError or TokenError', '%s: %s' % (
          type(got[1]).__name__, str(got[1]).split('\n')[0]),
           'kind=%s exc=%s' % (kind, type(got[1]).__name__))
    if bound:
      fail('never_other_value', 'nothing bound after rejection', typed(value),
           'kind=%s bound_after_error' % kind)
  return fails
