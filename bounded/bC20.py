"""C20 bounded stand-in: after any history, clear_config() gives the state of a fresh process.

A history of <= 8 public-API operations (several of them failing on purpose) is run on
the real gin, then `clear_config(clear_constants)`.  The same fixed observation script
(`_observe`: config_str, operative_config_str, config_is_locked, queries, constants,
probe calls, singleton use, re-binding, dynamic-registration re-parse, finalize) is then
run here and in a FRESH INTERPRETER that performed only the registrations (and, when
constants must survive, the surviving constants).  The two observations must be equal.
The reference is therefore Python starting from scratch, never a second clear_config.

Clause labels -> sentence of the property
  clear_total            "clear_config() succeeds" (after any history: locked, failed
                         operations, constants defined in interactive mode)
  no_bindings            "leaves no bindings"  (config_str, query_parameter, get_bindings)
  no_recorded_imports    "no recorded imports" (import lines of config_str)
  no_operative_record    "no operative record" (operative_config_str, also with provenance)
  unlocked               "an unlocked configuration"
  singletons_forgotten   "no cached singletons" (next use constructs a new object)
  constants_survive      "Constants survive unless clear_constants=True"
  only_required_remains  "in which case only gin.REQUIRED remains"
  as_fresh_calls         "indistinguishable through ... calls from a fresh process"
  registrations_remain   "while registered configurables remain" (bind + call after clear)

User constants in the `gin.` namespace (`gin.MY_SCALE`, `gin.contrib.RATE`, the members of an
enum published with constants_from_enum(module='gin.contrib.colors')) take part in the
histories like any other constant: with clear_constants=False they survive (the fresh
interpreter re-creates them), with clear_constants=True "only gin.REQUIRED remains": querying
them fails as in a fresh process and the closing `redefine` step of the observation script
defines them again, which succeeds exactly when a fresh process would accept it.
"""
import enum
import json
import logging
import os
import subprocess
import sys

import gin
from gin import config as gc

BOUNDS = ('histories of 1..8 operations drawn from 53 concrete operations (parse of 21 texts, 7 of '
          'them failing, bind incl. invalid keys, calls in 3 scopes, finalize, unlock_config with a '
          'raising body, constants incl. interactive shadowing, intermediate clear/observe), plus '
          '10 operations defining constants in the `gin.` namespace (2 names, re-definition, '
          'interactive, constants_from_enum under 3 module prefixes) and 1 text using them, then '
          'clear_config with both values of clear_constants; 20 gin-namespace + 63 '
          'single-operation + 240 scenario x ending histories, then 450 (quick) / 14000 '
          '(thorough) sampled histories')
EXHAUSTIVE = {'quick': False, 'thorough': False}

_DYN = ('from __gin__ import dynamic_registration\n'
        'from gin.testdata import dynamic_registration as dr\n')


# --- configurables (module level: the fresh interpreter registers the same objects) ---
def f(x=1, y='d'):
  return [x, y]


def g(y=2, z=None):
  return [y, getattr(z, 'a', z)]


def req(a):
  return a


class K:
  made = []

  def __init__(self, a=0):
    self.a = a
    K.made.append(self)


class Color(enum.Enum):
  RED = 1
  BLUE = 2


def _register():
  del K.made[:]
  gin.external_configurable(f, name='f', module='c20')
  gin.external_configurable(g, name='g', module='c20')
  gin.external_configurable(req, name='req', module='c20')
  gin.external_configurable(K, name='K', module='c20')


PARSE_TEXTS = [
    "f.x = 5\ns/f.y = 'sy'\ng.y = [1, 2]",
    "s/t/f.x = 7\nK.a = 3",
    "m = 4\nf.x = %m\ns/m = 'sm'",
    "f.x = @g()\ng.y = 9",
    "g.z = @K()\nK.a = 'k'",
    "sing/gin.singleton.constructor = @K\ng.z = @sing/gin.singleton()\nf.x = @sing/gin.singleton()",
    "a/b/gin.singleton.constructor = @K\ns/g.z = @a/b/gin.singleton()",
    "import math\nf.x = 2",
    "import os.path as osp\nfrom os import path",
    _DYN + "dr.function.arg = 3\nf.y = 'mixed'",
    _DYN + "dr.Class.a = @dr.function()\ndr.function.arg = 'q'",
    "f.x = %undefined_macro",
    "req.a = %gin.REQUIRED",
    # failing texts (statements before the fault may be applied)
    "f.x = 11\ng.y = ",
    "f.x = 12\nnope.y = 1",
    "f.x = 13\nf.nope = 1",
    "import math\nimport c20_no_such_module\nf.x = 14",
    "f.y = 'inc'\ninclude '/nonexistent/c20.gin'",
    "from __gin__ import no_such_feature",
    "f.x = %gin.MY_SCALE\ns/f.y = %gin.contrib.colors.Color.RED\ng.y = [%Color.BLUE, %gin.REQUIRED]",
]
# user constants living in gin's own namespace, next to gin.REQUIRED
GIN_CONSTANTS = [['gin.MY_SCALE', 5], ['gin.contrib.RATE', 0.5], ['gin.MY_SCALE', 6]]
ENUM_MODULES = ['gin.contrib.colors', 'colors', 'c20.colors']
CONSTANTS = [['C20_A', 10], ['mm.X', 1], ['X', 2], ['nn.mm.X', 'deep'], ['C20_A', 11],
             ['bad name', 0]]
BIND = [['f.x', 21], ['s/f.x', 22], ['g.y', 'gy'], ['s/t/g.y', 24], ['K.a', 25],
        ['nope.x', 1], ['f.nope', 1], ['req.a', 'ra']]
CALLS = [['f', ''], ['f', 's'], ['f', 's/t'], ['g', ''], ['g', 's'], ['req', ''], ['K', '']]


def _all_ops():
  ops = [{'op': 'parse', 'text': t, 'skip': False} for t in PARSE_TEXTS]
  ops += [{'op': 'parse', 'text': "f.x = @c20_unknown()\nnope.y = 1", 'skip': True}]
  ops += [{'op': 'bind', 'key': k, 'value': v} for k, v in BIND]
  ops += [{'op': 'call', 'fn': fn, 'scope': s} for fn, s in CALLS]
  ops += [{'op': 'constant', 'name': n, 'value': v, 'interactive': i}
          for n, v in CONSTANTS[:5] for i in (False, True)] + [
              {'op': 'constant', 'name': 'bad name', 'value': 0, 'interactive': False}]
  ops += [{'op': 'finalize'}, {'op': 'unlock_bind', 'key': 'f.y', 'value': 'u', 'raises': False},
          {'op': 'unlock_bind', 'key': 'g.y', 'value': 'u2', 'raises': True},
          {'op': 'clear', 'cc': False}, {'op': 'clear', 'cc': True}, {'op': 'observe'}]
  return ops + GIN_OPS


def _enum(module, interactive=False):
  return {'op': 'enum', 'module': module, 'interactive': interactive}


GIN_OPS = [{'op': 'constant', 'name': n, 'value': v, 'interactive': i}
           for n, v in GIN_CONSTANTS for i in (False, True)] + [
               _enum(m) for m in ENUM_MODULES] + [_enum('gin.contrib.colors', True)]


OPS = _all_ops()


def _p(i, skip=False):
  return {'op': 'parse', 'text': PARSE_TEXTS[i], 'skip': skip}


def _c(fn, scope=''):
  return {'op': 'call', 'fn': fn, 'scope': scope}


def _k(name, value, interactive):
  return {'op': 'constant', 'name': name, 'value': value, 'interactive': interactive}


FIN, OBS = {'op': 'finalize'}, {'op': 'observe'}
UNLOCK_RAISE = {'op': 'unlock_bind', 'key': 'g.y', 'value': 'u2', 'raises': True}
# short histories that each fill one of the stores clear_config must empty
SCENARIOS = {
    'bindings': [_p(0), _p(1), {'op': 'bind', 'key': 's/t/g.y', 'value': 24}],
    'operative': [_p(0), _c('f', 's'), _c('g')],
    'singleton': [_p(5), _c('g'), _c('f')],
    'singleton_scoped': [_p(6), _c('g', 's')],
    'imports': [_p(7), _p(8)],
    'dynamic': [_p(9), _p(10), _c('f')],
    'shadowing_constants': [_k('mm.X', 1, True), _k('X', 2, True), _k('C20_A', 10, False)],
    'legal_shadowing': [_k('X', 2, False), _k('mm.X', 1, False), _k('nn.mm.X', 'deep', False)],
    'macros': [_p(2), _c('f'), _p(11), _c('f')],
    'failed_ops': [_p(13), _p(14), _p(16), _p(17)],
    'unknown_refs': [{'op': 'parse', 'text': "f.x = @c20_unknown()\nnope.y = 1", 'skip': True},
                     _c('f')],
    'required': [_p(12), _c('req')],
    'gin_namespace_constants': [_k('gin.MY_SCALE', 5, False), _enum('gin.contrib.colors'), _p(19),
                                _c('f', 's')],
    'gin_and_user_constants': [_k('C20_A', 10, False), _k('gin.contrib.RATE', 0.5, True),
                               _enum('c20.colors'), _k('gin.MY_SCALE', 6, False)],
    'gin_namespace_shadowing': [_enum('colors'), _enum('gin.contrib.colors', True),
                                _k('gin.MY_SCALE', 5, True), _k('gin.MY_SCALE', 6, True)],
}


def _modified(s):
  """A scenario alone and followed by the ways of ending a history named in the property."""
  return [s, s + [FIN], (s + [FIN] + s)[:8], s + [FIN, FIN, UNLOCK_RAISE], s + [FIN, OBS],
          s[:2] + [{'op': 'clear', 'cc': False}] + s, s[:2] + [{'op': 'clear', 'cc': True}] + s,
          s + [OBS, _p(13)]]


def cases(tier, rng):
  for op in GIN_OPS:   # a user constant in the `gin.` namespace, then either kind of clear
    for cc in (True, False):
      yield {'history': [op], 'cc': cc}
  for op in OPS:   # every single operation, then the clear
    yield {'history': [op], 'cc': False}
  for name in sorted(SCENARIOS):
    for h in _modified(SCENARIOS[name]):
      for cc in (False, True):
        yield {'history': h, 'cc': cc}
  names = sorted(SCENARIOS)
  n = 450 if tier == 'quick' else 14000
  for i in range(n):
    if i % 3 == 0:   # uniformly random operations
      h = [rng.choice(OPS) for _ in range(rng.randint(1, 8))]
    else:            # random interleaving of two scenarios with a few random operations
      a, b = list(SCENARIOS[rng.choice(names)]), list(SCENARIOS[rng.choice(names)])
      extra = [rng.choice([FIN, OBS, UNLOCK_RAISE, rng.choice(OPS)]) for _ in range(rng.randint(0, 3))]
      h = []
      while (a or b or extra) and len(h) < 8:
        src = rng.choice([x for x in (a, b, extra) if x])
        h.append(src.pop(0))
    yield {'history': h, 'cc': rng.random() < 0.4}


def nontrivial(case):
  return bool(case['history'])


class _BodyError(Exception):
  pass


_THIS_FILE = os.path.abspath(__file__)


def _reraise_if_mine(e):
  """A fault whose innermost frame is in this file is a bug of the stand-in, not an outcome."""
  tb = e.__traceback__   # (walked by hand: traceback.extract_tb reads the source lines)
  while tb is not None and tb.tb_next is not None:
    tb = tb.tb_next
  if tb is not None and not isinstance(e, _BodyError) and os.path.abspath(
      tb.tb_frame.f_code.co_filename) == _THIS_FILE:
    raise e


def _try(fn):
  try:
    v = fn()
  except Exception as e:   # only the kind of outcome is compared, never the message
    _reraise_if_mine(e)
    return ['exc', type(e).__name__]
  if isinstance(v, list):
    v = [_enum_name(x) for x in v]
  v = _enum_name(v)
  try:
    json.dumps(v)
  except (TypeError, ValueError):
    v = 'non-json:' + type(v).__name__
  return ['ok', v]


def _enum_name(v):
  return 'enum:%s.%s' % (type(v).__name__, v.name) if isinstance(v, enum.Enum) else v


def _call(fn, scope):
  target = gin.get_configurable('c20.' + fn)
  with gin.config_scope(scope):
    r = target()
  return r.a if isinstance(r, K) else r


def _run_op(op, consts):
  """One history operation; every outcome (incl. an exception) is a legal part of a history."""
  try:
    kind = op['op']
    if kind == 'parse':
      gin.parse_config(op['text'], skip_unknown=op['skip'])
    elif kind == 'bind':
      gin.bind_parameter(op['key'], op['value'])
    elif kind == 'call':
      _call(op['fn'], op['scope'])
    elif kind == 'finalize':
      gin.finalize()
    elif kind == 'unlock_bind':
      with gin.unlock_config():
        gin.bind_parameter(op['key'], op['value'])
        if op['raises']:
          raise _BodyError('body of unlock_config fails')
    elif kind == 'constant':
      if op['interactive']:
        with gc.interactive_mode():
          gin.constant(op['name'], op['value'])
      else:
        gin.constant(op['name'], op['value'])
      consts[op['name']] = op['value']     # reached only when constant() succeeded
    elif kind == 'enum':
      # All members share the module prefix, so either the first one is refused (nothing is
      # defined) or every member is accepted: reaching the next line means all were defined.
      if op['interactive']:
        with gc.interactive_mode():
          gin.constants_from_enum(Color, module=op['module'])
      else:
        gin.constants_from_enum(Color, module=op['module'])
      for member in Color:
        consts['%s.Color.%s' % (op['module'], member.name)] = {'c20_enum_member': member.name}
    elif kind == 'clear':
      gin.clear_config(clear_constants=op['cc'])
      if op['cc']:
        consts.clear()
    elif kind == 'observe':
      gin.config_str()
      gin.operative_config_str()
  except Exception as e:   # pylint: disable=broad-except
    _reraise_if_mine(e)


QUERY_KEYS = ['f.x', 'f.y', 's/f.x', 's/f.y', 's/t/f.x', 'g.y', 'g.z', 's/g.z', 's/t/g.y', 'K.a',
              'req.a', 'm/gin.macro.value', 's/m/gin.macro.value',
              'sing/gin.singleton.constructor', 'a/b/gin.singleton.constructor',
              'function.arg', 'Class.a']
CONST_NAMES = ['C20_A', 'mm.X', 'X', 'nn.mm.X', 'gin.REQUIRED', 'REQUIRED', 'gin.MY_SCALE', 'MY_SCALE',
               'gin.contrib.RATE', 'RATE', 'gin.contrib.colors.Color.RED', 'colors.Color.BLUE',
               'c20.colors.Color.RED', 'Color.RED']


def _macro_value(name):
  v = gc.parse_value('%' + name).scoped_configurable_fn()   # what `%name` evaluates to
  return 'REQUIRED' if v is gin.REQUIRED else v


def _observe():
  """The fixed observation script (public API only). Mutates gin; run once per state."""
  o = {}
  o['config_str'] = _try(gin.config_str)
  o['config_str_prov'] = _try(lambda: gin.config_str(show_provenance=True))
  o['operative_str'] = _try(gin.operative_config_str)
  o['locked'] = gin.config_is_locked()
  o['queries'] = {k: _try(lambda k=k: gin.query_parameter(k)) for k in QUERY_KEYS}
  o['bindings'] = {s: _try(lambda s=s: gin.get_bindings(s))
                   for s in ['c20.f', 's/c20.f', 's/t/c20.g', 'c20.K', 'c20.req']}
  o['constants'] = {
      n: _try(lambda n=n: 'REQUIRED' if gin.query_parameter(n) is gin.REQUIRED
              else gin.query_parameter(n)) for n in CONST_NAMES}
  o['constant_macros'] = {n: _try(lambda n=n: _macro_value(n)) for n in CONST_NAMES}
  o['calls'] = [_try(lambda c=c: _call(*c)) for c in CALLS]
  o['operative_after_calls'] = _try(lambda: gin.operative_config_str(show_provenance=True))
  # singleton use after re-binding: exactly one construction, shared by both consumers
  before = len(K.made)
  o['singleton'] = [
      _try(lambda: gin.parse_config(PARSE_TEXTS[5])),
      _try(lambda: _call('g', '')), _try(lambda: _call('g', 's')),
      _try(lambda: gin.get_configurable('c20.f')()[0] in K.made[-1:])]
  o['singleton_constructions'] = len(K.made) - before
  # registrations remain: bind, import, call
  o['rebind'] = [_try(lambda: gin.parse_config("import math\nf.x = 7\ns/f.y = %C20_A")),
                 _try(lambda: _call('f', 's')), _try(lambda: _call('req', '')),
                 _try(lambda: gin.bind_parameter('req.a', 'r')), _try(lambda: _call('req', ''))]
  o['config_str_rebound'] = _try(lambda: gin.config_str(show_provenance=True))
  o['dynamic'] = [_try(lambda: gin.parse_config(_DYN + "dr.function.arg = 'obs'")),
                  _try(gin.config_str), _try(lambda: gin.query_parameter('function.arg'))]
  o['finalize'] = [_try(gin.finalize), gin.config_is_locked(), _try(lambda: gin.bind_parameter('f.x', 0))]
  o['operative_final'] = _try(gin.operative_config_str)
  # names in the `gin.` namespace can be (re)defined exactly when a fresh process accepts it
  o['redefine'] = [_try(lambda: gin.constant('gin.MY_SCALE', 7)), _try(lambda: _macro_value('gin.MY_SCALE')),
                   _try(lambda: gin.constant('gin.contrib.RATE', 0.25)), _try(lambda: _macro_value('RATE')),
                   _try(lambda: gin.constants_from_enum(Color, module='gin.contrib.colors') and None),
                   _try(lambda: _macro_value('gin.contrib.colors.Color.BLUE')),
                   _try(lambda: gin.parse_config(PARSE_TEXTS[19])), _try(lambda: _call('f', 's')),
                   _try(lambda: gin.constant('gin.REQUIRED', 0))]
  return o


CLAUSE_OF = {
    'config_str': 'no_bindings', 'config_str_prov': 'no_bindings', 'queries': 'no_bindings',
    'bindings': 'no_bindings', 'operative_str': 'no_operative_record',
    'operative_after_calls': 'no_operative_record', 'locked': 'unlocked',
    'calls': 'as_fresh_calls', 'singleton': 'singletons_forgotten',
    'singleton_constructions': 'singletons_forgotten', 'rebind': 'registrations_remain',
    'config_str_rebound': 'no_recorded_imports', 'dynamic': 'no_recorded_imports',
    'finalize': 'unlocked', 'operative_final': 'as_fresh_calls'}

_FRESH_CACHE = {}


def _fresh(consts):
  """Observation of a fresh interpreter that made the registrations (+ surviving constants)."""
  key = json.dumps(sorted(consts.items()))
  if key not in _FRESH_CACHE:
    repo = os.path.dirname(os.path.dirname(os.path.abspath(gin.__file__)))
    verif = os.path.dirname(os.path.dirname(os.path.abspath(__file__)))
    env = dict(os.environ, PYTHONPATH=os.pathsep.join([repo, verif]), PYTHONHASHSEED='0')
    p = subprocess.run(
        [sys.executable, '-c', 'from bounded import bC20; bC20._fresh_main()'],
        input=key, capture_output=True, text=True, env=env, timeout=120, cwd=verif)
    if p.returncode != 0:
      raise RuntimeError('fresh interpreter failed: ' + p.stderr[-500:])
    _FRESH_CACHE[key] = json.loads(p.stdout)
  return _FRESH_CACHE[key]


def _fresh_main():
  consts = json.loads(sys.stdin.read())
  _register()
  with gc.interactive_mode():   # shadowing constants can only be re-created interactively
    for name, value in consts:
      if isinstance(value, dict) and 'c20_enum_member' in value:
        value = Color[value['c20_enum_member']]
      gin.constant(name, value)
  json.dump(_observe(), sys.stdout)


def _const_kind(consts):
  names = list(consts)
  if any(a != b and a.endswith('.' + b) for a in names for b in names):
    return 'shadowing'
  return 'plain' if names else 'none'


def check(case):
  logging.disable(logging.CRITICAL)   # failing includes/imports log by design
  try:
    return _check(case)
  finally:
    logging.disable(logging.NOTSET)


def _check(case):
  _register()
  consts = {}
  for op in case['history']:
    _run_op(op, consts)
  cc = case['cc']
  try:
    gin.clear_config(clear_constants=cc)
  except Exception as e:   # pylint: disable=broad-except
    return [{'clause': 'clear_total', 'expected': 'clear_config returns normally',
             'observed': '%s: %s' % (type(e).__name__, str(e)[:120]),
             'signature': 'clear_total exc=%s cc=%s constants=%s' % (
                 type(e).__name__, cc, _const_kind(consts))}]
  if cc:
    consts = {}
  got = json.loads(json.dumps(_observe()))   # same normal form as the fresh interpreter's
  want = _fresh(consts)
  fails = []
  for k in want:
    if got.get(k) == want[k]:
      continue
    clause = CLAUSE_OF.get(k)
    if k in ('config_str', 'config_str_prov', 'operative_str') and any(
        l.startswith(('import ', 'from ')) for l in str(got[k][1]).split('\n')):
      clause = 'no_recorded_imports'
    if clause is None:   # 'constants', 'constant_macros'
      clause = 'only_required_remains' if cc else 'constants_survive'
    sub = k
    if isinstance(want[k], dict):
      sub = k + ':' + ','.join(sorted(s for s in want[k] if got[k].get(s) != want[k][s]))[:60]
    fails.append({'clause': clause, 'expected': {k: want[k]}, 'observed': {k: got.get(k)},
                  'signature': '%s at=%s cc=%s' % (clause, sub, cc)})
  return fails[:4]
