"""C17 bounded stand-in: exceptions from configurables keep type, data and traceback.

Run-time contract on the real `utils.augment_exception_message_and_reraise` and on
raising configurables (5 registration kinds, nesting depth 1-3, 3 scopes, plain calls
and reference evaluation), over every builtin exception class and 12 user shapes.

Clause labels (sentence of the property each one stands for):
  same_class            "reaches the caller as an instance of the same exception class"
                        (isinstance of the original's class; another exception coming
                        out instead -- e.g. a TypeError from building the carrier -- is
                        reported here with signature `masked_by=...`)
  same_except_clauses   "catchable by the same except clauses": for every builtin
                        exception class B, isinstance(caught, B) == isinstance(orig, B)
  class_identity        "the same exception class": type(caught) reports the original's
                        __name__ / __qualname__ / __module__
  traceback             "carrying the original traceback": the original's traceback
                        entries are a suffix of the caught one's, which ends at the raise site
  attr_equal            "every public attribute readable on the original (including args
                        and type-specific fields such as errno or value) reading the same"
  message               "only its message is extended, naming the configurable and the
                        active scope": str(caught) = str(original) + suffix; the suffix
                        names each augmenting configurable (innermost first) and the scope
  passthrough           "Exceptions that are not Exception subclasses pass through
                        untouched": the caught object IS the raised one, str unchanged
Expected values come from the original exception object itself (kept by the oracle) and
from Python's own isinstance/traceback machinery, never from a second gin call.

History dimension (mode 'twins'): 2-3 DISTINCT exception classes that share `__module__`
and `__qualname__` (class statement in a factory called twice, 3-argument type() called
twice, the same source executed twice as a module reload does, a user class that calls
itself builtins.<Name>) are raised one after the other through the SAME configurables.
Every step is checked with all the clauses above against ITS OWN class; in addition
`same_class` demands isinstance(caught, own class) and `same_except_clauses` runs a real
try/except over the twin classes: the clause that catches the original must be the one
that catches what gin delivers.  All twin instances are built without arguments.
"""
import builtins
import dataclasses
import itertools

import gin
from gin import utils

BOUNDS = ('every exception class in `builtins` (67, exhaustive) x up to 4 class-appropriate '
          'argument variants, plus 12 user-defined shapes x 2 variants; contexts: direct '
          'augment call, 5 registration kinds x nesting depth 1-3 x 3 scopes, and reference '
          'evaluation chains of depth 1-3 x 3 scopes; quick takes a covering rotation of '
          'the contexts per (class, variant), thorough the full product; plus histories '
          '(order strings of length 2-5 over 2-3 classes) of twin classes sharing module and '
          'qualname: 4 ways of making them x 5 bases x {augment, call depth 1-3, ref depth 1-2} '
          'x 5 kinds x 3 scopes: 34 fixed + 60 (quick) / 600 (thorough) seeded histories')
EXHAUSTIVE = {'quick': False, 'thorough': True}

_BUILTIN = {}
for _n in sorted(dir(builtins)):
  _v = getattr(builtins, _n)
  if isinstance(_v, type) and issubclass(_v, BaseException) and _v.__name__ == _n:
    _BUILTIN[_n] = _v
_FAMILIES = [BaseExceptionGroup, OSError, SyntaxError, ImportError, UnicodeDecodeError,
             UnicodeEncodeError, UnicodeTranslateError, StopIteration, AttributeError,
             NameError, SystemExit]
KINDS = ['configurable', 'external', 'register', 'cfg_class', 'ext_class']
SCOPES = ['', 'zqs', 'zqa/zqb']
_OBJ = ['some', 'object']


# ---- user shapes -------------------------------------------------------------------
class UPlain(Exception):
  pass


class UInitReq(Exception):

  def __init__(self, code, detail):
    super().__init__(code, detail)
    self.code = code
    self.detail = detail


class UInitNoSuper(Exception):

  def __init__(self, a=None, b=None):
    self.a = a
    self.b = b


class UNewReq(Exception):

  def __new__(cls, a, b):
    self = super().__new__(cls, a, b)
    self.a = a
    self.b = b
    return self


class UAttrs(Exception):
  retryable = False

  def __init__(self, *args):
    super().__init__(*args)
    self.items = list(args)
    self.mapping = {'n': len(args)}
    self.retryable = bool(args)


class USlots(Exception):
  __slots__ = ('x', 'y')

  def __init__(self, x=1, y=2):
    super().__init__(x, y)
    self.x = x
    self.y = y


class UStr(Exception):

  def __str__(self):
    return '<<%s|%d>>' % ('|'.join(map(str, self.args)), len(self.args))


class UProp(Exception):

  def __init__(self, *args):
    super().__init__(*args)
    self._hidden = len(args)

  @property
  def arity(self):
    return len(self.args)

  @property
  def hidden_plus_one(self):
    return self._hidden + 1


class UKwOnly(Exception):

  def __init__(self, *, reason='none'):
    super().__init__(reason)
    self.reason = reason


@dataclasses.dataclass
class UData(Exception):
  code: int = 0
  text: str = ''


class UOSErr(OSError):

  def __init__(self, *args, extra='e'):
    super().__init__(*args)
    self.extra = extra


class UMulti(KeyError, AttributeError):
  pass


class UBase(BaseException):

  def __init__(self, *args):
    super().__init__(*args)
    self.payload = args


_USER = {c.__name__: c for c in (UPlain, UInitReq, UInitNoSuper, UNewReq, UAttrs, USlots, UStr,
                                 UProp, UKwOnly, UData, UOSErr, UMulti, UBase)}


def _variants(name):
  """Variant labels for a class; 'v0' (no arguments) exists when the class allows it."""
  cls = _BUILTIN.get(name) or _USER[name]
  if issubclass(cls, BaseExceptionGroup):
    return ['g1', 'g2']
  if issubclass(cls, (UnicodeDecodeError, UnicodeEncodeError, UnicodeTranslateError)):
    return ['u1', 'u2']
  if name in ('UInitReq', 'UNewReq'):
    return ['r1', 'r2']
  if name == 'UKwOnly':
    return ['v0', 'k1']
  if name == 'UData':
    return ['v0', 'd1']
  if issubclass(cls, SyntaxError):
    return ['v0', 'v1', 's2', 's3']
  out = ['v0', 'v1', 'v2']
  if issubclass(cls, OSError):
    out += ['e2', 'e3', 'e5']
  if name in _BUILTIN and issubclass(cls, (ImportError, AttributeError, NameError)):
    out += ['kw']
  return out


def _make(name, variant):
  cls = _BUILTIN.get(name) or _USER[name]
  if variant == 'v0':
    return cls()
  if variant == 'v1':
    return cls('boom')
  if variant == 'v2':
    return cls('boom', 7)
  if variant == 'g1':
    sub = [KeyboardInterrupt('ki')] if cls is BaseExceptionGroup else [ValueError(1)]
    return cls('grp', sub)
  if variant == 'g2':
    last = SystemExit(3) if cls is BaseExceptionGroup else ExceptionGroup('n', [KeyError('k')])
    return cls('grp2', [ValueError(1), OSError(2, 'inner'), last])
  if variant in ('u1', 'u2'):
    long = variant == 'u2'
    if issubclass(cls, UnicodeDecodeError):
      return cls('utf-8', b'ab\xff\xfe' if long else b'\xff', 2 if long else 0, 4 if long else 1, 'bad byte')
    if issubclass(cls, UnicodeEncodeError):
      return cls('ascii', u'ab\xe9\xe8' if long else u'\xe9', 2 if long else 0, 4 if long else 1, 'ordinal')
    return cls(u'ab\xe9\xe8' if long else u'\xe9', 2 if long else 0, 4 if long else 1, 'no mapping')
  if variant in ('r1', 'r2'):
    return cls(404, 'missing') if variant == 'r1' else cls(('t', 1), None)
  if variant == 'k1':
    return cls(reason='because')
  if variant == 'd1':
    return cls(5, 'five')
  if variant == 'e2':
    return cls(2, 'No such thing')
  if variant == 'e3':
    if issubclass(cls, BlockingIOError):
      return cls(11, 'would block', 5)
    return cls(13, 'denied', '/p/f')
  if variant == 'e5':
    return cls(1, 'op failed', '/a', None, '/b')
  if variant == 's2':
    return cls('bad syntax', ('f.py', 3, 5, 'x ==', 3, 7))
  if variant == 's3':
    return cls('old style', ('g.py', 1, 2, 'y ='))
  if variant == 'kw':
    if issubclass(cls, ImportError):
      return cls('cannot import', name='modname', path='/p/mod.py')
    if issubclass(cls, AttributeError):
      return cls('no attr', name='attrname', obj=_OBJ)
    return cls('no name', name='varname')
  raise AssertionError(variant)


def _family(orig):
  if type(orig).__name__ in _USER:
    return 'user:' + type(orig).__name__
  for f in _FAMILIES:
    if isinstance(orig, f):
      return f.__name__
  return 'plain'


# ---- twin classes: distinct classes with equal __module__ and __qualname__ -----------
TWIN_HOWS = ['factory', 'type_call', 'reload', 'shadow_builtin']
TWIN_BASES = ['Exception', 'ValueError', 'KeyError', 'OSError', 'LookupError']
_TWIN_SRC = 'class Twin(BASE):\n  tag = TAG\n'


def _twin_factory(base, tag):

  class Twin(base):
    pass

  Twin.tag = tag
  return Twin


def _twin_classes(how, base_name, labels):
  """One class per label; all of them report the same __module__ and __qualname__."""
  base, out = _BUILTIN[base_name], {}
  for lab in labels:
    if how == 'factory':
      out[lab] = _twin_factory(base, lab)
    elif how == 'type_call':
      out[lab] = type('Twin', (base,), {'tag': lab})
    elif how == 'reload':  # what importlib.reload does: same source, same module name, new class
      ns = {'__name__': 'c17_reloaded', 'BASE': base, 'TAG': lab}
      exec(_TWIN_SRC, ns)  # pylint: disable=exec-used
      out[lab] = ns['Twin']
    elif lab == 'A':       # shadow_builtin: the real builtin, then user classes of that name
      out[lab] = base
    else:
      out[lab] = type(base_name, (Exception,), {'__module__': 'builtins', 'tag': lab})
  first = out[labels[0]]
  for c in out.values():
    assert (c.__module__, c.__qualname__) == (first.__module__, first.__qualname__)
  assert len(set(out.values())) == len(labels)
  return out


def _twin_ctxs():
  yield {'mode': 'augment'}
  for kind, depth, scope in itertools.product(KINDS, (1, 2, 3), SCOPES):
    yield {'mode': 'call', 'kind': kind, 'depth': depth, 'scope': scope}
  for kind, depth, scope in itertools.product(KINDS, (1, 2), SCOPES):
    yield {'mode': 'ref', 'kind': kind, 'depth': depth, 'scope': scope}


def _twin_fixed():
  def t(how, base, order, **ctx):
    return {'mode': 'twins', 'how': how, 'base': base, 'order': order, 'ctx': ctx}
  for i, how in enumerate(TWIN_HOWS):
    base = TWIN_BASES[i % len(TWIN_BASES)]
    yield t(how, base, 'AB', mode='augment')
    yield t(how, base, 'AB', mode='call', kind='configurable', depth=1, scope='')
    yield t(how, base, 'AB', mode='call', kind=KINDS[i], depth=2, scope='zqs')
    yield t(how, base, 'AB', mode='ref', kind='configurable', depth=1, scope='')
    yield t(how, TWIN_BASES[(i + 1) % 5], 'ABA', mode='ref', kind=KINDS[i + 1], depth=2, scope='zqa/zqb')
    yield t(how, TWIN_BASES[(i + 2) % 5], 'ABAB', mode='call', kind='ext_class', depth=3, scope='zqs')
    yield t(how, TWIN_BASES[(i + 3) % 5], 'ABCA', mode='call', kind='register', depth=2, scope='')
    yield t(how, TWIN_BASES[(i + 4) % 5], 'BA', mode='call', kind='cfg_class', depth=1, scope='zqa/zqb')
  yield t('factory', 'OSError', 'AABBA', mode='call', kind='external', depth=2, scope='')
  yield t('shadow_builtin', 'KeyError', 'BCA', mode='ref', kind='external', depth=1, scope='zqs')


def _twin_seeded(rng, n):
  ctxs = list(_twin_ctxs())
  for _ in range(n):
    labels = 'AB' if rng.random() < 0.7 else 'ABC'
    order = ''
    while len(set(order)) < 2:
      order = ''.join(rng.choice(labels) for _ in range(rng.randint(2, 5)))
    yield {'mode': 'twins', 'how': rng.choice(TWIN_HOWS), 'base': rng.choice(TWIN_BASES),
           'order': order, 'ctx': dict(rng.choice(ctxs))}


# ---- cases -------------------------------------------------------------------------
def _contexts_all():
  yield {'mode': 'augment'}
  for kind, depth, scope in itertools.product(KINDS, (1, 2, 3), SCOPES):
    yield {'mode': 'call', 'kind': kind, 'depth': depth, 'scope': scope}
  for depth, scope in itertools.product((1, 2, 3), SCOPES):
    yield {'mode': 'ref', 'kind': KINDS[depth % len(KINDS)], 'depth': depth, 'scope': scope}


_CALLS = [c for c in _contexts_all() if c['mode'] == 'call']
_REFS = [c for c in _contexts_all() if c['mode'] == 'ref']


def _contexts_quick(i):
  """Covering rotation: over 15 consecutive i every call context is reached, over 9 every ref."""
  yield {'mode': 'augment'}
  for j in range(3):
    yield _CALLS[(i + 15 * j) % len(_CALLS)]
  yield _REFS[i % len(_REFS)]


_SHOWCASE = {'OSError': 'e3', 'SyntaxError': 's2', 'ImportError': 'kw', 'AttributeError': 'kw',
             'NameError': 'kw', 'plain': 'v2'}


def cases(tier, rng):
  # History dimension first (fixed, then seeded): twin classes sharing module and qualname.
  yield from _twin_fixed()
  yield from _twin_seeded(rng, 60 if tier == 'quick' else 600)
  names = list(_BUILTIN) + list(_USER)
  pairs = [(n, v) for n in names for v in _variants(n)]
  # Phase 1: instances without data (args == (); every clause but data fidelity has bite
  # there) and the non-Exception classes.  Phase 2: instances that carry data; it opens
  # with one context for one representative of each family.
  def is_pass(n):
    return not issubclass(_BUILTIN.get(n) or _USER[n], Exception)
  phase1 = [p for p in pairs if is_pass(p[0]) or _make(*p).args == ()]
  phase2 = [p for p in pairs if p not in phase1]
  fams = {}
  for p in phase2:
    fam = _family(_make(*p))
    if fam not in fams or p[1] == _SHOWCASE.get(fam):
      fams[fam] = p
  def ctx_cases(i, n, v):
    for ctx in (_contexts_quick(i) if tier == 'quick' else _contexts_all()):
      if not (ctx['mode'] == 'augment' and is_pass(n)):  # augment's own contract: Exceptions
        yield dict(ctx, exc=n, variant=v)
  for i, (n, v) in enumerate(phase1):
    yield from ctx_cases(i, n, v)
  for i, (n, v) in enumerate(sorted(fams.values(), key=lambda p: (p[0] in _USER, p))):
    yield dict(_CALLS[(7 * i) % len(_CALLS)], exc=n, variant=v)
  if tier != 'quick':
    rng.shuffle(phase2)
  for i, (n, v) in enumerate(phase2):
    yield from ctx_cases(i + len(phase1), n, v)


# ---- running one case --------------------------------------------------------------
_CUR = {}


def _raise_it():
  raise _CUR['exc']


_RAISE_LINE = _raise_it.__code__.co_firstlineno + 1


def _build_level(kind, i, inner):
  """Registers level i under `kind`; returns (callable reaching the registry version, name)."""
  name = 'lvl%d_%s' % (i, 'raiser' if i == 1 else 'relay')

  def _lvl_body(x=None):
    if inner is None:
      _raise_it()
    return inner()

  if kind in ('cfg_class', 'ext_class'):

    class Holder:

      def __init__(self, x=None):
        _lvl_body(x)

    if kind == 'cfg_class':
      return gin.configurable(name, module='c17')(Holder), name
    return gin.external_configurable(Holder, name=name, module='c17'), name
  if kind == 'configurable':
    return gin.configurable(name, module='c17')(_lvl_body), name
  if kind == 'external':
    return gin.external_configurable(_lvl_body, name=name, module='c17'), name
  gin.register(name, module='c17')(_lvl_body)
  return (lambda: gin.get_configurable(_lvl_body)()), name


def _prepare(case):
  """Registers the configurables of the context.  Returns (thunk that raises _CUR['exc']
  through them, names of the configurables that must be named, exact suffix or None)."""
  names, exact = [], None
  if case['mode'] == 'augment':
    exact = '\n  [augmented by the oracle]'

    def run():
      try:
        _raise_it()
      except BaseException as e:  # pylint: disable=broad-except
        utils.augment_exception_message_and_reraise(e, exact)

  elif case['mode'] == 'call':
    fn = None
    for i in range(1, case['depth'] + 1):
      fn, name = _build_level(case['kind'], i, fn)
      names.append(name)

    def run():
      with gin.config_scope(case['scope']):
        fn()

  else:  # a chain of `depth` references: lvl_(i+1).x = @[scope/]c17.lvl_i(); lvl_1 raises
    run = None
    for i in range(1, case['depth'] + 2):
      run, name = _build_level(case['kind'], i, None)
      if i > 1:
        sc = case['scope'] + '/' if case['scope'] else ''
        gin.parse_config('c17.%s.x = @%sc17.%s()' % (name, sc, names[-1]))
      names.append(name)
    names = names[:1]  # only the configurable the exception was raised in must be named
  return run, names, exact


def _run(run, orig):
  """The exception that reaches the caller when `orig` is raised through `run` (or None)."""
  _CUR['exc'] = orig
  try:
    run()
  except BaseException as e:  # pylint: disable=broad-except
    return e
  finally:
    _CUR.clear()
  return None


def _invoke(case, orig):
  """Returns (caught exception or None, names of the configurables that must be named,
  exact message suffix or None)."""
  try:
    run, names, exact = _prepare(case)
  except BaseException as e:  # pylint: disable=broad-except
    return e, [], None
  return _run(run, orig), names, exact


def _tb_entries(exc):
  out, tb = [], exc.__traceback__
  while tb is not None:
    out.append((tb.tb_frame.f_code, tb.tb_lineno))
    tb = tb.tb_next
  return out


def _tb_gaps(exc):
  """Consecutive traceback entries must be caller -> callee, as unwinding produces them; the
  one re-raise Gin performs (`raise proxy.with_traceback(tb)` inside the augmenting helper)
  splices the saved traceback, whose first entry is the frame that called the helper."""
  gaps, tb = [], exc.__traceback__
  while tb is not None and tb.tb_next is not None:
    a, b = tb.tb_frame, tb.tb_next.tb_frame
    if b.f_back is not a and not (
        a.f_code.co_name == 'augment_exception_message_and_reraise' and b is a.f_back):
      gaps.append('%s -> %s' % (a.f_code.co_name, b.f_code.co_name))
    tb = tb.tb_next
  return gaps


def _short(v):
  r = repr(v)
  return r if len(r) <= 70 else r[:67] + '...'


def _readable_public(orig):
  out = {}
  for n in dir(orig):
    if n.startswith('_'):
      continue
    try:
      v = getattr(orig, n)
    except Exception:  # pylint: disable=broad-except
      continue
    if not callable(v):
      out[n] = v
  return out


def _same(a, b):
  if a is b:
    return True
  try:
    return bool(a == b)
  except Exception:  # pylint: disable=broad-except
    return False


def _catching_clause(exc, classes):
  """Label of the first `except <class>` clause, tried in the order given, that catches
  `exc` in a real try/except (None: none of them).  Adds a frame to exc.__traceback__."""
  for lab, cls in classes:
    try:
      try:
        raise exc
      except cls:
        return lab
    except BaseException:  # pylint: disable=broad-except
      continue
  return None


def check(case):
  if case['mode'] == 'twins':
    return _check_twins(case)
  orig = _make(case['exc'], case['variant'])
  before = _readable_public(orig)
  text = str(orig)
  caught, names, exact = _invoke(case, orig)
  return _compare(case, orig, before, text, _family(orig), caught, names, exact)


def _check_twins(case):
  ctx, how = case['ctx'], case['how']
  classes = _twin_classes(how, case['base'], sorted(set(case['order']) | {'A', 'B'}))
  run, names, exact = _prepare(ctx)
  fails, raised = [], []
  for lab in case['order']:
    own = classes[lab]
    orig = own()
    before, text = _readable_public(orig), str(orig)
    fam = 'twin:%s' % how
    hist = 'after_other_twin' if any(r != lab for r in raised) else 'first_of_its_name'
    raised.append(lab)
    caught = _run(run, orig)
    step = _compare(ctx, orig, before, text, fam, caught, names, exact)
    if caught is not None and isinstance(caught, Exception):
      # "catchable by the same except clauses", with real except clauses over the twins:
      # every rotation of the clause order must pick the same clause as for the original.
      labs = sorted(classes)
      for k in range(len(labs)):
        order = [(l, classes[l]) for l in labs[k:] + labs[:k]]
        want, got = _catching_clause(orig, order), _catching_clause(caught, order)
        if want != got:
          step.append({'clause': 'same_except_clauses',
                       'expected': 'caught by `except <twin %s>`' % want,
                       'observed': 'caught by `except <twin %s>`' % got if got else 'not caught',
                       'signature': 'same_except_clauses fam=%s real_except_clause' % fam})
          break
    for f in step:  # few, stable signatures: the class that came out instead is in `observed`
      if f['clause'] == 'same_class':
        f['signature'] = 'same_class fam=%s not_instance_of_own_class' % fam
      f['observed'] = {'step': '%s (%s) of %s' % (lab, hist, case['order']), 'got': f['observed']}
    fails.extend(step)
  return fails


def _compare(case, orig, before, text, fam, caught, names, exact):
  fails = []

  def fail(clause, expected, observed, sig):
    fails.append({'clause': clause, 'expected': expected, 'observed': observed,
                  'signature': '%s fam=%s %s' % (clause, fam, sig)})

  if caught is None:
    fail('same_class', type(orig).__name__, 'no exception reached the caller', 'nothing_raised')
    return fails
  if not isinstance(orig, Exception):
    if caught is not orig or str(caught) != text or not _same(caught.args, before['args']):
      fail('passthrough', 'the raised %s object itself' % type(orig).__name__,
           '%s: %s' % (type(caught).__name__, _short(str(caught))), 'mode=' + case['mode'])
    return fails
  if not isinstance(caught, type(orig)):
    fail('same_class', type(orig).__name__, '%s: %s' % (type(caught).__name__, _short(str(caught))),
         'masked_by=' + type(caught).__name__)
    return fails
  wrong = [b.__name__ for b in _BUILTIN.values() if isinstance(caught, b) != isinstance(orig, b)]
  if wrong:
    fail('same_except_clauses', 'same isinstance answers', wrong, 'classes=' + ','.join(wrong))
  for a in ('__name__', '__qualname__', '__module__'):
    if getattr(type(caught), a) != getattr(type(orig), a):
      fail('class_identity', getattr(type(orig), a), getattr(type(caught), a), 'attr=' + a)
  # traceback: the innermost entry is the raise site and the original's entries are a suffix
  got, want = _tb_entries(caught), _tb_entries(orig) or [(_raise_it.__code__, _RAISE_LINE)]
  if got[-1:] != [(_raise_it.__code__, _RAISE_LINE)] or got[-len(want):] != want:
    fail('traceback', ['%s:%d' % (c.co_name, l) for c, l in want[-3:]],
         ['%s:%d' % (c.co_name, l) for c, l in got[-3:]], 'mode=' + case['mode'])
  gaps = _tb_gaps(caught)
  if gaps:
    fail('traceback', 'every frame between the caller and the raise site', gaps[:3],
         'frames missing, mode=' + case['mode'])
  # data
  bad = {}
  for n, v in before.items():
    try:
      g = getattr(caught, n)
    except Exception as e:  # pylint: disable=broad-except
      bad[n] = 'raises ' + type(e).__name__
      continue
    if not _same(g, v):
      bad[n] = _short(g)
  if bad:
    attrs = sorted(bad)
    fail('attr_equal', {n: _short(before[n]) for n in attrs}, bad, 'attrs=' + ','.join(
        n + ('(empty)' if n == 'args' and bad[n] == '()' else '') for n in attrs))
  # message
  msg = str(caught)
  if exact is not None:
    if msg != text + exact:
      fail('message', _short(text + exact), _short(msg), 'mode=augment')
  elif not msg.startswith(text):
    fail('message', 'starts with ' + _short(text), _short(msg), 'part=prefix')
  else:
    suffix, pos, missing = msg[len(text):], 0, []
    for name in names:
      at = suffix.find(name, pos)
      if at < 0:
        missing.append(name)
      else:
        pos = at + len(name)
    if missing:
      fail('message', 'suffix names %s in order' % names, _short(suffix), 'part=configurable')
    if case['scope'] and suffix.count(case['scope']) < len(names):
      fail('message', 'suffix names scope %r %d time(s)' % (case['scope'], len(names)),
           _short(suffix), 'part=scope')
  return fails
