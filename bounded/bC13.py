"""C13 bounded stand-in: registration is transparent to the registered function or class.

Run-time contract on the real gin.register / gin.external_configurable / gin.configurable
over 19 callable kinds and 19 class shapes, reached through every access path, scoped and
unscoped; plus the rejections and interactive mode.  Expected values are computed on the
ORIGINAL object with explicit keyword arguments BEFORE it is registered (Python's own
call semantics are the reference), never through a second gin call.

Clause labels (sentence of the property each one stands for):
  original_unaltered    "gin.register and gin.external_configurable never alter the function
                        or class they are given" (attribute snapshot of the object; register
                        returns the object itself)
  direct_call_plain     "direct Python calls to it receive no injected values" (same outcome
                        as before registration, with bindings present and the scope active)
  registry_injected     "while the registry's version (reached through a reference, a selector
                        or the original object) does" (= original called with the bound value
                        passed explicitly)
  fn_metadata           "gin.configurable returns an object with the original's name,
                        docstring and signature"
  class_metadata        "Configurable versions of classes remain subclasses of the original
                        with the same name, module and docstring"
  instance_of_original  "constructing one, scoped or not, yields an instance of the original"
  exact_type            "of exactly that class when no registered methods need overriding"
  pickles               "in which case it pickles whenever the original does"
  rejected              "Invalid names or modules, a different object under an existing full
                        name, unknown names in an allow or deny list, and giving both lists
                        are rejected"
  rejection_atomic      "... without registering anything" (the three registry tables, and for
                        register/external the object itself, are as before)
  interactive_allows    "only inside interactive mode ... may an existing name be re-registered"
  interactive_ends      "... which ends when its block exits" (normal exit or exception)
"""
import abc
import collections
import dataclasses
import functools
import inspect
import pickle
import types
import typing

import gin
from gin import config as gc

BOUNDS = ('19 callable kinds + 19 class shapes x 3 registration APIs x {returned, original '
          'object, full selector, partial selector, reference, evaluated reference} x 3 scopes '
          '(none, 1 level, 2 levels), one bound parameter each; 13 rejection reasons x 3 APIs x '
          '10 targets; interactive mode: 3 APIs x 4 targets x 3 ways of leaving the block; '
          'thorough repeats the product with 3 further bound values')
EXHAUSTIVE = {'quick': True, 'thorough': True}

APIS = ['register', 'external', 'configurable']
PATHS = ['returned', 'object', 'selector', 'partial', 'reference', 'ref_call']
SCOPES = ['', 'sc', 'sa/sb']
MOD = 'c13'
T = typing.TypeVar('T')


# ---- targets: (object, positional args, bindable parameter or None) -------------------------
def _deco(f):
  @functools.wraps(f)
  def wrapper(*a, **k):
    return ['deco', f(*a, **k)]
  return wrapper


class _Callable:
  """A callable object."""

  def __init__(self):
    self.state = 'untouched'

  def __call__(self, a=1, b=2):
    return ['co', a, b]


class _CallableEq(_Callable):
  """Distinct instances compare equal: 'a different object' is about identity."""

  def __eq__(self, other):
    return isinstance(other, _CallableEq)

  def __hash__(self):
    return 13


class _Owner:

  def __init__(self):
    self.tag = 'owner'

  def meth(self, a=1, b=2):
    """A bound method."""
    return ['meth', self.tag, a, b]

  @classmethod
  def cmeth(cls, a=1, b=2):
    return ['cmeth', cls.__name__, a, b]


def _fn_target(kind):
  if kind == 'def_defaults':
    def f(a=1, b=2):
      """Doc of f."""
      return ['f', a, b]
    return f, (), 'b'
  if kind == 'def_required':
    def f(a, b=2, *, c=3):
      return ['f', a, b, c]
    return f, (10,), 'c'
  if kind == 'def_varkw':
    def f(a=1, **kw):
      return ['f', a, sorted(kw.items())]
    return f, (), 'extra'
  if kind == 'def_varargs':
    def f(*xs, k=0):
      return ['f', list(xs), k]
    return f, (1, 2), 'k'
  if kind == 'lambda':
    return (lambda a=1, b=2: ['lam', a, b]), (), 'a'
  if kind == 'annotated':
    def f(a: int = 1, *, b: 'str' = 'two') -> list:
      """Annotated.

      With a longer docstring."""
      return ['f', a, b]
    f.marker = 'custom attribute'
    return f, (), 'b'
  if kind == 'generator':
    def f(n=2, tag='g'):
      for i in range(n):
        yield [tag, i]
    return f, (), 'tag'
  if kind == 'decorated':
    @_deco
    def f(a=1, b=2):
      """Decorated."""
      return ['inner', a, b]
    return f, (), 'b'
  if kind == 'builtin_pow':
    return pow, (3,), 'exp'
  if kind == 'builtin_sum':
    return sum, ([1, 2],), 'start'
  if kind == 'builtin_nosig':
    return max, (3, 5), None
  if kind == 'builtin_method':
    return 'a,b c'.split, (), 'sep'
  if kind == 'method_wrapper':
    return (5).__add__, (3,), None
  if kind == 'slot_wrapper':
    return str.__len__, ('abc',), None
  if kind == 'callable_obj':
    return _Callable(), (), 'b'
  if kind == 'callable_eq':
    return _CallableEq(), (), 'a'
  if kind == 'partial':
    def f(a, b=2, *, c=3):
      return ['p', a, b, c]
    return functools.partial(f, 7), (), 'c'
  if kind == 'bound_method':
    return _Owner().meth, (), 'b'
  if kind == 'classmethod':
    return _Owner.cmeth, (), 'a'
  raise AssertionError(kind)


FN_KINDS = ['def_defaults', 'def_required', 'def_varkw', 'def_varargs', 'lambda', 'annotated',
            'generator', 'decorated', 'builtin_pow', 'builtin_sum', 'builtin_nosig',
            'builtin_method', 'method_wrapper', 'slot_wrapper', 'callable_obj', 'callable_eq',
            'partial', 'bound_method', 'classmethod']


class _Meta(type):

  def __new__(mcs, name, bases, ns):
    cls = super().__new__(mcs, name, bases, ns)
    cls.made_by_meta = True
    return cls

  def __call__(cls, *a, **k):
    inst = super().__call__(*a, **k)
    inst.post = 'hooked'
    return inst


class _AbstractBase(abc.ABC):

  @abc.abstractmethod
  def go(self):
    pass


def _cls_target(shape, idx=0):
  """Builds a fresh class K_<shape>, importable (for pickle) as a global of this module."""
  ab = 'def __init__(self, a=1, b=2):\n    self.a = a\n    self.b = b\n'
  new = ('def __new__(cls, a=1, b=2):\n    self = super(K, cls).__new__(cls)\n'
         '    self.a = a\n    self.b = b\n    return self\n')
  bodies = {
      'init': ('object', '"""Doc of K."""\n  ' + ab),
      'new': ('object', new),
      'both': ('object', 'def __new__(cls, *args, **kw):\n    self = super(K, cls).__new__(cls)\n'
               '    self.c = "from new"\n    return self\n  ' + ab),
      'neither': ('object', 'c = "class attribute"\n'),
      'inherited': ('_Parent', 'c = 5\n'),
      'meta': ('object, metaclass=_Meta', ab),
      'meta_new': ('object, metaclass=_Meta', new),
      'slots': ('object', '__slots__ = ("a", "b")\n  ' + ab),
      'abc_concrete': ('_AbstractBase', ab + '  def go(self):\n    return 1\n'),
      'abc_abstract': ('_AbstractBase', ab),
      'methods': ('object', ab + '  @gin.register("meth_%d")\n' % idx +
                  '  def meth(self, k=1):\n    return ["meth", self.a, k]\n'),
      'generic': ('typing.Generic[T]', ab),
      'exception': ('Exception', 'def __init__(self, a=1, b=2):\n    super().__init__(a, b)\n'
                    '    self.a = a\n    self.b = b\n'),
      'kwonly': ('object', 'def __init__(self, *, a=1, b=2):\n    self.a = a\n    self.b = b\n'),
      'varkw': ('object', 'def __init__(self, a=1, **kw):\n    self.a = a\n    self.b = kw.get("b", 2)\n'
                '    self.c = sorted(kw)\n'),
  }
  name = 'K_' + shape
  if shape == 'namedtuple':
    cls = collections.namedtuple(name, ['a', 'b'], defaults=(1, 2), module=__name__)
  elif shape == 'typing_namedtuple':
    cls = typing.NamedTuple(name, [('a', int), ('b', int)])
    cls.__new__.__defaults__ = (1, 2)
    cls.__module__ = __name__
  elif shape in ('dataclass', 'dataclass_frozen_slots'):
    cls = dataclasses.make_dataclass(name, [('a', int, 1), ('b', int, 2)],
                                     **({'frozen': True, 'slots': True} if 'frozen' in shape else {}))
    cls.__module__ = __name__
  else:
    base, body = bodies[shape]
    env = dict(globals())
    exec('class _Parent:\n  ' + ab, env)  # pylint: disable=exec-used
    exec('class K(%s):\n  %s' % (base, body), env)  # pylint: disable=exec-used
    cls = env['K']
    for f in vars(cls).values():
      if isinstance(f, types.FunctionType):
        f.__qualname__ = name + '.' + f.__name__
        f.__module__ = __name__
    cls.__name__ = cls.__qualname__ = name
    cls.__module__ = __name__
  globals()[name] = cls
  param = None if shape == 'neither' else 'b'
  return cls, (), param


CLS_SHAPES = ['init', 'new', 'both', 'neither', 'inherited', 'meta', 'meta_new', 'slots',
              'namedtuple', 'typing_namedtuple', 'abc_concrete', 'abc_abstract', 'dataclass',
              'dataclass_frozen_slots', 'methods', 'generic', 'exception', 'kwonly', 'varkw']


def _target(name, idx=0):
  return _cls_target(name, idx) if name in CLS_SHAPES else _fn_target(name)


def _adapt(target, value):
  return [',', ' ', 'b', ', '][VALUES.index(value)] if target == 'builtin_method' else value


# ---- observation helpers ---------------------------------------------------------------
def _norm(v):
  if inspect.isgenerator(v):
    return ['gen'] + [_norm(x) for x in v]
  if isinstance(v, tuple) and hasattr(v, '_fields'):
    return ['nt', type(v).__name__] + [_norm(x) for x in v]
  if isinstance(v, (list, tuple)):
    return [_norm(x) for x in v]
  if isinstance(v, (int, str, float, bool, type(None), bytes)):
    return v
  if isinstance(v, type) or callable(v):
    return ['callable', getattr(v, '__name__', '?')]
  state = {n: _norm(getattr(v, n)) for n in ('a', 'b', 'c', 'post', 'made_by_meta', 'args')
           if hasattr(v, n)}
  return ['inst', state]


def _outcome(fn, args, kwargs):
  try:
    return ['ok', _norm(fn(*args, **kwargs))]
  except Exception as e:  # pylint: disable=broad-except
    return ['raise', type(e).__name__]


def _snapshot(obj):
  """Everything observable about the object itself that registration could have altered."""
  if inspect.isclass(obj):
    return ['class', type(obj), obj.__bases__, obj.__mro__[1:],
            {k: id(v) for k, v in vars(obj).items()}]
  parts = [type(obj), id(getattr(obj, '__self__', None))]
  fn = getattr(obj, '__func__', obj)  # bound methods: look at the function
  for a in ('__code__', '__defaults__', '__kwdefaults__', '__name__', '__qualname__', '__doc__',
            '__module__', '__wrapped__'):
    parts.append((a, id(getattr(fn, a, None)) if a in ('__code__', '__wrapped__')
                  else getattr(fn, a, None)))
  parts.append(dict(getattr(fn, '__dict__', {})))
  if isinstance(obj, _Callable):
    parts.append(id(type(obj).__call__))
  return parts


def _registry_snapshot():
  reg = {sel: tuple(map(id, c[:2])) + tuple(c[2:4]) for sel, c in gc._REGISTRY.items()}
  inv = {id(k): v.selector for k, v in gc._INVERSE_REGISTRY.items()}
  return [reg, inv, dict(gc._RENAMED_SELECTORS)]


def _register(api, obj, name, module=MOD, **lists):
  if api == 'register':
    return gin.register(name, module=module, **lists)(obj)
  if api == 'external':
    return gin.external_configurable(obj, name=name, module=module, **lists)
  return gin.configurable(name, module=module, **lists)(obj)


# ---- cases -----------------------------------------------------------------------------
# Invalid names; the empty string is one (it is not an identifier; Gin's own test suite expects
# it to be rejected, and `None`, not '', is how every API spells "not given").
WHYS = ['name_empty', 'name_space', 'name_digit', 'name_dots', 'name_slash', 'name_dash', 'module_space',
        'module_dots', 'duplicate', 'allow_unknown', 'deny_unknown', 'both_lists',
        'module_newline', 'name_newline']
REJECT_TARGETS = ['def_defaults', 'builtin_sum', 'callable_obj', 'callable_eq', 'bound_method',
                  'init', 'new', 'namedtuple', 'meta', 'methods']
VALUES = [41, 'forty-two', -3, 0]


def cases(tier, rng):
  del rng  # the enumeration is a fixed finite product
  for value in (VALUES[:1] if tier == 'quick' else VALUES):
    for target in FN_KINDS + CLS_SHAPES:
      for api in APIS:
        for path in PATHS:
          if path == 'returned' and api == 'register':
            continue  # register returns the original, which is not the registry's version
          for scope in SCOPES:
            yield {'mode': 'use', 'target': target, 'api': api, 'path': path, 'scope': scope,
                   'value': value}
  for api in APIS:
    for target in ('def_defaults', 'callable_eq', 'init', 'namedtuple'):
      for leave in ('normal', 'raise', 'functions'):
        yield {'mode': 'interactive', 'api': api, 'target': target, 'leave': leave}
  for why in WHYS:
    for api in APIS:
      for target in REJECT_TARGETS:
        yield {'mode': 'reject', 'why': why, 'api': api, 'target': target}


# ---- the three contracts ---------------------------------------------------------------
def _fail(fails, case, clause, expected, observed, extra=''):
  keys = [k for k in ('target', 'api', 'path', 'why', 'leave') if k in case]
  sig = clause + ' ' + ' '.join('%s=%s' % (k, case[k]) for k in keys)
  if case['mode'] != 'use':  # the kind of object matters there, not the exact shape
    t = case['target']
    sig = sig.replace('target=' + t, 'target=' + (
        'fn' if t in FN_KINDS else 'cls+methods' if t == 'methods' else 'cls'))
  if case.get('scope'):
    sig += ' scoped'
  fails.append({'clause': clause, 'expected': expected, 'observed': observed,
                'signature': sig + (' ' + extra if extra else '')})


def _version(case, orig, returned, name):
  """The registry's version reached by case['path']; for 'ref_call' a holder whose call
  evaluates the reference (and so returns the version's result)."""
  scope, path = case['scope'], case['path']
  prefix = scope + '/' if scope else ''
  if path == 'returned':
    return returned
  if path == 'object':
    return gin.get_configurable(orig)
  if path in ('selector', 'partial'):
    return gin.get_configurable(prefix + (MOD + '.' + name if path == 'selector' else name))

  def holder(v=None):
    return v
  gin.external_configurable(holder, name='holder', module='c13h')
  gin.parse_config('c13h.holder.v = @%s%s.%s%s' % (prefix, MOD, name, '()' if path == 'ref_call' else ''))
  holder = gin.get_configurable('c13h.holder')
  return holder if path == 'ref_call' else holder()


def _check_use(case, fails):
  target, api, path, scope = (case[k] for k in ('target', 'api', 'path', 'scope'))
  value = _adapt(target, case['value'])
  orig, args, param = _target(target)
  is_cls = inspect.isclass(orig)
  name = 'T_' + target
  kw = {param: value} if param else {}
  # expectations, from the original alone, before gin has seen it
  exp_direct = _outcome(orig, args, {})
  exp_inj = _outcome(orig, args, kw)
  if target == 'methods':
    exp_meth = _outcome(lambda: orig(*args, **kw).meth(k=value), (), {})
    exp_meth_plain = _outcome(lambda: orig(*args).meth(), (), {})
  try:
    sig_before = inspect.signature(orig)
  except (ValueError, TypeError):
    sig_before = None
  meta_before = {a: getattr(orig, a, None) for a in ('__name__', '__qualname__', '__module__', '__doc__')}
  picklable = is_cls and exp_direct[0] == 'ok' and _outcome(
      lambda: pickle.loads(pickle.dumps(orig(*args))), (), {}) == exp_direct
  before = _snapshot(orig)

  returned = _register(api, orig, name)
  if param:
    gin.bind_parameter('%s.%s.%s' % (MOD, name, param), 'unscoped' if scope else value)
    if scope:
      gin.bind_parameter('%s/%s.%s.%s' % (scope, MOD, name, param), value)
  if target == 'methods' and api != 'configurable':
    gin.bind_parameter('%s.%s.meth_0.k' % (MOD, name), value)

  if api == 'register' and returned is not orig:
    _fail(fails, case, 'original_unaltered', 'register returns its argument', repr(returned)[:60])
  if api != 'configurable':
    if _snapshot(orig) != before:
      _fail(fails, case, 'original_unaltered', 'same attributes as before', 'attributes changed')
    with gin.config_scope(scope):
      got = _outcome(orig, args, {})
    if got != exp_direct:
      _fail(fails, case, 'direct_call_plain', exp_direct, got)
  elif not is_cls:
    for a in ('__name__', '__doc__'):
      if meta_before[a] is not None and getattr(returned, a, None) != meta_before[a]:
        _fail(fails, case, 'fn_metadata', meta_before[a], getattr(returned, a, None), 'attr=' + a)
    if sig_before is not None:
      try:
        sig_after = inspect.signature(returned)
      except (ValueError, TypeError) as e:
        sig_after = type(e).__name__
      if sig_after != sig_before:
        _fail(fails, case, 'fn_metadata', str(sig_before), str(sig_after), 'attr=signature')

  if path == 'ref_call' and args:
    return  # an evaluated reference cannot pass the positional arguments this target needs
  with gin.config_scope(scope if path in ('returned', 'object') else ''):
    version = _version(case, orig, returned, name)
    got = _outcome(version, args, {})
    inst = version(*args) if is_cls and exp_inj[0] == 'ok' and got[0] == 'ok' else None
  if got != exp_inj:
    _fail(fails, case, 'registry_injected', exp_inj, got)
  if not is_cls:
    return

  if path != 'ref_call':
    if not (inspect.isclass(version) and issubclass(version, orig)):
      _fail(fails, case, 'class_metadata', 'a subclass of the original', repr(version)[:60], 'attr=subclass')
    else:
      for a, want in meta_before.items():
        if getattr(version, a, None) != want:
          _fail(fails, case, 'class_metadata', want, getattr(version, a, None), 'attr=' + a)
  if inst is None:
    return
  if not isinstance(inst, orig):
    _fail(fails, case, 'instance_of_original', orig.__name__, type(inst).__name__)
  elif target == 'methods':  # registered methods (may) need overriding: a subclass is allowed
    if api != 'configurable':
      got = _outcome(inst.meth, (), {})
      if got != exp_meth:
        _fail(fails, case, 'registry_injected', exp_meth, got, 'method')
      plain = _outcome(orig(*args).meth, (), {})
      if plain != exp_meth_plain:
        _fail(fails, case, 'direct_call_plain', exp_meth_plain, plain, 'method')
  elif type(inst) is not orig:
    _fail(fails, case, 'exact_type', 'type(instance) is the original class',
          'a different class named ' + type(inst).__name__)
  elif picklable:
    got = _outcome(lambda: pickle.loads(pickle.dumps(inst)), (), {})
    if got != exp_inj:
      _fail(fails, case, 'pickles', exp_inj, got)


def _check_reject(case, fails):
  why, api, target = case['why'], case['api'], case['target']
  orig, args, _ = _target(target)
  other = _target(target, 1)[0] if target != 'builtin_sum' else len  # a different object
  neighbour = _register('external', lambda q=0: ['n', q], 'neighbour')
  _register(api, other, 'taken')
  name, module, lists = 'fresh', MOD, {}
  bad = {'empty': '', 'space': 'has space', 'digit': '9lives', 'dots': 'a..b', 'slash': 'x/y', 'dash': 'a-b',
         'newline': 'trailing\n'}
  if why.startswith('name_'):
    name = bad[why[5:]]
  elif why.startswith('module_'):
    module = bad[why[7:]]
  elif why == 'duplicate':
    name = 'taken'
  elif why == 'both_lists':
    lists = {'allowlist': ['a'], 'denylist': ['b']}
  else:
    lists = {('allowlist' if why == 'allow_unknown' else 'denylist'): ['no_such_parameter']}
  if why == 'both_lists' and target == 'builtin_sum':
    lists = {'allowlist': ['start'], 'denylist': ['iterable']}
  before, reg_before = _snapshot(orig), _registry_snapshot()
  try:
    _register(api, orig, name, module, **lists)
    _fail(fails, case, 'rejected', 'an exception', 'accepted name=%r module=%r %r' % (name, module, lists))
    return fails  # what follows is about rejections that happened
  except Exception:  # pylint: disable=broad-except
    pass
  if _registry_snapshot() != reg_before:
    now = _registry_snapshot()
    diff = [['registry', 'inverse', 'renamed'][i] for i in range(3) if now[i] != reg_before[i]]
    _fail(fails, case, 'rejection_atomic', 'registry tables unchanged', 'changed: %s' % diff)
  if api != 'configurable' and _snapshot(orig) != before:
    _fail(fails, case, 'rejection_atomic', 'object unchanged', 'attributes changed', 'object')
  if _outcome(neighbour, (), {}) != ['ok', ['n', 0]] or _outcome(
      gin.get_configurable(MOD + '.taken'), args, {}) != _outcome(other, args, {}):
    _fail(fails, case, 'rejection_atomic', 'earlier registrations still work', 'they do not', 'neighbours')


def _check_interactive(case, fails):
  api, target, leave = case['api'], case['target'], case['leave']
  first, args, param = _target(target)
  second, third = _target(target, 1)[0], _target(target, 2)[0]
  exp = _outcome(second, args, {param: 5})
  _register(api, first, 'again')
  gin.bind_parameter('%s.again.%s' % (MOD, param), 5)

  def attempt(obj):
    try:
      _register(api, obj, 'again')
      return 'accepted'
    except Exception:  # pylint: disable=broad-except
      return 'rejected'
  if attempt(second) != 'rejected':
    _fail(fails, case, 'rejected', 'rejected outside interactive mode', 'accepted', 'before')
    return
  inside = None
  if leave == 'functions':
    gin.enter_interactive_mode()
    inside = attempt(second)
    gin.exit_interactive_mode()
  else:
    try:
      with gc.interactive_mode():
        inside = attempt(second)
        if leave == 'raise':
          raise KeyError('body fails')
    except KeyError:
      pass
  if inside != 'accepted':
    _fail(fails, case, 'interactive_allows', 'accepted inside interactive mode', inside)
    return
  got = _outcome(gin.get_configurable(MOD + '.again'), args, {})
  if got != exp:
    _fail(fails, case, 'interactive_allows', exp, got, 'registry_version')
  reg_before = _registry_snapshot()
  if attempt(third) != 'rejected':
    _fail(fails, case, 'interactive_ends', 'rejected after the block', 'accepted')
  elif _registry_snapshot() != reg_before:
    _fail(fails, case, 'rejection_atomic', 'registry tables unchanged', 'changed')


def check(case):
  fails = []
  {'use': _check_use, 'reject': _check_reject, 'interactive': _check_interactive}[case['mode']](case, fails)
  return fails
