"""Contracts of SelectorMap's public methods over the abstract view (C08, C05, C20).

View: M = self._selector_map (complete selector -> value).  Matching is stated with
the relation `dsuffix(p, s)` -- "the components of p are a trailing run of the
components of s" -- which is tied to the tree representation in c_selector_tree.py.
Callers in config.py see only these clauses.
"""
import z3

from pyvc import sym, world
from pyvc.contract import Contract, Clause, register
from pyvc.sym import KBool, KInt, KStr, KVal, KList, KOpt, VObj
from contracts.a_state import SelectorMap, StrValDict, StrList

s_ = z3.Const('s!sm', sym.Str)
t_ = z3.Const('t!sm', sym.Str)
i_ = z3.Int('i!sm')
i2_ = z3.Int('i2!sm')


def valid(s):
  return world.re_match('SELECTOR_RE', s)


def dsuffix(p, s):
  return sym.ufun('dsuffix', sym.Str, sym.Str, sym.BoolS)(p, s)


def M(sm):
  return sm.fields['_selector_map']


def keys_valid(sm):
  """Representation invariant seen by clients: every stored key is a valid selector."""
  m = M(sm)
  return sym.forall([s_], z3.Implies(m.dom[s_], valid(s_)), patterns=[m.dom[s_]])


def same_map(a, b):
  return z3.And(M(a).dom == M(b).dom, M(a).val == M(b).val)


def matches(sm, partial, s):
  """s is one of the selectors `partial` resolves to."""
  m = M(sm)
  return z3.If(m.dom[partial], s == partial,
               z3.And(m.dom[s], dsuffix(partial, s)))


def is_match_list(sm, partial, r):
  return z3.And(
      sym.forall([i_], z3.Implies(z3.And(0 <= i_, i_ < r.len),
                                  matches(sm, partial, r.arr[i_])),
                 patterns=[r.arr[i_]]),
      sym.forall([s_], z3.Implies(matches(sm, partial, s_), r.len > 0)),
      z3.Implies(r.len > 0, matches(sm, partial, r.arr[0])),
      sym.forall([s_], z3.Exists([i_], z3.And(0 <= i_, i_ < r.len, r.arr[i_] == s_))
                 == matches(sm, partial, s_)),
      sym.forall([i_, i2_], z3.Implies(
          z3.And(0 <= i_, i_ < i2_, i2_ < r.len), r.arr[i_] != r.arr[i2_])))


def _mk(name, props=('C08',), **kw):
  c = Contract('selector_map.py::SelectorMap.' + name, list(props))
  c.self_kind = SelectorMap
  return c


# -- clear ------------------------------------------------------------------------
c = _mk('clear', ('C08', 'C20'))
c.modifies_self = ['_selector_map', '_selector_tree']
c.ensure('map_empty', lambda x: sym.forall([s_], z3.Not(M(x.self_new).dom[s_])))
c.raises_only_listed = True
c.skip_proof = None
register(c)

# -- copy -------------------------------------------------------------------------
c = _mk('copy', ('C08', 'C20'))
c.result = SelectorMap
c.ensure('same_view', lambda x: same_map(x.result, x.self_old))
c.ensure('self_unchanged', lambda x: same_map(x.self_new, x.self_old))
c.raises_only_listed = True
register(c)

# -- __setitem__ ------------------------------------------------------------------------
c = _mk('__setitem__', ('C08', 'C05', 'C20'))
c.param('complete_selector', KStr)
c.param('value', KVal)
c.modifies_self = ['_selector_map', '_selector_tree']
c.raise_case('invalid_selector', 'ValueError',
             when=lambda x: z3.Not(valid(x.a.complete_selector.e)),
             ensures=[('unchanged', lambda x: same_map(x.self_new, x.self_old))])
c.ensure('was_valid', lambda x: valid(x.a.complete_selector.e))
c.ensure('stores_exactly_this_key', lambda x: z3.And(
    M(x.self_new).dom == z3.Store(M(x.self_old).dom, x.a.complete_selector.e, True),
    M(x.self_new).val == z3.Store(M(x.self_old).val, x.a.complete_selector.e,
                                  x.a.value.e)))
c.raises_only_listed = True
register(c)

# -- matching_selectors -------------------------------------------------------------------
c = _mk('matching_selectors', ('C08', 'C05', 'C15'))
c.param('partial_selector', KStr)
c.result = StrList
c.ensure('exactly_the_matches',
         lambda x: is_match_list(x.self_old, x.a.partial_selector.e, x.result))
c.ensure('self_unchanged', lambda x: same_map(x.self_new, x.self_old))
c.raises_only_listed = True
register(c)

# -- get_match ---------------------------------------------------------------------------
c = _mk('get_match', ('C08',))
c.param('partial_selector', KStr)
c.param('default', KVal, default=lambda ex: VObj(sym.VAL_NONE))
c.result = KVal


def _ambiguous(x):
  p = x.a.partial_selector.e
  return z3.Exists([s_, t_], z3.And(s_ != t_, matches(x.self_old, p, s_),
                                    matches(x.self_old, p, t_)))


c.raise_case('ambiguous', 'KeyError', when=_ambiguous,
             ensures=[('unchanged', lambda x: same_map(x.self_new, x.self_old))])
c.ensure('not_ambiguous', lambda x: z3.Not(_ambiguous(x)))
c.ensure('value_of_unique_match_or_default', lambda x: z3.And(
    sym.forall([s_], z3.Implies(matches(x.self_old, x.a.partial_selector.e, s_),
                                x.result.e == M(x.self_old).val[s_])),
    z3.Implies(sym.forall([s_], z3.Not(matches(x.self_old, x.a.partial_selector.e, s_))),
               x.result.e == x.a.default.e)))
c.ensure('self_unchanged', lambda x: same_map(x.self_new, x.self_old))
c.raises_only_listed = True
register(c)

# -- minimal_selector --------------------------------------------------------------------
c = _mk('minimal_selector', ('C08',))
c.param('complete_selector', KStr)
c.result = KStr
c.raise_case('absent', 'KeyError',
             when=lambda x: z3.Not(M(x.self_old).dom[x.a.complete_selector.e]))
c.ensure('was_present', lambda x: M(x.self_old).dom[x.a.complete_selector.e])
c.ensure('resolves_back', lambda x: z3.And(
    dsuffix(x.result.e, x.a.complete_selector.e),
    sym.forall([s_], matches(x.self_old, x.result.e, s_) ==
               (s_ == x.a.complete_selector.e))))
c.ensure('no_shorter_suffix_resolves_back', lambda x: sym.forall(
    [t_], z3.Implies(
        z3.And(dsuffix(t_, x.result.e), z3.Not(dsuffix(x.result.e, t_))),
        z3.Exists([s_], z3.Xor(matches(x.self_old, t_, s_), s_ == x.a.complete_selector.e))),
    patterns=[dsuffix(t_, x.result.e)]))
c.raises_only_listed = True
register(c)

# The proofs of these clauses against the suffix-tree representation live in
# c_selector_tree.py; until a method's tree proof is in place it is marked here.
from pyvc.contract import REGISTRY as _R
PENDING_TREE_PROOF = ['clear', 'copy', '__setitem__', 'matching_selectors',
                      'minimal_selector']     # cleared one by one in c_selector_tree.py
for _n in PENDING_TREE_PROOF:
  _R['selector_map.py::SelectorMap.' + _n].skip_proof = 'tree proof pending'
