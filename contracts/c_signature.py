"""Contracts: signature helpers used by the gin wrapper, and assumed externals
(inspect.getfullargspec, copy.deepcopy, the exception proxy) (C01, C04, C07, C10, C17)."""
import z3

from pyvc import sym, world
from pyvc.contract import Contract, Clause, register
from pyvc.sym import (KBool, KInt, KStr, KVal, KList, KDict, KOpt, KTuple, KRecord,
                      VObj, VBool, VStr, VExc, PyRaise)
from contracts.a_state import ParamDict, StrList
from contracts.c_config_state import ALL_FIELDS

i_ = z3.Int('i!sg')
s_ = z3.Const('s!sg', sym.Str)

ValList = KList(KVal)
FullArgSpec = KRecord('FullArgSpec', {
    'args': StrList, 'varargs': KOpt(KStr), 'varkw': KOpt(KStr),
    'defaults': KOpt(ValList), 'kwonlyargs': StrList,
    'kwonlydefaults': KOpt(ParamDict), 'annotations': KVal})
world.RECORD_CLASSES['FullArgSpec'] = ('<inspect>', FullArgSpec)


def argspec(fn):
  """inspect.getfullargspec(fn) as a function of the callable (assumed)."""
  return FullArgSpec.unbox(sym.ufun('argspec', sym.Val, FullArgSpec.sort())(fn))


def ARGS(fn):
  return argspec(fn).fields['args']


c = Contract('config.py::_get_cached_arg_spec', ['C01', 'C10', 'C07'], kind='assumed')
c.param('fn', KVal)
c.result = FullArgSpec
c.ensure('functional', lambda x: FullArgSpec.box(x.result) == FullArgSpec.box(argspec(x.a.fn.e)))
j_ = z3.Int('j!sg')
c.ensure('parameter_names_are_distinct', lambda x: sym.forall([i_, j_], z3.Implies(
    z3.And(0 <= i_, i_ < j_, j_ < x.result.fields['args'].len),
    x.result.fields['args'].arr[i_] != x.result.fields['args'].arr[j_])))
def sigpos(fn, s):
  """Position of the parameter name `s` in the signature of `fn`, positional parameters first,
  then the keyword-only ones (well defined because Python rejects duplicate parameter names)."""
  return sym.ufun('sigpos', sym.Val, sym.Str, sym.IntS)(fn, s)


c.ensure('positions_in_the_signature', lambda x: z3.And(
    sym.forall([i_], z3.Implies(
        z3.And(0 <= i_, i_ < x.result.fields['args'].len),
        sigpos(x.a.fn.e, x.result.fields['args'].arr[i_]) == i_),
        patterns=[x.result.fields['args'].arr[i_]]),
    sym.forall([i_], z3.Implies(
        z3.And(0 <= i_, i_ < x.result.fields['kwonlyargs'].len),
        sigpos(x.a.fn.e, x.result.fields['kwonlyargs'].arr[i_]) ==
        x.result.fields['args'].len + i_),
        patterns=[x.result.fields['kwonlyargs'].arr[i_]])))
c.ensure('defaults_fit', lambda x: z3.And(
    x.result.fields['args'].len >= 0,
    z3.Implies(z3.Not(x.result.fields['defaults'].is_none),
               x.result.fields['defaults'].inner.len <= x.result.fields['args'].len)))
c.raises_only_listed = True
c.assumptions.append('inspect.getfullargspec reports the real parameter names in order '
                     'and is deterministic per callable; the cache never goes stale '
                     '[assumed; bounded: bC01/bC10 callable shapes]')
register(c)

c = Contract('config.py::_get_supplied_positional_parameter_names', ['C01', 'C10'])
c.param('fn', KVal)
c.param('args', ValList)
c.result = StrList
c.ensure('names_of_the_leading_positional_parameters', lambda x: z3.And(
    x.result.len == z3.If(x.a.args.len < ARGS(x.a.fn.e).len, x.a.args.len,
                          ARGS(x.a.fn.e).len),
    sym.forall([i_], z3.Implies(z3.And(0 <= i_, i_ < x.result.len),
                                x.result.arr[i_] == ARGS(x.a.fn.e).arr[i_]))))
c.raises_only_listed = True
register(c)

c = Contract('config.py::_get_all_positional_parameter_names', ['C10'])
c.param('fn', KVal)
c.result = StrList
c.ensure('args_without_the_defaulted_tail', lambda x: z3.And(
    x.result.len >= 0, x.result.len <= ARGS(x.a.fn.e).len,
    sym.forall([i_], z3.Implies(z3.And(0 <= i_, i_ < x.result.len),
                                x.result.arr[i_] == ARGS(x.a.fn.e).arr[i_]))))
c.raises_only_listed = True
register(c)

m_ = z3.Int('m!sg')


def _member(lst, s):
  return z3.Exists([m_], z3.And(0 <= m_, m_ < lst.len, lst.arr[m_] == s))


c = Contract('config.py::_order_by_signature', ['C10'])
c.param('fn', KVal)
c.param('arg_names', StrList)
c.result = StrList
c.local_kinds = {'all_args': StrList, 'ordered': StrList}
c.ensure('same_names', lambda x: sym.forall([s_], _member(x.result, s_) ==
                                            _member(x.a.arg_names, s_)))


def _insig(fn, s):
  return z3.Or(_member(ARGS(fn), s), _member(argspec(fn).fields['kwonlyargs'], s))


def _is_filter_assign(st):
  import ast
  return isinstance(st, ast.Assign) and isinstance(st.value, ast.ListComp) and \
      bool(st.value.generators[0].ifs)


def _obs_all(x):
  """(combined list, filtered list, args, kwonlyargs) -- hints only, skipped if renamed."""
  return (x.env.all_args, x.env.ordered, ARGS(x.a.fn.e), argspec(x.a.fn.e).fields['kwonlyargs'])


def _h_combined(x):
  aa, o, args, kw = _obs_all(x)
  return z3.And(
      aa.len == args.len + kw.len,
      sym.forall([i_], z3.Implies(z3.And(0 <= i_, i_ < args.len), aa.arr[i_] == args.arr[i_]),
                 patterns=[args.arr[i_]]),
      sym.forall([i_], z3.Implies(z3.And(0 <= i_, i_ < kw.len),
                                  aa.arr[args.len + i_] == kw.arr[i_]),
                 patterns=[kw.arr[i_]]))


def _h_positions(x):
  aa, o, args, kw = _obs_all(x)
  return sym.forall([i_], z3.Implies(
      z3.And(0 <= i_, i_ < aa.len),
      z3.And(sigpos(x.a.fn.e, aa.arr[i_]) == i_, _insig(x.a.fn.e, aa.arr[i_]))),
      patterns=[aa.arr[i_]])


def _h_sorted(x):
  aa, o, args, kw = _obs_all(x)
  return sym.forall([i_, j_], z3.Implies(
      z3.And(0 <= i_, i_ < j_, j_ < o.len),
      sigpos(x.a.fn.e, o.arr[i_]) < sigpos(x.a.fn.e, o.arr[j_])),
      patterns=[[o.arr[i_], o.arr[j_]]])


def _h_each_in_sig(x):
  aa, o, args, kw = _obs_all(x)
  return sym.forall([i_], z3.Implies(z3.And(0 <= i_, i_ < o.len), _insig(x.a.fn.e, o.arr[i_])),
                    patterns=[o.arr[i_]])


def _h_complete(x):
  aa, o, args, kw = _obs_all(x)
  return sym.forall([i_], z3.Implies(
      z3.And(0 <= i_, i_ < aa.len, _member(x.a.arg_names, aa.arr[i_])),
      _member(o, aa.arr[i_])), patterns=[aa.arr[i_]])


c.hint(_is_filter_assign, 'combined_list_is_args_then_kwonlyargs', _h_combined)
c.hint(_is_filter_assign, 'combined_list_positions', _h_positions)
c.hint(_is_filter_assign, 'filtered_list_is_sorted_by_position', _h_sorted)
c.hint(_is_filter_assign, 'filtered_list_holds_signature_names', _h_each_in_sig)
c.hint(_is_filter_assign, 'filtered_list_holds_every_named_signature_parameter', _h_complete)
c.ensure('parameters_of_the_signature_come_first_and_in_signature_order',
         lambda x: sym.forall([i_, j_], z3.Implies(
             z3.And(0 <= i_, i_ < j_, j_ < x.result.len, _insig(x.a.fn.e, x.result.arr[j_])),
             z3.And(_insig(x.a.fn.e, x.result.arr[i_]),
                    sigpos(x.a.fn.e, x.result.arr[i_]) < sigpos(x.a.fn.e, x.result.arr[j_])))))
c.raises_only_listed = True
register(c)

# ---- copy.deepcopy ------------------------------------------------------------------
world.EXTERNALS['copy.deepcopy'] = 'ext::copy.deepcopy'


def deepcopied(v, epoch):
  """What deepcopy delivers for a stored value: structurally equal, fresh mutable
  nodes, every reference marked for evaluation replaced by the result of one
  call made during THIS deepcopy (hence the epoch) -- assumed, see DESIGN 2.4."""
  return sym.ufun('deepcopied', sym.Val, sym.Val, sym.Val)(v, epoch)


c = Contract('ext::copy.deepcopy', ['C01', 'C04', 'C10'], kind='assumed')
c.param('x', ParamDict)
c.result = ParamDict
c.modifies = set(ALL_FIELDS) - {'HELD_OPERATIVE_CONFIG_LOCK', 'HELD_SINGLETONS_LOCK'}
c.may_raise_other = True           # evaluating a reference may raise anything


def _dc_ensures(x):
  ep = x.fresh('dc_epoch', sym.Val)
  x.ghost.setdefault('dc_epochs', []).append(ep)
  r = x.result
  return z3.And(r.dom == x.a.x.dom, sym.forall([s_], z3.Implies(
      x.a.x.dom[s_], r.val[s_] == deepcopied(x.a.x.val[s_], ep)), patterns=[r.val[s_]]))


c.ensure('pointwise_deep_copies', _dc_ensures)
c.ensure('locks_as_before', lambda x: z3.BoolVal(True))
c.assumptions.append('copy.deepcopy(d) returns a dict with the same keys whose values are '
                     'fresh deep copies, calling __deepcopy__ of each embedded reference '
                     'once per occurrence; it may run arbitrary configurables (modifies '
                     'any gin state, may raise)  [assumed; bounded: bC04]')
register(c)

# ---- utils.augment_exception_message_and_reraise ---------------------------------------


def _augment(ex, a, node):
  e = a['exception']
  if not isinstance(e, VExc):
    raise sym.OutOfSubset('augment_exception_message_and_reraise of a non-exception', node)
  cls = ex.path.fresh_const('proxycls', sym.ExcCls)
  ex.path.assume(sym.exc_sub(cls, e.cls))
  px = VExc(cls, ident=ex.path.fresh_const('proxy', sym.Val),
            note='exception proxy with the augmented message')
  px.proxy_of = e
  px.message_suffix = a['message']
  raise PyRaise(px)


c = Contract('utils.py::augment_exception_message_and_reraise', ['C17', 'C16'],
             kind='assumed')
c.param('exception', KVal)
c.param('message', KStr)
c.params['exception'] = (None, None)   # an exception object, not a Val
c.custom = _augment
c.assumptions.append('augment_exception_message_and_reraise always raises an instance of a '
                     '(dynamically created) subclass of the original exception class '
                     '[assumed: run-time class creation; bounded: bC17 over all builtin '
                     'exception classes]')
register(c)


# ---- _might_have_parameter against the signature (C11) ---------------------------------------------
# A second view (callers keep using the abstract predicate of c_binding_api.py): what "the
# configurable's signature can accept" means, in terms of the inspected signature of the
# unwrapped construction function.
world.EXTERNALS['inspect.isclass'] = 'ext::inspect.isclass'
c = Contract('ext::inspect.isclass', ['C11'], kind='assumed')
c.param('obj', KVal)
c.result = KBool
c.ensure('functional', lambda x: x.result.e == sym.ufun('is_class', sym.Val, sym.BoolS)(x.a.obj.e))
c.raises_only_listed = True
register(c)

c = Contract('config.py::_find_class_construction_fn', ['C11'], kind='assumed')
c.param('cls', KVal)
c.result = KVal
c.ensure('functional', lambda x: x.result.e == sym.ufun('construction_fn', sym.Val, sym.Val)(
    x.a.cls.e))
c.raises_only_listed = True
c.assumptions.append('_find_class_construction_fn(cls) is the first __init__/__new__ in the MRO '
                     '(inspect.getmro; deterministic per class)')
register(c)

OBJECT_INIT = z3.Const('val!object.__init__', sym.Val)
world.MODULE_ATTRS[('object', '__init__')] = lambda ex: VObj(OBJECT_INIT)


def has_wrapped(f):
  return sym.ufun('hasattr___wrapped__', sym.Val, sym.BoolS)(f)


def wrapped_of(f):
  return sym.ufun('attr___wrapped__', sym.Val, sym.Val)(f)


def unwrapped(f):
  """End of the __wrapped__ chain of f (spec function, defined recursively)."""
  return sym.ufun('fully_unwrapped', sym.Val, sym.Val)(f)


_f = z3.Const('f!uw', sym.Val)
c = Contract('config.py::_might_have_parameter#signature', ['C11'])
c.target = 'config.py::_might_have_parameter'
c.param('fn_or_cls', KVal)
c.param('arg_name', KStr)
c.result = KBool
c.local_kinds = {'fn': KVal}
c.assume_entry('definition_of_fully_unwrapped', lambda x: sym.forall(
    [_f], unwrapped(_f) == z3.If(has_wrapped(_f), unwrapped(wrapped_of(_f)), _f),
    patterns=[unwrapped(_f)]), 'definition of the spec function fully_unwrapped (recursive)')
c.notes.append('termination of the __wrapped__ walk is not proved')


def _start_fn(x):
  f0 = x.a.fn_or_cls.e
  return z3.If(sym.ufun('is_class', sym.Val, sym.BoolS)(f0),
               sym.ufun('construction_fn', sym.Val, sym.Val)(f0), f0)


def _accepts(x):
  sp = argspec(unwrapped(_start_fn(x)))
  name = x.a.arg_name.e
  in_list = lambda l: z3.Exists([i_], z3.And(0 <= i_, i_ < l.len, l.arr[i_] == name))
  varkw = sp.fields['varkw']
  return z3.Or(z3.And(z3.Not(varkw.is_none), varkw.inner.truthy()),
               in_list(sp.fields['args']), in_list(sp.fields['kwonlyargs']))


c.ensure('a_class_without_its_own_constructor_has_no_parameters', lambda x: z3.Implies(
    z3.And(sym.ufun('is_class', sym.Val, sym.BoolS)(x.a.fn_or_cls.e),
           sym.ufun('construction_fn', sym.Val, sym.Val)(x.a.fn_or_cls.e) == OBJECT_INIT),
    z3.Not(x.result.e)))
c.ensure('otherwise_true_iff_the_unwrapped_signature_names_it_or_takes_kwargs', lambda x: z3.Implies(
    z3.Not(z3.And(sym.ufun('is_class', sym.Val, sym.BoolS)(x.a.fn_or_cls.e),
                  sym.ufun('construction_fn', sym.Val, sym.Val)(x.a.fn_or_cls.e) == OBJECT_INIT)),
    x.result.e == _accepts(x)))
c.raises_only_listed = True
c.loop(("hasattr(fn, '__wrapped__')", None), [Clause(
    'still_on_the_wrapped_chain_of_the_start', lambda x, k:
    unwrapped(sym.to_val(x.env.fn)) == unwrapped(_start_fn(x)))])
register(c)


# ---- _get_kwarg_defaults against the signature (C07, C10) -----------------------------------------
# Second view (callers use the abstract `kwarg_defaults(fn)` of c_registration.py): the map is
# exactly "parameter -> default the signature gives it": positional defaults align with the END
# of args, keyword-only defaults are added (and win).
p_ = z3.Const('p!kd', sym.Str)
c = Contract('config.py::_get_kwarg_defaults#signature', ['C07', 'C10'])
c.target = 'config.py::_get_kwarg_defaults'
c.param('fn', KVal)
c.result = ParamDict
c.local_kinds = {'arg_vals': ParamDict, 'default_kwarg_names': StrList}


def _sp(x):
  return argspec(x.a.fn.e)


def _pos_default_index(x, i):
  """args[i] has a positional default (the defaults align with the end of args)."""
  sp = _sp(x)
  d = sp.fields['defaults']
  n = sp.fields['args'].len
  return z3.And(z3.Not(d.is_none), d.inner.len > 0, n - d.inner.len <= i, i < n, 0 <= i)


def _kwd(x):
  return _sp(x).fields['kwonlydefaults']


def _has_kwd(x, p):
  k = _kwd(x)
  return z3.And(z3.Not(k.is_none), k.inner.dom[p])


c.ensure('keys_are_the_parameters_with_a_default', lambda x: sym.forall(
    [p_], x.result.dom[p_] == z3.Or(
        _has_kwd(x, p_),
        z3.Exists([i_], z3.And(_pos_default_index(x, i_), _sp(x).fields['args'].arr[i_] == p_))),
    patterns=[x.result.dom[p_]]))
c.ensure('keyword_only_defaults_win', lambda x: sym.forall(
    [p_], z3.Implies(_has_kwd(x, p_), x.result.val[p_] == _kwd(x).inner.val[p_]),
    patterns=[x.result.val[p_]]))
c.ensure('positional_defaults_align_with_the_end_of_the_parameter_list', lambda x: sym.forall(
    [i_], z3.Implies(
        z3.And(_pos_default_index(x, i_), z3.Not(_has_kwd(x, _sp(x).fields['args'].arr[i_]))),
        x.result.val[_sp(x).fields['args'].arr[i_]] == _sp(x).fields['defaults'].inner.arr[
            i_ - (_sp(x).fields['args'].len - _sp(x).fields['defaults'].inner.len)]),
    patterns=[_sp(x).fields['args'].arr[i_]]))
c.raises_only_listed = True
register(c)


# ---- _make_gin_wrapper (the outer function): what is validated at registration time (C10, C13) -----
c = Contract('config.py::_make_gin_wrapper', ['C10'])
c.param('fn', KVal)
c.param('fn_or_cls', KVal)
c.param('name', KStr)
c.param('selector', KStr)
c.param('allowlist', KOpt(StrList))
c.param('denylist', KOpt(StrList))
c.result = KVal
c.may_raise_other = True          # the REQUIRED validation raises ValueError


def _sigfn(x):
  f0 = x.a.fn_or_cls.e
  return z3.If(sym.ufun('is_class', sym.Val, sym.BoolS)(f0),
               sym.ufun('construction_fn', sym.Val, sym.Val)(f0), f0)


def _first_arg_of(x, qual):
  """The value passed for the parameter `fn` in each call of `qual` made by this function."""
  ev = [e for e in x.trace if e.get('call') == qual]
  return [sym.to_val(e['args']['fn']) for e in ev if 'fn' in (e.get('args') or {})]


c.ensure('REQUIRED_markers_and_defaults_are_taken_from_the_construction_function', lambda x: z3.And(*(
    [z3.BoolVal(len(_first_arg_of(x, 'config.py::_get_validated_required_kwargs')) == 1),
     z3.BoolVal(len(_first_arg_of(x, 'config.py::_get_default_configurable_parameter_values')) == 1)] +
    [a == _sigfn(x) for a in _first_arg_of(x, 'config.py::_get_validated_required_kwargs')] +
    [a == _sigfn(x) for a in _first_arg_of(x, 'config.py::_get_default_configurable_parameter_values')])))
register(c)


# ---- _find_class_construction_fn: second view, proved against the MRO -------------------------------
world.EXTERNALS['inspect.getmro'] = 'ext::inspect.getmro'


def mro_of(cls):
  return ValList.unbox(sym.ufun('mro_of', sym.Val, ValList.sort())(cls))


c = Contract('ext::inspect.getmro', ['C11'], kind='assumed')
c.param('cls', KVal)
c.result = ValList
c.ensure('functional', lambda x: ValList.box(x.result) == ValList.box(mro_of(x.a.cls.e)))
c.raises_only_listed = True
c.assumptions.append('inspect.getmro(cls) is the method resolution order of the class: a finite '
                     'sequence determined by the class  [external]')
register(c)


def _own(base, name):
  """`name in base.__dict__` -- the class defines the attribute itself (opaque membership)."""
  d = sym.ufun('attr___dict__', sym.Val, sym.Val)(base)
  return sym.ufun('val_contains', sym.Val, sym.Val, sym.BoolS)(d, sym.val_of_str(sym.str_lit(name)))


c = Contract('config.py::_find_class_construction_fn#mro', ['C11', 'C10'])
c.target = 'config.py::_find_class_construction_fn'
c.param('cls', KVal)
c.result = KVal
c.val_ops_may_raise = False


def _first_ctor(x):
  m = mro_of(x.a.cls.e)
  rv = x.result.e if hasattr(x.result, 'e') else sym.VAL_NONE     # falling off the end: None
  none_before = lambda k: sym.forall([j_], z3.Implies(
      z3.And(0 <= j_, j_ < k), z3.And(z3.Not(_own(m.arr[j_], '__init__')),
                                      z3.Not(_own(m.arr[j_], '__new__')))))
  init = sym.ufun('attr___init__', sym.Val, sym.Val)
  new = sym.ufun('attr___new__', sym.Val, sym.Val)
  found = z3.Exists([i_], z3.And(
      0 <= i_, i_ < m.len, none_before(i_),
      z3.Or(z3.And(_own(m.arr[i_], '__init__'), rv == init(m.arr[i_])),
            z3.And(z3.Not(_own(m.arr[i_], '__init__')), _own(m.arr[i_], '__new__'),
                   rv == new(m.arr[i_])))))
  return z3.Or(found, z3.And(none_before(m.len), rv == sym.VAL_NONE))


c.ensure('the_first_class_of_the_MRO_that_defines_a_constructor_decides_and___init___wins',
         _first_ctor)
c.loop(('inspect.getmro(cls)', None), [Clause(
    'no_earlier_class_defines_a_constructor', lambda x, k: sym.forall([j_], z3.Implies(
        z3.And(0 <= j_, j_ < k),
        z3.And(z3.Not(_own(mro_of(x.a.cls.e).arr[j_], '__init__')),
               z3.Not(_own(mro_of(x.a.cls.e).arr[j_], '__new__'))))))])
c.raises_only_listed = True
register(c)
