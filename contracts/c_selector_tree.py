"""SelectorMap against its suffix-tree representation (C08): representation invariant
WF, and the proofs of the public methods' contracts of b_selector_map.py.

Paths are an algebraic datatype (nil | snoc(path, component)), components innermost
first; `alive/term/tval` are the tree view (pyvc/tree.py).  comps(s) is the path of a
dotted name: comps(s) = rp(split(s,'.'), len) with rp(L,0)=nil,
rp(L,k+1)=snoc(rp(L,k), L[len-1-k]) -- unfolded by ghost code, one instance per loop
iteration, never as a quantified axiom.
"""
import z3

from pyvc import sym, world, tree
from pyvc.contract import Contract, Clause, register, REGISTRY
from pyvc.sym import (KBool, KInt, KStr, KVal, KList, KOpt, VObj, VRecord, PathS, VBool)
from contracts.a_state import SelectorMap, SelTree, StrValDict, StrList
from contracts.b_selector_map import M, valid, dsuffix, same_map

pi_ = z3.Const('pi!t', PathS)
c_ = z3.Const('c!t', sym.Str)
s_ = z3.Const('s!t', sym.Str)
t_ = z3.Const('t!t', sym.Str)
snoc, nil = PathS.psnoc, PathS.pnil
SL = StrList.sort()


def rp(Lbox, k):
  return sym.ufun('rpath', SL, sym.IntS, PathS)(Lbox, k)


def split_dot(s):
  return world.str_split(s, sym.str_lit('.'))


def comps(s):
  L = split_dot(s)
  return rp(StrList.box(L), L.len)


def T(sm):
  f = sm.fields['_selector_tree'].fields
  return f['alive'].dom, f['term'].dom, f['tval'].val, f['tnone'].dom


def comps_injective():
  """Assumed string fact: a valid dotted name is determined by its components
  ('.'.join(s.split('.')) == s)."""
  return sym.forall([s_, t_], z3.Implies(
      z3.And(valid(s_), valid(t_), comps(s_) == comps(t_)), s_ == t_),
      patterns=[[comps(s_), comps(t_)]])


def wf_parts(sm, except_path=None):
  alive, term, tval, tnone = T(sm)
  m = M(sm)
  pruned_guard = z3.And(alive[pi_], pi_ != nil)
  if except_path is not None:
    pruned_guard = z3.And(pruned_guard, pi_ != except_path)
  return [
      ('root_alive', alive[nil]),
      ('alive_is_prefix_closed', sym.forall(
          [pi_, c_], z3.Implies(alive[snoc(pi_, c_)], alive[pi_]),
          patterns=[alive[snoc(pi_, c_)]])),
      ('terminals_are_stored_names', sym.forall([pi_], z3.Implies(term[pi_], z3.And(
          alive[pi_], z3.Not(tnone[pi_]), m.dom[tval[pi_]], comps(tval[pi_]) == pi_)),
          patterns=[term[pi_]])),
      ('stored_names_are_terminals', sym.forall([s_], z3.Implies(m.dom[s_], z3.And(
          valid(s_), term[comps(s_)], tval[comps(s_)] == s_)), patterns=[m.dom[s_]])),
      ('pruned', sym.forall([pi_], z3.Implies(pruned_guard, z3.Or(
          term[pi_], z3.Exists([c_], alive[snoc(pi_, c_)]))), patterns=[alive[pi_]])),
  ]


def WF(sm, except_path=None):
  return z3.And(*[e for _, e in wf_parts(sm, except_path)])


def _defaults():
  SelectorMap.defaults = {
      '_selector_map': lambda ex: StrValDict.empty(),
      '_selector_tree': lambda ex: _empty_tree()}


def _empty_tree():
  t = VRecord(SelTree, {f: k.empty() for f, k in SelTree.fields.items()})
  t.fields['alive'].set(sym.VPath(nil), VBool(True))
  return t


_defaults()

# ---- deepcopy of a tree: assumed ---------------------------------------------------------------
c = Contract('ext::copy.deepcopy#tree', ['C08', 'C20'], kind='assumed')
c.param('x', SelTree)
c.result = SelTree
c.ensure('same_view_fresh_nodes', lambda x: SelTree.box(x.result) == SelTree.box(x.a.x))
c.raises_only_listed = True
c.assumptions.append('copy.deepcopy of the nested-dict tree yields an equal tree that shares '
                     'no dict with the original (ownership of the copy)')
register(c)
REGISTRY['ext::copy.deepcopy'].dispatch = lambda args: (
    REGISTRY['ext::copy.deepcopy#tree'] if args and tree.is_tree(args[0]) else None)


def _attach_wf(name):
  c = REGISTRY['selector_map.py::SelectorMap.' + name]
  c.skip_proof = None
  c.require('representation_invariant', lambda x: WF(x.self_old))
  c.require('names_are_determined_by_their_components', lambda x: comps_injective())
  return c


# ---- clear ---------------------------------------------------------------------------------
c = _attach_wf('clear')
c.ensure('representation_invariant_holds_after', lambda x: WF(x.self_new))

# ---- copy ----------------------------------------------------------------------------------
c = _attach_wf('copy')
c.ensure('copy_satisfies_the_representation_invariant', lambda x: WF(x.result))
c.ensure('original_untouched', lambda x: SelTree.box(x.self_new.fields['_selector_tree']) ==
         SelTree.box(x.self_old.fields['_selector_tree']))

# ---- __setitem__ ------------------------------------------------------------------------------
c = _attach_wf('__setitem__')
c.local_kinds = {'selector_components': StrList}
for _i, (_lbl, _) in enumerate(wf_parts(SelectorMap.fresh('dummy'))):
  c.ensure('representation_invariant_after/' + _lbl,
           (lambda i: lambda x: wf_parts(x.self_new)[i][1])(_i))
c.exc_ensure('tree_untouched_when_rejected', lambda x: SelTree.box(
    x.self_new.fields['_selector_tree']) == SelTree.box(x.self_old.fields['_selector_tree']))
c.assumptions.append("components of a name matching SELECTOR_RE are identifiers, never '$' "
                     '(assumed fact about the regular expression)')


def _L(x):
  return split_dot(x.a.complete_selector.e)


def _inv_cursor(x, k):
  alive = T(x.env.self)[0]
  node = tree.as_node(x.env.node)
  return z3.And(node.path == rp(StrList.box(_L(x)), k), alive[node.path])


def _inv_wf(i):
  def f(x, k):
    node = tree.as_node(x.env.node)
    return wf_parts(x.env.self, except_path=node.path)[i][1]
  return f


def _inv_frame(x, k):
  sm = x.env.self
  alive, term, tval, tnone = T(sm)
  alive0, term0, tval0, tnone0 = T(x.self_old)
  return z3.And(term == term0, tval == tval0, tnone == tnone0, same_map(sm, x.self_old),
                sym.forall([pi_], z3.Implies(alive0[pi_], alive[pi_]), patterns=[alive0[pi_]]))


def _setitem_before(ex, x):
  L = _L(x)
  x.path.assume(rp(StrList.box(L), z3.IntVal(0)) == nil)        # definition of rp
  # components of a valid selector are never the terminal key (regex fact, assumed)
  i = z3.Int('i!sc')
  x.path.assume(sym.forall([i], z3.Implies(z3.And(0 <= i, i < L.len),
                                           L.arr[i] != sym.str_lit('$')),
                           patterns=[L.arr[i]]))


def _setitem_step(ex, x, k):
  L = _L(x)
  # definition of rp, instance k+1
  x.path.assume(rp(StrList.box(L), k + 1) ==
                snoc(rp(StrList.box(L), k), L.arr[L.len - 1 - k]))


c.loop(('selector_components[::-1]', None),
       [Clause('cursor_is_at_the_path_of_the_consumed_components',
               lambda x, k: tree.as_node(x.env.node).path == rp(StrList.box(_L(x)), k)),
        Clause('cursor_is_alive', lambda x, k: z3.Select(
            T(x.env.self)[0], tree.as_node(x.env.node).path)),
        Clause('only_alive_grows', _inv_frame)] +
       [Clause('wf_except_cursor/' + lbl, _inv_wf(i))
        for i, (lbl, _) in enumerate(wf_parts(SelectorMap.fresh('dummy')))],
       havoc=['self._selector_tree'], before=_setitem_before, ghost_step=_setitem_step)
