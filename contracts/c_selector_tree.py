"""SelectorMap against its suffix-tree representation (C08): representation invariant
WF, and the proofs of the public methods' contracts of b_selector_map.py.

Paths are an algebraic datatype (nil | snoc(path, component)), components innermost
first; `alive/term/tval` are the tree view (pyvc/tree.py).  comps(s) is the path of a
dotted name: comps(s) = rp(split(s,'.'), len) with rp(L,0)=nil,
rp(L,k+1)=snoc(rp(L,k), L[len-1-k]) -- unfolded by ghost code, one instance per loop
iteration, never as a quantified axiom.
"""
import z3

from pyvc import sym, world, tree
from pyvc.contract import Contract, Clause, register, REGISTRY
from pyvc.sym import (KBool, KInt, KStr, KVal, KList, KOpt, VObj, VRecord, PathS, VBool)
from contracts.a_state import SelectorMap, SelTree, StrValDict, StrList
from contracts.b_selector_map import M, valid, dsuffix, same_map

pi_ = z3.Const('pi!t', PathS)
c_ = z3.Const('c!t', sym.Str)
s_ = z3.Const('s!t', sym.Str)
t_ = z3.Const('t!t', sym.Str)
snoc, nil = PathS.psnoc, PathS.pnil
SL = StrList.sort()


sg_ = z3.Const('sg!t', PathS)
nu_ = z3.Const('nu!t', PathS)
mu_ = z3.Const('mu!t', PathS)
i_ = z3.Int('i!t')
j_ = z3.Int('j!t')
t2_ = z3.Int('t2!t')


def anc(a, b):
  return sym.ufun('anc', PathS, PathS, sym.BoolS)(a, b)


def anc_definition():
  return z3.And(
      sym.forall([nu_], anc(nu_, nil) == (nu_ == nil), patterns=[anc(nu_, nil)]),
      sym.forall([nu_, sg_, c_], anc(nu_, snoc(sg_, c_)) ==
                 z3.Or(nu_ == snoc(sg_, c_), anc(nu_, sg_)),
                 patterns=[anc(nu_, snoc(sg_, c_))]))


def depth(p):
  return sym.ufun('depth', PathS, sym.IntS)(p)


def depth_definition():
  return z3.And(depth(nil) == 0, sym.forall(
      [sg_, c_], depth(snoc(sg_, c_)) == depth(sg_) + 1, patterns=[depth(snoc(sg_, c_))]))


def rp(Lbox, k):
  return sym.ufun('rpath', SL, sym.IntS, PathS)(Lbox, k)


def split_dot(s):
  return world.str_split(s, sym.str_lit('.'))


def comps(s):
  L = split_dot(s)
  return rp(StrList.box(L), L.len)


def T(sm):
  f = sm.fields['_selector_tree'].fields
  return f['alive'].dom, f['term'].dom, f['tval'].val, f['tnone'].dom


def comps_injective():
  """Assumed string fact: a valid dotted name is determined by its components
  ('.'.join(s.split('.')) == s)."""
  return sym.forall([s_, t_], z3.Implies(
      z3.And(valid(s_), valid(t_), comps(s_) == comps(t_)), s_ == t_),
      patterns=[[comps(s_), comps(t_)]])


def fruit(p):
  """Trigger-control marker, defined to be true everywhere (fruit_definition).  The clause
  `fruitful` below is only instantiated for nodes p for which the term fruit(p) exists:
  instantiating it creates a witness terminal, which is alive, which would instantiate it
  again (a matching loop)."""
  return sym.ufun('fruit', PathS, sym.BoolS)(p)


def fruit_definition():
  return sym.forall([pi_], fruit(pi_), patterns=[fruit(pi_)])


def fruitful(alive, term, except_path=None, extra=None, exempt=None):
  """Every dict of the tree (but the root) leads to a stored name."""
  guard = [fruit(pi_), alive[pi_], pi_ != nil]
  if except_path is not None:
    guard.append(pi_ != except_path)
  if exempt is not None:
    guard.append(z3.Not(exempt(pi_)))
  body = z3.Exists([sg_], z3.And(term[sg_], anc(pi_, sg_)))
  if extra is not None:
    body = z3.Or(body, extra(pi_))
  return sym.forall([pi_], z3.Implies(z3.And(*guard), body), patterns=[[alive[pi_], fruit(pi_)]])


def wf_parts(sm, except_path=None):
  alive, term, tval, tnone = T(sm)
  m = M(sm)
  pruned_guard = z3.And(alive[pi_], pi_ != nil)
  if except_path is not None:
    pruned_guard = z3.And(pruned_guard, pi_ != except_path)
  return [
      ('root_alive', alive[nil]),
      ('alive_is_prefix_closed', sym.forall(
          [pi_, c_], z3.Implies(alive[snoc(pi_, c_)], alive[pi_]),
          patterns=[alive[snoc(pi_, c_)]])),
      ('terminals_are_stored_names', sym.forall([pi_], z3.Implies(term[pi_], z3.And(
          alive[pi_], z3.Not(tnone[pi_]), m.dom[tval[pi_]], comps(tval[pi_]) == pi_)),
          patterns=[term[pi_]])),
      ('stored_names_are_terminals', sym.forall([s_], z3.Implies(m.dom[s_], z3.And(
          valid(s_), term[comps(s_)], tval[comps(s_)] == s_)), patterns=[m.dom[s_]])),
      ('pruned', sym.forall([pi_], z3.Implies(pruned_guard, z3.Or(
          term[pi_], z3.Exists([c_], alive[snoc(pi_, c_)]))), patterns=[alive[pi_]])),
      # every dict of the tree leads to a stored name (the tree is finite and pruned): needed for
      # "no shorter suffix resolves back" in minimal_selector
      ('fruitful', fruitful(alive, term, except_path=except_path)),
  ]


WF_LABELS = ['root_alive', 'alive_is_prefix_closed', 'terminals_are_stored_names',
             'stored_names_are_terminals', 'pruned', 'fruitful']


def WF(sm, except_path=None):
  return z3.And(*[e for _, e in wf_parts(sm, except_path)])


def _defaults():
  SelectorMap.defaults = {
      '_selector_map': lambda ex: StrValDict.empty(),
      '_selector_tree': lambda ex: _empty_tree()}


def _empty_tree():
  t = VRecord(SelTree, {f: k.empty() for f, k in SelTree.fields.items()})
  t.fields['alive'].set(sym.VPath(nil), VBool(True))
  return t


_defaults()
# a fresh `{}` stored as the tree is the tree in which only the root dict exists
world.EMPTY_DICT_AS_RECORD['SelTree'] = _empty_tree

# ---- deepcopy of a tree: assumed ---------------------------------------------------------------
c = Contract('ext::copy.deepcopy#tree', ['C08', 'C20'], kind='assumed')
c.param('x', SelTree)
c.result = SelTree
c.ensure('same_view_fresh_nodes', lambda x: SelTree.box(x.result) == SelTree.box(x.a.x))
c.raises_only_listed = True
c.assumptions.append('copy.deepcopy of the nested-dict tree yields an equal tree that shares '
                     'no dict with the original (ownership of the copy)')
register(c)
REGISTRY['ext::copy.deepcopy'].dispatch = lambda args: (
    REGISTRY['ext::copy.deepcopy#tree'] if args and tree.is_tree(args[0]) else None)


def _attach_wf(name):
  c = REGISTRY['selector_map.py::SelectorMap.' + name]
  c.skip_proof = None
  c.assume_entry('representation_invariant', lambda x: WF(x.self_old),
                 'class invariant of SelectorMap: established by __init__ (proved), preserved by '
                 'clear/copy/__setitem__/pop (all proved); the private fields are touched only '
                 'by the class\'s own methods (AST obligation)')
  c.assume_entry('definition_of_the_trigger_marker', lambda x: fruit_definition(),
                 'definition: fruit(p) is true for every p (a trigger-control marker, no content)')
  c.assume_entry('names_are_determined_by_their_components', lambda x: comps_injective(),
                 "string fact: '.'.join(s.split('.')) == s, so a dotted name is determined by "
                 'its components')
  return c


# ---- clear ---------------------------------------------------------------------------------
c = _attach_wf('clear')
c.ensure('representation_invariant_holds_after', lambda x: WF(x.self_new))

# ---- copy ----------------------------------------------------------------------------------
c = _attach_wf('copy')
c.ensure('copy_satisfies_the_representation_invariant', lambda x: WF(x.result))
c.ensure('original_untouched', lambda x: SelTree.box(x.self_new.fields['_selector_tree']) ==
         SelTree.box(x.self_old.fields['_selector_tree']))

# ---- __setitem__ ------------------------------------------------------------------------------
c = _attach_wf('__setitem__')
c.local_kinds = {'selector_components': StrList}
c.assume_entry('definition_of_ancestor', lambda x: anc_definition(),
               'definition of the spec function anc by structural recursion')
for _i, (_lbl, _) in enumerate(wf_parts(SelectorMap.fresh('dummy'))):
  c.ensure('representation_invariant_after/' + _lbl,
           (lambda i: lambda x: wf_parts(x.self_new)[i][1])(_i))
c.exc_ensure('tree_untouched_when_rejected', lambda x: SelTree.box(
    x.self_new.fields['_selector_tree']) == SelTree.box(x.self_old.fields['_selector_tree']))
c.assumptions.append("components of a name matching SELECTOR_RE are identifiers, never '$' "
                     '(assumed fact about the regular expression)')


def _L(x):
  return split_dot(x.a.complete_selector.e)


def _inv_cursor(x, k):
  alive = T(x.env.self)[0]
  node = tree.as_node(x.env.node)
  return z3.And(node.path == rp(StrList.box(_L(x)), k), alive[node.path])


def _inv_wf(i):
  def f(x, k):
    node = tree.as_node(x.env.node)
    if WF_LABELS[i] == 'fruitful':
      # the dicts created by this walk lead nowhere yet: they are on the path of the new name
      alive, term, tval, tnone = T(x.env.self)
      L = _L(x)
      return fruitful(alive, term, extra=lambda p: anc(p, rp(StrList.box(L), L.len)))
    return wf_parts(x.env.self, except_path=node.path)[i][1]
  return f


def _inv_frame(x, k):
  sm = x.env.self
  alive, term, tval, tnone = T(sm)
  alive0, term0, tval0, tnone0 = T(x.self_old)
  return z3.And(term == term0, tval == tval0, tnone == tnone0, same_map(sm, x.self_old),
                sym.forall([pi_], z3.Implies(alive0[pi_], alive[pi_]), patterns=[alive0[pi_]]))


def prefix_lemma(x, L):
  """anc(rp(L, j), rp(L, n)) for 0 <= j <= n  (integer induction, downwards)."""
  n = L.len
  Lb = StrList.box(L)
  j0 = x.path.fresh_const('ind_j', sym.IntS)
  q = x.path.qual + '/lemma/prefix_paths_are_ancestors'
  P = lambda j: anc(rp(Lb, j), rp(Lb, n))
  x.path.assume(rp(Lb, j0 + 1) == snoc(rp(Lb, j0), L.arr[L.len - (j0 + 1)]))
  x.path.oblige(q + '/base', P(n))
  x.path.oblige(q + '/step', z3.Implies(z3.And(0 <= j0, j0 < n, P(j0 + 1)), P(j0)))
  x.path.assume(sym.forall([j_], z3.Implies(z3.And(0 <= j_, j_ <= n), P(j_)),
                           patterns=[rp(Lb, j_)]))


def _setitem_before(ex, x):
  L = _L(x)
  x.path.assume(rp(StrList.box(L), z3.IntVal(0)) == nil)        # definition of rp
  lemmas(x, T(x.env.self)[0], only=['parent_of_ancestor'])
  prefix_lemma(x, L)
  # components of a valid selector are never the terminal key (regex fact, assumed)
  i = z3.Int('i!sc')
  x.path.assume(sym.forall([i], z3.Implies(z3.And(0 <= i, i < L.len),
                                           L.arr[i] != sym.str_lit('$')),
                           patterns=[L.arr[i]]))


def _setitem_step(ex, x, k):
  L = _L(x)
  # definition of rp, instance k+1
  x.path.assume(rp(StrList.box(L), k + 1) ==
                snoc(rp(StrList.box(L), k), L.arr[L.len - 1 - k]))


c.loop(('selector_components[::-1]', None),
       [Clause('cursor_is_at_the_path_of_the_consumed_components',
               lambda x, k: tree.as_node(x.env.node).path == rp(StrList.box(_L(x)), k)),
        Clause('cursor_is_alive', lambda x, k: z3.Select(
            T(x.env.self)[0], tree.as_node(x.env.node).path)),
        Clause('only_alive_grows', _inv_frame)] +
       [Clause('wf_except_cursor/' + lbl, _inv_wf(i))
        for i, (lbl, _) in enumerate(wf_parts(SelectorMap.fresh('dummy')))],
       havoc=['self._selector_tree'], before=_setitem_before, ghost_step=_setitem_step)


# ==== matching_selectors =========================================================================
# dsuffix(p, s)  <=>  anc(comps(p), comps(s)):  the path of p is an ancestor-or-equal of the
# path of s.  anc is defined by structural recursion on its second argument (A1-A3);
# everything else about it is a LEMMA proved by structural induction (two VCs each).
def dsuffix_definition():
  return sym.forall([s_, t_], dsuffix(s_, t_) == anc(comps(s_), comps(t_)),
                    patterns=[dsuffix(s_, t_)])


def expand_children(p):
  return sym.ufun('expand_children', PathS, sym.BoolS)(p)


def induct(x, name, P, flat):
  """Structural induction over paths: proves  forall sg. P(sg)  from  P(nil)  and
  forall sg, c. P(sg) => P(snoc(sg, c));  `flat` is the same statement as ONE quantifier
  block with explicit triggers (what is assumed afterwards)."""
  q = x.path.qual
  sg0 = x.path.fresh_const('ind_sg', PathS)
  c0 = x.path.fresh_const('ind_c', sym.Str)
  x.path.oblige(f'{q}/lemma/{name}/base', P(nil))
  x.path.oblige(f'{q}/lemma/{name}/step', z3.Implies(P(sg0), P(snoc(sg0, c0))))
  x.path.assume(flat)


_induct_global = induct


def lemmas(x, alive, only=None):
  """anc lemmas used by the walk and the DFS (each proved by induction, then assumed)."""
  def induct(x, name, P, flat):
    if only is None or name in only:
      _induct_global(x, name, P, flat)
  induct(x, 'root_is_ancestor_of_all', lambda sg: anc(nil, sg),
         sym.forall([sg_], anc(nil, sg_), patterns=[anc(nil, sg_)]))
  induct(x, 'parent_of_ancestor', lambda sg: sym.forall(
      [nu_, c_], z3.Implies(anc(snoc(nu_, c_), sg), anc(nu_, sg)),
      patterns=[anc(snoc(nu_, c_), sg)]),
      sym.forall([sg_, nu_, c_], z3.Implies(anc(snoc(nu_, c_), sg_), anc(nu_, sg_)),
                 patterns=[anc(snoc(nu_, c_), sg_)]))
  induct(x, 'ancestors_of_alive_are_alive', lambda sg: sym.forall(
      [nu_], z3.Implies(z3.And(alive[sg], anc(nu_, sg)), alive[nu_]),
      patterns=[anc(nu_, sg)]),
      sym.forall([sg_, nu_], z3.Implies(z3.And(alive[sg_], anc(nu_, sg_)), alive[nu_]),
                 patterns=[anc(nu_, sg_)]))
  induct(x, 'descendant_is_under_a_child', lambda sg: sym.forall(
      [nu_], z3.Implies(z3.And(anc(nu_, sg), nu_ != sg),
                        z3.Exists([c_], anc(snoc(nu_, c_), sg))),
      patterns=[anc(nu_, sg)]),
      # NOTE the trigger: instantiating this lemma creates a new anc(snoc(nu, c), sg) term,
      # which would match it again (a matching loop down the tree); it is therefore only
      # fired for nodes explicitly marked with expand_children(nu)
      sym.forall([sg_, nu_], z3.Implies(z3.And(anc(nu_, sg_), nu_ != sg_),
                                        z3.Exists([c_], anc(snoc(nu_, c_), sg_))),
                 patterns=[[anc(nu_, sg_), expand_children(nu_)]]))
  induct(x, 'ancestor_is_not_deeper', lambda sg: z3.And(depth(sg) >= 0, sym.forall(
      [nu_], z3.Implies(anc(nu_, sg), depth(nu_) <= depth(sg)), patterns=[anc(nu_, sg)])),
      z3.And(sym.forall([sg_], depth(sg_) >= 0, patterns=[depth(sg_)]),
             sym.forall([sg_, nu_], z3.Implies(anc(nu_, sg_), depth(nu_) <= depth(sg_)),
                        patterns=[anc(nu_, sg_)])))
  if only is not None and 'ancestor_is_transitive' in only:
    induct(x, 'ancestor_is_transitive', lambda sg: sym.forall(
        [nu_, mu_], z3.Implies(z3.And(anc(nu_, mu_), anc(mu_, sg)), anc(nu_, sg)),
        patterns=[[anc(nu_, mu_), anc(mu_, sg)]]),
        sym.forall([sg_, nu_, mu_], z3.Implies(z3.And(anc(nu_, mu_), anc(mu_, sg_)),
                                               anc(nu_, sg_)),
                   patterns=[[anc(nu_, mu_), anc(mu_, sg_)]]))
  induct(x, 'children_subtrees_disjoint', lambda sg: sym.forall(
      [nu_, c_, t_], z3.Implies(z3.And(anc(snoc(nu_, c_), sg), anc(snoc(nu_, t_), sg)),
                                c_ == t_),
      patterns=[[anc(snoc(nu_, c_), sg), anc(snoc(nu_, t_), sg)]]),
      sym.forall([sg_, nu_, c_, t_], z3.Implies(
          z3.And(anc(snoc(nu_, c_), sg_), anc(snoc(nu_, t_), sg_)), c_ == t_),
          patterns=[[anc(snoc(nu_, c_), sg_), anc(snoc(nu_, t_), sg_)]]))


c = _attach_wf('matching_selectors')
c.local_kinds = {'selector_components': StrList, 'selectors': StrList}
c.assume_entry('definition_of_ancestor', lambda x: anc_definition(),
               'definition of the spec function anc by structural recursion')
c.assume_entry('definition_of_dotted_suffix', lambda x: dsuffix_definition(),
               'definition: dsuffix(p, s) iff the path of p is an ancestor-or-equal of the path of s')
c.assume_entry('definition_of_depth', lambda x: depth_definition(),
               'definition of the spec function depth by structural recursion')
c.assume_entry('valid_names_are_not_empty', lambda x: sym.forall(
    [s_], z3.Implies(valid(s_), s_ != sym.str_lit('')), patterns=[valid(s_)]),
    'regex fact: SELECTOR_RE does not match the empty string')
c.ensure('tree_untouched', lambda x: SelTree.box(x.self_new.fields['_selector_tree']) ==
         SelTree.box(x.self_old.fields['_selector_tree']))
c.notes.append('termination of the DFS is not proved (partial correctness)')
c.assumptions.append("names passed to matching_selectors have no component equal to '$'")


def _Lp(x):
  return split_dot(x.a.partial_selector.e)


def _rp_def(x, L):
  """Definition of rp as a (guarded) recursive equation, triggered on rp(L, j)."""
  Lb = StrList.box(L)
  return z3.And(rp(Lb, z3.IntVal(0)) == nil, sym.forall(
      [j_], z3.Implies(j_ >= 1, rp(Lb, j_) == snoc(rp(Lb, j_ - 1), L.arr[L.len - j_])),
      patterns=[rp(Lb, j_)]))


def _walk_before(ex, x):
  L = _Lp(x)
  alive = T(x.env.self)[0]
  x.path.assume(rp(StrList.box(L), z3.IntVal(0)) == nil)        # definition of rp
  i = z3.Int('i!sc')
  # queried names never contain the terminal key '$' (they come from NAME tokens of the
  # tokenizer or have passed MODULE_RE) -- assumed, listed in the evidence
  x.path.assume(sym.forall([i], z3.Implies(z3.And(0 <= i, i < L.len),
                                           L.arr[i] != sym.str_lit('$')), patterns=[L.arr[i]]))
  lemmas(x, alive)
  # every consumed prefix of the reversed components is an ancestor of comps(p)
  n = L.len
  Lb = StrList.box(L)
  j0 = x.path.fresh_const('ind_j', sym.IntS)
  q = 'selector_map.py::SelectorMap.matching_selectors/lemma/prefix_paths_are_ancestors'
  P = lambda j: anc(rp(Lb, j), rp(Lb, n))
  # definition of rp, instance j0+1 (j0 arbitrary)
  x.path.assume(rp(Lb, j0 + 1) == snoc(rp(Lb, j0), L.arr[L.len - (j0 + 1)]))
  x.path.oblige(q + '/base', P(n))
  x.path.oblige(q + '/step', z3.Implies(z3.And(0 <= j0, j0 < n, P(j0 + 1)), P(j0)))
  x.path.assume(sym.forall([j_], z3.Implies(z3.And(0 <= j_, j_ <= n), P(j_)),
                           patterns=[rp(Lb, j_)]))


def _walk_inv(x, k):
  node = tree.as_node(x.env.node)
  alive = T(x.env.self)[0]
  return z3.And(node.path == rp(StrList.box(_Lp(x)), k), alive[node.path],
                SelTree.box(x.env.self.fields['_selector_tree']) ==
                SelTree.box(x.self_old.fields['_selector_tree']),
                same_map(x.env.self, x.self_old))


def _walk_step(ex, x, k):
  L = _Lp(x)
  x.path.assume(rp(StrList.box(L), k + 1) ==
                snoc(rp(StrList.box(L), k), L.arr[L.len - 1 - k]))


c.loop(('reversed(selector_components)', None),
       [Clause('cursor_is_at_the_path_of_the_consumed_components', _walk_inv)],
       before=_walk_before, body_start=_walk_step)


# -- the DFS --------------------------------------------------------------------------------------
def _start(x):
  L = _Lp(x)
  return rp(StrList.box(L), L.len)


def _dfs_inv_parts(x):
  sm = x.env.self
  alive, term, tval, tnone = T(sm)
  sel = x.env.selectors
  st = x.env.dfs_stack
  nu0 = _start(x)
  owner = x.env.ghost_owner.val      # ghost: collected path -> index in `selectors`
  pathof = x.env.ghost_pathof.val    # ghost inverse: index in `selectors` -> collected path
  parts = [
      ('tree_and_map_untouched', z3.And(
          SelTree.box(sm.fields['_selector_tree']) ==
          SelTree.box(x.self_old.fields['_selector_tree']), same_map(sm, x.self_old))),
      ('stack_nodes_are_alive_and_under_the_start', sym.forall(
          [t2_], z3.Implies(z3.And(0 <= t2_, t2_ < st.len),
                            z3.And(alive[st.arr[t2_]], anc(nu0, st.arr[t2_]))),
          patterns=[st.arr[t2_]])),
      ('collected_are_terminals_under_the_start', z3.And(sel.len >= 0, sym.forall(
          [i_], z3.Implies(z3.And(0 <= i_, i_ < sel.len), z3.And(
              term[pathof[i_]], anc(nu0, pathof[i_]), tval[pathof[i_]] == sel.arr[i_],
              owner[pathof[i_]] == i_)), patterns=[sel.arr[i_], pathof[i_]]))),
      ('every_terminal_under_the_start_is_collected_or_pending', sym.forall(
          [sg_], z3.Implies(z3.And(term[sg_], anc(nu0, sg_)), z3.Or(
              z3.And(0 <= owner[sg_], owner[sg_] < sel.len, sel.arr[owner[sg_]] == tval[sg_]),
              z3.Exists([t2_], z3.And(0 <= t2_, t2_ < st.len, anc(st.arr[t2_], sg_))))),
          patterns=[term[sg_]])),
      ('collected_and_pending_are_disjoint', sym.forall(
          [sg_, t2_], z3.Implies(
              z3.And(term[sg_], 0 <= owner[sg_], owner[sg_] < sel.len,
                     0 <= t2_, t2_ < st.len), z3.Not(anc(st.arr[t2_], sg_))),
          patterns=[[owner[sg_], st.arr[t2_]]])),
      ('pending_subtrees_are_disjoint', sym.forall(
          [i_, t2_, sg_], z3.Implies(
              z3.And(0 <= i_, i_ < t2_, t2_ < st.len, anc(st.arr[i_], sg_)),
              z3.Not(anc(st.arr[t2_], sg_))),
          patterns=[[anc(st.arr[i_], sg_), st.arr[t2_]]])),
      ('owner_indexes_only_collected', sym.forall(
          [sg_], z3.And(-1 <= owner[sg_], owner[sg_] < sel.len), patterns=[owner[sg_]])),
      ('owner_and_pathof_are_inverse', sym.forall(
          [sg_], z3.Implies(z3.And(0 <= owner[sg_], owner[sg_] < sel.len),
                            pathof[owner[sg_]] == sg_), patterns=[owner[sg_]])),
  ]
  return parts


GPath = sym.KDict(sym.KPath, KInt)
c.ghost_vars['owner'] = lambda x: sym.VDict(GPath, z3.K(PathS, z3.BoolVal(True)),
                                            z3.K(PathS, z3.IntVal(-1)))
GIdx = sym.KDict(KInt, sym.KPath)
c.ghost_vars['pathof'] = lambda x: sym.VDict(GIdx, z3.K(sym.IntS, z3.BoolVal(True)),
                                             z3.K(sym.IntS, nil))


def _dfs_ghost(ex, x, k):
  # hint (proved, then assumed): where each child of the popped node sits on the new stack
  lc = x.ghost.get('last_children')
  if lc is not None:
    nd, n, keys, idx = lc
    st = x.env.dfs_stack
    base = st.len - n
    alive = T(x.env.self)[0]
    h = sym.forall([c_], z3.Implies(alive[snoc(nd.path, c_)], z3.And(
        0 <= idx(c_), idx(c_) < n, st.arr[base + idx(c_)] == snoc(nd.path, c_))),
        patterns=[idx(c_)])
    x.path.oblige('selector_map.py::SelectorMap.matching_selectors/hint/'
                  'children_positions_on_the_stack', h)
    x.path.assume(h)
    h2 = sym.forall([t2_], z3.Implies(z3.And(base <= t2_, t2_ < st.len), z3.And(
        st.arr[t2_] == snoc(nd.path, keys[t2_ - base]), alive[st.arr[t2_]])),
        patterns=[st.arr[t2_]])
    x.path.oblige('selector_map.py::SelectorMap.matching_selectors/hint/'
                  'new_stack_entries_are_children', h2)
    x.path.assume(h2)
    len0, arr0 = x.ghost['dfs_stack_at_step']
    h4 = z3.And(base == len0 - 1, sym.forall(
        [t2_], z3.Implies(z3.And(0 <= t2_, t2_ < len0 - 1), st.arr[t2_] == arr0[t2_]),
        patterns=[arr0[t2_], st.arr[t2_]]))
    x.path.oblige('selector_map.py::SelectorMap.matching_selectors/hint/'
                  'older_stack_entries_keep_their_position', h4)
    x.path.assume(h4)
    x.path.assume(expand_children(nd.path))       # marker: fire the child lemma for this node
    h3 = sym.forall([sg_], z3.Implies(
        z3.And(anc(nd.path, sg_), sg_ != nd.path, alive[sg_]),
        z3.Exists([t2_], z3.And(base <= t2_, t2_ < st.len, anc(st.arr[t2_], sg_)))),
        patterns=[anc(nd.path, sg_)])
    x.path.oblige('selector_map.py::SelectorMap.matching_selectors/hint/'
                  'proper_descendants_of_the_popped_node_are_under_a_pushed_child', h3)
    x.path.assume(h3)
  # ghost: if this iteration appended the terminal of the popped node, record its index
  g = x.env.ghost_owner
  sel = x.env.selectors
  node = x.env.node
  popped = node.node.path if isinstance(node, tree.VNodeCopy) else tree.as_node(node).path
  # (decided structurally per path: the append branch is the one where the length term changed)
  if z3.simplify(sel.len).eq(z3.simplify(x.ghost['dfs_sel_len_at_step'])):
    return
  # hints (proved, then assumed): the freshly collected name is the popped node's terminal,
  # and the popped node was pending, hence not collected before
  alive, term, tval, tnone = T(x.env.self)
  hq = 'selector_map.py::SelectorMap.matching_selectors/hint/'
  h5 = z3.And(term[popped], anc(_start(x), popped), alive[popped],
              sel.arr[sel.len - 1] == tval[popped], sel.len - 1 >= 0)
  x.path.oblige(hq + 'appended_name_is_the_terminal_of_the_popped_node', h5)
  x.path.assume(h5)
  h6 = z3.Not(z3.And(0 <= g.val[popped], g.val[popped] < sel.len - 1))
  x.path.oblige(hq + 'popped_node_was_not_collected_before', h6)
  x.path.assume(h6)
  gp = x.env.ghost_pathof
  ex.frame.env['ghost_owner'] = sym.VDict(GPath, g.dom, z3.Store(g.val, popped, sel.len - 1))
  ex.frame.env['ghost_pathof'] = sym.VDict(gp.kind, gp.dom, z3.Store(gp.val, sel.len - 1, popped))


_NPARTS = 7
c.loop(('dfs_stack', None),
       [Clause('dfs/' + lbl, (lambda i: lambda x, k: _dfs_inv_parts(x)[i][1])(ii))
        for ii, lbl in enumerate([
            'tree_and_map_untouched', 'stack_nodes_are_alive_and_under_the_start',
            'collected_are_terminals_under_the_start',
            'every_terminal_under_the_start_is_collected_or_pending',
            'collected_and_pending_are_disjoint', 'pending_subtrees_are_disjoint',
            'owner_indexes_only_collected', 'owner_and_pathof_are_inverse'])],
       ghost=['owner', 'pathof'], ghost_step=_dfs_ghost,
       body_start=lambda ex, x, k: (
           x.ghost.__setitem__('dfs_sel_len_at_step', x.env.selectors.len),
           x.ghost.__setitem__('dfs_stack_at_step', (x.env.dfs_stack.len,
                                                     x.env.dfs_stack.arr))))


# ==== pop ==========================================================================================
c = Contract('selector_map.py::SelectorMap.pop', ['C08'])
c.self_kind = SelectorMap
c.param('complete_selector', KStr)
c.result = KVal
c.modifies_self = ['_selector_map', '_selector_tree']
register(c)
c = _attach_wf('pop')
for _lbl, _fn, _why in [
    ('definition_of_ancestor', lambda x: anc_definition(), 'definition of anc'),
    ('definition_of_depth', lambda x: depth_definition(), 'definition of depth'),
    ('valid_names_are_not_empty', lambda x: sym.forall(
        [s_], z3.Implies(valid(s_), s_ != sym.str_lit('')), patterns=[valid(s_)]),
     'regex fact: SELECTOR_RE does not match the empty string')]:
  c.assume_entry(_lbl, _fn, _why)
c.local_kinds = {'selector_components': StrList}
c.raise_case('absent', 'KeyError',
             when=lambda x: z3.Not(M(x.self_old).dom[x.a.complete_selector.e]),
             ensures=[('unchanged', lambda x: z3.And(
                 same_map(x.self_new, x.self_old),
                 SelTree.box(x.self_new.fields['_selector_tree']) ==
                 SelTree.box(x.self_old.fields['_selector_tree'])))])
c.raises_only_listed = True
c.ensure('was_present', lambda x: M(x.self_old).dom[x.a.complete_selector.e])
c.ensure('returns_the_stored_value',
         lambda x: x.result.e == M(x.self_old).val[x.a.complete_selector.e])
c.ensure('removes_exactly_this_name', lambda x: z3.And(
    M(x.self_new).dom == z3.Store(M(x.self_old).dom, x.a.complete_selector.e, False),
    M(x.self_new).val == M(x.self_old).val))
for _i, (_lbl, _) in enumerate(wf_parts(SelectorMap.fresh('dummy'))):
  c.ensure('representation_invariant_after/' + _lbl,
           (lambda i: lambda x: wf_parts(x.self_new)[i][1])(_i))


def _Ls(x):
  return split_dot(x.a.complete_selector.e)


def _pop_before1(ex, x):
  L = _Ls(x)
  Lb = StrList.box(L)
  alive = T(x.self_old)[0]
  x.path.assume(rp(Lb, z3.IntVal(0)) == nil)
  i = z3.Int('i!sc')
  x.path.assume(sym.forall([i], z3.Implies(z3.And(0 <= i, i < L.len),
                                           L.arr[i] != sym.str_lit('$')), patterns=[L.arr[i]]))
  lemmas(x, alive)
  n = L.len
  j0 = x.path.fresh_const('ind_j', sym.IntS)
  q = x.path.qual + '/lemma/prefix_paths_are_ancestors'
  P = lambda j: anc(rp(Lb, j), rp(Lb, n))
  x.path.assume(rp(Lb, j0 + 1) == snoc(rp(Lb, j0), L.arr[L.len - (j0 + 1)]))
  x.path.oblige(q + '/base', P(n))
  x.path.oblige(q + '/step', z3.Implies(z3.And(0 <= j0, j0 < n, P(j0 + 1)), P(j0)))
  x.path.assume(sym.forall([j_], z3.Implies(z3.And(0 <= j_, j_ <= n), P(j_)),
                           patterns=[rp(Lb, j_)]))
  # depth(rp(L, j)) == j  (integer induction; used to tell the dicts on the path apart)
  j1 = x.path.fresh_const('ind_j', sym.IntS)
  q2 = x.path.qual + '/lemma/depth_of_prefix_paths'
  D = lambda j: depth(rp(Lb, j)) == j
  x.path.assume(rp(Lb, j1 + 1) == snoc(rp(Lb, j1), L.arr[L.len - (j1 + 1)]))
  x.path.oblige(q2 + '/base', D(z3.IntVal(0)))
  x.path.oblige(q2 + '/step', z3.Implies(z3.And(0 <= j1, D(j1)), D(j1 + 1)))
  x.path.assume(sym.forall([j_], z3.Implies(0 <= j_, D(j_)), patterns=[rp(Lb, j_)]))
  # ancestors of a dict on the path of the name are themselves on that path
  j2 = x.path.fresh_const('ind_j', sym.IntS)
  q3 = x.path.qual + '/lemma/ancestors_of_path_nodes_are_path_nodes'
  A = lambda j: sym.forall([nu_], z3.Implies(anc(nu_, rp(Lb, j)), z3.And(
      nu_ == rp(Lb, depth(nu_)), 0 <= depth(nu_), depth(nu_) <= j)),
      patterns=[anc(nu_, rp(Lb, j))])
  x.path.assume(rp(Lb, j2 + 1) == snoc(rp(Lb, j2), L.arr[L.len - (j2 + 1)]))
  x.path.oblige(q3 + '/base', A(z3.IntVal(0)))
  x.path.oblige(q3 + '/step', z3.Implies(z3.And(0 <= j2, j2 < n, A(j2)), A(j2 + 1)))
  x.path.assume(sym.forall([j_, nu_], z3.Implies(
      z3.And(0 <= j_, j_ <= n, anc(nu_, rp(Lb, j_))),
      z3.And(nu_ == rp(Lb, depth(nu_)), 0 <= depth(nu_), depth(nu_) <= j_)),
      patterns=[anc(nu_, rp(Lb, j_))]))


def _pop_inv1(x, k):
  """nodes[j] is the dict at the path of the last j components, for j <= k."""
  nodes = x.env.nodes
  Lb = StrList.box(_Ls(x))
  alive = T(x.env.self)[0]
  return z3.And(
      nodes.len == k + 1,
      sym.forall([j_], z3.Implies(z3.And(0 <= j_, j_ <= k), z3.And(
          nodes.arr[j_] == rp(Lb, j_), alive[nodes.arr[j_]])), patterns=[nodes.arr[j_]]),
      SelTree.box(x.env.self.fields['_selector_tree']) ==
      SelTree.box(x.self_old.fields['_selector_tree']),
      M(x.env.self).dom == z3.Store(M(x.self_old).dom, x.a.complete_selector.e, False),
      M(x.env.self).val == M(x.self_old).val)


def _pop_step1(ex, x, k):
  L = _Ls(x)
  x.path.assume(rp(StrList.box(L), k + 1) ==
                snoc(rp(StrList.box(L), k), L.arr[L.len - 1 - k]))


c.loop(('selector_components', None),
       [Clause('nodes_are_the_dicts_along_the_path_of_the_name', _pop_inv1)],
       before=_pop_before1, body_start=_pop_step1)


# second loop: clear the terminal, then prune empty dicts upwards
def _pop_inv2(x, m):
  sm = x.env.self
  alive, term, tval, tnone = T(sm)
  alive0, term0, tval0, tnone0 = T(x.self_old)
  L = _Ls(x)
  Lb = StrList.box(L)
  n = L.len
  s = x.a.complete_selector.e
  ps = rp(Lb, n)                                   # comps(s)
  frontier = rp(Lb, n - m + 1)                     # the dict examined last (m >= 1)
  mnew = M(sm)
  # the tree only shrinks along the path; everything off the path is as before
  on_path = lambda p: z3.Exists([j_], z3.And(0 <= j_, j_ <= n, p == rp(Lb, j_)))
  parts = [
      ('map', z3.And(M(sm).dom == z3.Store(M(x.self_old).dom, s, False),
                     M(sm).val == M(x.self_old).val)),
      ('lists', z3.And(
          x.env.nodes.len == n + 1,
          sym.forall([j_], z3.Implies(z3.And(0 <= j_, j_ <= n),
                                      x.env.nodes.arr[j_] == rp(Lb, j_)),
                     patterns=[x.env.nodes.arr[j_]]),
          x.env.selector_components.len == n + 1,
          x.env.selector_components.arr[n] == sym.str_lit('$'),
          sym.forall([j_], z3.Implies(z3.And(0 <= j_, j_ < n),
                                      x.env.selector_components.arr[j_] == L.arr[n - 1 - j_]),
                     patterns=[x.env.selector_components.arr[j_]]))),
      ('terminals', z3.And(
          tval == tval0,
          sym.forall([pi_], term[pi_] == z3.And(term0[pi_], z3.Or(pi_ != ps, m == 0)),
                     patterns=[term[pi_]]),
          z3.Implies(m == 0, z3.And(term[ps], tnone[ps])),
          sym.forall([pi_], z3.Implies(pi_ != ps, tnone[pi_] == tnone0[pi_]),
                     patterns=[tnone[pi_]]))),
      ('alive_shrinks_only_on_the_path', z3.And(
          sym.forall([pi_], z3.Implies(alive[pi_], alive0[pi_]), patterns=[alive[pi_]]),
          sym.forall([pi_], z3.Implies(z3.And(alive0[pi_], z3.Not(alive[pi_])), z3.Exists(
              [j_], z3.And(n - m + 2 <= j_, j_ <= n, pi_ == rp(Lb, j_)))),
              patterns=[alive0[pi_]]))),
      ('terminals_are_alive', sym.forall([pi_], z3.Implies(term[pi_], alive[pi_]),
                                         patterns=[term[pi_]])),
      ('path_above_frontier_alive', sym.forall(
          [j_], z3.Implies(z3.And(0 <= j_, j_ <= n - m + 1, j_ <= n), alive[rp(Lb, j_)]),
          patterns=[rp(Lb, j_)])),
      ('closed', sym.forall([pi_, c_], z3.Implies(alive[snoc(pi_, c_)], alive[pi_]),
                            patterns=[alive[snoc(pi_, c_)]])),
      ('pruned_except_frontier', sym.forall([pi_], z3.Implies(
          z3.And(alive[pi_], pi_ != nil, z3.Or(m == 0, pi_ != frontier)),
          z3.Or(term[pi_], z3.Exists([c_], alive[snoc(pi_, c_)]))), patterns=[alive[pi_]])),
      # dicts off the path, and dicts on it that have been examined and kept, lead to a name
      ('fruitful_except_the_path_above_the_frontier', fruitful(
          alive, term, exempt=lambda p: z3.And(
              p == rp(Lb, depth(p)), 0 <= depth(p), depth(p) <= n, depth(p) <= n - m + 1))),
  ]
  return parts


POP2_LABELS = ['map', 'lists', 'terminals', 'alive_shrinks_only_on_the_path',
               'terminals_are_alive', 'path_above_frontier_alive', 'closed',
               'pruned_except_frontier', 'fruitful_except_the_path_above_the_frontier']


def _pop_before2(ex, x):
  L = _Ls(x)
  x.ghost['pop_n'] = L.len


def _pop_step2(ex, x, m):
  # definition of rp at the indices this iteration talks about
  L = _Ls(x)
  Lb = StrList.box(L)
  n = L.len
  for idx in (n - m + 1, n - m, n - m + 2):
    x.path.assume(z3.Implies(idx >= 1, rp(Lb, idx) == snoc(rp(Lb, idx - 1), L.arr[L.len - idx])))


def _pop_ghost2(ex, x, m):
  """Ghost code after an iteration of the pruning loop: if the examined dict was kept because
  it still has a child, name one such child (choice) and mark it, so that the invariant can be
  instantiated for it; ancestor-or-equal is reflexive."""
  L = _Ls(x)
  Lb = StrList.box(L)
  n = L.len
  alive, term, tval, tnone = T(x.env.self)
  fr = rp(Lb, n - m + 1)
  cw = x.path.fresh_const('kept_child', sym.Str)
  x.path.assume(z3.Implies(z3.Exists([c_], alive[snoc(fr, c_)]), alive[snoc(fr, cw)]))
  x.path.assume(fruit(snoc(fr, cw)))
  h = anc(fr, fr)
  x.path.oblige(x.path.qual + '/hint/ancestor_or_equal_is_reflexive', h)
  x.path.assume(h)


c.loop(('zip(reversed(selector_components), reversed(nodes))', None),
       [Clause('prune/' + lbl, (lambda i: lambda x, m: _pop_inv2(x, m)[i][1])(ii))
        for ii, lbl in enumerate(POP2_LABELS)],
       havoc=['self._selector_tree'], before=_pop_before2, body_start=_pop_step2,
       ghost_step=_pop_ghost2)


# ==== minimal_selector ============================================================================
# The walk records in `start` the beginning of the final run of single-entry dicts on the path
# of the name.  Invariant (no ghost state): if start is set, every dict on the path from depth
# -start up to the cursor holds exactly one entry, namely the next component of the name.
# At the end that run makes the subtree below depth -start a single chain whose only terminal
# is the name itself, which is what "the result resolves back to exactly this name" needs.
c = _attach_wf('minimal_selector')
c.local_kinds = {'selector_components': StrList, 'start': KOpt(KInt)}
c.assume_entry('definition_of_ancestor', lambda x: anc_definition(),
               'definition of the spec function anc by structural recursion')
c.assume_entry('definition_of_dotted_suffix', lambda x: dsuffix_definition(),
               'definition: dsuffix(p, s) iff the path of p is an ancestor-or-equal of the path of s')
c.assume_entry('definition_of_depth', lambda x: depth_definition(),
               'definition of the spec function depth by structural recursion')
c.ensure('tree_untouched', lambda x: z3.And(
    SelTree.box(x.self_new.fields['_selector_tree']) ==
    SelTree.box(x.self_old.fields['_selector_tree']), same_map(x.self_new, x.self_old)))
c.assume_entry('names_have_a_component', lambda x: sym.forall(
    [s_], comps(s_) != nil, patterns=[comps(s_)]),
    "string fact: s.split('.') is never empty, so the path of a name is not the root")


def _only(x, Lb, L, j):
  """The dict at depth j on the path of the name holds exactly one entry: the next component."""
  alive, term, tval, tnone = T(x.env.self)
  return z3.And(z3.Not(term[rp(Lb, j)]), sym.forall(
      [c_], z3.Implies(alive[snoc(rp(Lb, j), c_)], c_ == L.arr[L.len - 1 - j]),
      patterns=[alive[snoc(rp(Lb, j), c_)]]))


def _big(x, Lb, L, j):
  """The dict at depth j on the path holds more than the next component of the name."""
  alive, term, tval, tnone = T(x.env.self)
  return z3.Or(term[rp(Lb, j)], z3.Exists(
      [c_], z3.And(c_ != L.arr[L.len - 1 - j], alive[snoc(rp(Lb, j), c_)])))


def _min_inv_big(x, k):
  """The dict just before the recorded run (or just before the cursor, if no run is open)
  holds more than one entry."""
  L = _Ls(x)
  Lb = StrList.box(L)
  st = x.env.start
  if isinstance(st, sym.VNone):
    return z3.Implies(k >= 1, _big(x, Lb, L, k - 1))
  if not isinstance(st, sym.VOpt):
    st = sym.VOpt(KOpt(KInt), z3.BoolVal(False), st)
  k0 = -st.inner.e
  return z3.If(st.is_none, z3.Implies(k >= 1, _big(x, Lb, L, k - 1)),
               z3.Implies(k0 >= 2, _big(x, Lb, L, k0 - 1)))


def _min_ghost(ex, x, k):
  """Ghost code after an iteration: name the first two entries of the dict whose length was
  just taken (hint: proved, then assumed), so that 'more than one entry' has its witnesses."""
  lc = x.ghost.get('last_len_children')
  if lc is None:
    return
  nd, n, keys, idx = lc
  alive = T(x.env.self)[0]
  h = z3.And(z3.Implies(n >= 1, alive[snoc(nd.path, keys[0])]),
             z3.Implies(n >= 2, z3.And(alive[snoc(nd.path, keys[1])], keys[0] != keys[1])))
  x.path.oblige(x.path.qual + '/hint/first_two_entries_of_the_examined_dict', h)
  x.path.assume(h)


def _min_inv_run(x, k):
  L = _Ls(x)
  Lb = StrList.box(L)
  st = x.env.start
  if isinstance(st, sym.VNone):
    return z3.BoolVal(True)
  if not isinstance(st, sym.VOpt):
    st = sym.VOpt(KOpt(KInt), z3.BoolVal(False), st)
  k0 = -st.inner.e
  return z3.Or(st.is_none, z3.And(
      1 <= k0, k0 <= z3.If(k >= 1, k, 1),
      sym.forall([j_], z3.Implies(z3.And(k0 <= j_, j_ < k), _only(x, Lb, L, j_)),
                 patterns=[rp(Lb, j_)])))


def _min_before(ex, x):
  _pop_before1(ex, x)
  lemmas(x, T(x.env.self)[0], only=['ancestor_is_transitive'])
  L = _Ls(x)
  Lb = StrList.box(L)
  alive, term, tval, tnone = T(x.env.self)
  # the whole path of a stored name is alive (hint: proved, then assumed)
  h = sym.forall([j_], z3.Implies(z3.And(0 <= j_, j_ <= L.len), alive[rp(Lb, j_)]),
                 patterns=[rp(Lb, j_)])
  x.path.oblige(x.path.qual + '/hint/path_of_a_stored_name_is_alive', h)
  x.path.assume(h)


c.loop(('enumerate(reversed(selector_components))', None),
       [Clause('cursor_is_at_the_path_of_the_consumed_components', lambda x, k: z3.And(
           tree.as_node(x.env.node).path == rp(StrList.box(_Ls(x)), k),
           T(x.env.self)[0][tree.as_node(x.env.node).path])),
        Clause('dicts_since_start_hold_one_entry_each', _min_inv_run),
        Clause('dict_before_the_run_holds_more_than_one_entry', _min_inv_big)],
       before=_min_before, body_start=_pop_step1, ghost_step=_min_ghost)


def join_split_facts(x, r, X):
  """Assumed string facts about '.'.join / split('.') (listed in the evidence), instantiated
  for the list X being joined into r: splitting r gives back the components of X."""
  R = split_dot(r)
  x.path.assume(z3.And(R.len == X.len, sym.forall(
      [j_], z3.Implies(z3.And(0 <= j_, j_ < X.len), R.arr[j_] == z3.Select(X.arr, j_)),
      patterns=[R.arr[j_]])))
  return R


def _min_at_return(ex, x):
  """Ghost code at `return '.'.join(selector_components[start:])`."""
  L = _Ls(x)
  Lb = StrList.box(L)
  n = L.len
  s = x.a.complete_selector.e
  r = x.result.e
  _min_ghost(ex, x, None)       # witnesses for the entries of the last dict
  if r.eq(s):
    # `return complete_selector`: the last dict holds the name and at least one longer one
    _min_witness(x, L, Lb, n, None)
    return
  st = x.env.start
  alive, term, tval, tnone = T(x.env.self)
  q = x.path.qual
  if not x.path.decide(st.is_none):
    k0 = -st.inner.e
    # r = '.'.join(selector_components[start:]) with start = -k0 and 1 <= k0 <= n: the slice is
    # the last k0 components (list slicing), and splitting their join gives them back (assumed
    # string fact, stated for exactly this list)
    R = split_dot(r)
    x.path.assume(z3.Implies(z3.And(1 <= k0, k0 <= n), z3.And(R.len == k0, sym.forall(
        [j_], z3.Implies(z3.And(0 <= j_, j_ < k0), R.arr[j_] == L.arr[n - k0 + j_]),
        patterns=[R.arr[j_]]))))
    Rb = StrList.box(R)
    # rp over the components of r coincides with rp over the last k0 components of the name
    j0 = x.path.fresh_const('ind_j', sym.IntS)
    x.path.assume(rp(Rb, z3.IntVal(0)) == nil)
    x.path.assume(rp(Rb, j0 + 1) == snoc(rp(Rb, j0), R.arr[R.len - (j0 + 1)]))
    x.path.assume(rp(Lb, j0 + 1) == snoc(rp(Lb, j0), L.arr[L.len - (j0 + 1)]))
    P = lambda j: rp(Rb, j) == rp(Lb, j)
    x.path.oblige(q + '/lemma/path_of_the_result/base', P(z3.IntVal(0)))
    x.path.oblige(q + '/lemma/path_of_the_result/step',
                  z3.Implies(z3.And(0 <= j0, j0 < k0, P(j0)), P(j0 + 1)))
    x.path.assume(z3.Implies(z3.And(0 <= k0, k0 <= n), P(k0)))
    # every stored name below depth k0 is below every later dict of the path (the chain)
    sg0 = x.path.fresh_const('ind_sg', PathS)
    j1 = x.path.fresh_const('ind_j', sym.IntS)
    x.path.assume(rp(Lb, j1 + 1) == snoc(rp(Lb, j1), L.arr[L.len - (j1 + 1)]))
    x.path.assume(expand_children(rp(Lb, j1)))
    H = z3.And(term[sg0], anc(rp(Lb, k0), sg0))
    Q = lambda j: z3.Implies(H, anc(rp(Lb, j), sg0))
    x.path.oblige(q + '/lemma/single_chain/base', Q(k0))
    x.path.oblige(q + '/lemma/single_chain/step',
                  z3.Implies(z3.And(k0 <= j1, j1 < n, Q(j1)), Q(j1 + 1)))
    x.path.assume(sym.forall([sg_], z3.Implies(z3.And(term[sg_], anc(rp(Lb, k0), sg_)),
                                               anc(rp(Lb, n), sg_)),
                             patterns=[[term[sg_], anc(rp(Lb, k0), sg_)]]))
    x.path.assume(expand_children(rp(Lb, n)))
    _min_witness(x, L, Lb, k0 - 1, L.arr[L.len - 1 - (k0 - 1)])
  else:
    # start is None: the whole name is returned
    x.path.assume(world.str_join(sym.str_lit('.'), L) == s)
    _min_witness(x, L, Lb, n - 1, L.arr[0])


def _min_witness(x, L, Lb, d, comp):
  """Ghost code for minimality.  The dict at depth d on the path (the one just before the run,
  or the last one when the whole name is returned) holds an entry other than the component
  `comp` of the name (None: any entry will do): name one such child (choice) and mark it, so
  that `fruitful` yields the stored name it leads to; and show that every shorter prefix of the
  path is an ancestor of that dict (induction, downwards)."""
  alive, term, tval, tnone = T(x.env.self)
  q = x.path.qual
  cw = x.path.fresh_const('other_child', sym.Str)
  B = rp(Lb, d)
  other = (lambda c: alive[snoc(B, c)]) if comp is None else \
      (lambda c: z3.And(c != comp, alive[snoc(B, c)]))
  x.path.assume(z3.Implies(z3.Exists([c_], other(c_)), other(cw)))
  x.path.assume(fruit(snoc(B, cw)))
  x.path.assume(z3.Implies(d >= 0, rp(Lb, d + 1) == snoc(B, L.arr[L.len - 1 - d])))
  j3 = x.path.fresh_const('ind_j', sym.IntS)
  x.path.assume(rp(Lb, j3 + 1) == snoc(rp(Lb, j3), L.arr[L.len - (j3 + 1)]))
  P2 = lambda j: anc(rp(Lb, j), B)
  x.path.oblige(q + '/lemma/prefixes_are_ancestors_of_the_witness_dict/base', P2(d))
  x.path.oblige(q + '/lemma/prefixes_are_ancestors_of_the_witness_dict/step',
                z3.Implies(z3.And(0 <= j3, j3 < d, P2(j3 + 1)), P2(j3)))
  x.path.assume(sym.forall([j_], z3.Implies(z3.And(0 <= j_, j_ <= d), P2(j_)),
                           patterns=[rp(Lb, j_)]))


c.at_return = _min_at_return
c.assumptions.append("string facts: '.'.join(s.split('.')) == s, and splitting the join of a "
                     'suffix of the components gives those components back')


# ==== get_all_matches ==============================================================================
# (not used by gin itself; part of the public surface "every API resolves names identically")
from contracts.b_selector_map import is_match_list as _is_match_list, _mk as _mk_abs
c = _mk_abs('get_all_matches', ('C08',))
c.param('partial_selector', KStr)
c.result = KList(KVal)


def _values_of_the_matches(x):
  """The values, in order, of exactly the names matching_selectors returned (visible inside
  this function's own proof through the call trace; True at call sites)."""
  ms = [e['result'] for e in x.trace
        if e.get('call') == 'selector_map.py::SelectorMap.matching_selectors' and 'result' in e]
  if len(ms) != 1:
    return z3.BoolVal(True)
  ms = ms[0]
  return z3.And(
      _is_match_list(x.self_old, x.a.partial_selector.e, ms),
      x.result.len == ms.len,
      sym.forall([i_], z3.Implies(z3.And(0 <= i_, i_ < ms.len),
                                  x.result.arr[i_] == M(x.self_old).val[ms.arr[i_]]),
                 patterns=[x.result.arr[i_]]))


c.ensure('values_of_exactly_the_matching_names_in_order', _values_of_the_matches)
c.ensure('self_unchanged', lambda x: same_map(x.self_new, x.self_old))
c.raises_only_listed = True
register(c)


# ==== __init__: the constructor establishes the representation invariant =============================
c = _mk_abs('__init__', ('C08',))
c.modifies_self = ['_selector_map', '_selector_tree']
c.ensure('map_empty', lambda x: sym.forall([s_], z3.Not(M(x.self_new).dom[s_]),
                                           patterns=[M(x.self_new).dom[s_]]))
for _i, (_lbl, _) in enumerate(wf_parts(SelectorMap.fresh('dummy'))):
  c.ensure('establishes_the_representation_invariant/' + _lbl,
           (lambda i: lambda x: wf_parts(x.self_new)[i][1])(_i))
c.assume_entry('definition_of_ancestor', lambda x: anc_definition(),
               'definition of the spec function anc by structural recursion')
c.raises_only_listed = True
register(c)
