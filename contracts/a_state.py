"""Module-level state of gin/config.py as an explicit state record, the record
classes of the repo, and which tiny accessors may be executed inline.

Loaded first (modules of this package are imported in name order).
"""
import z3

from pyvc import sym, world
from pyvc.sym import (KBool, KInt, KStr, KVal, KList, KDict, KSet, KTuple, KOpt,
                      KRecord, KPath, VObj, VInt, VBool, VStr)

Key2 = KTuple(KStr, KStr)              # (scope string, selector)
ParamDict = KDict(KStr, KVal)          # parameter name -> value
ConfigKind = KDict(Key2, ParamDict)
ScopeList = KList(KStr)
ScopeStack = KList(ScopeList)

ScopeManager = KRecord('_ScopeManager',
                       {'_active_scopes': KOpt(ScopeStack)}, mutable=True)

# A SelectorMap: `_selector_map` (complete selector -> value) and the suffix tree,
# viewed as two predicates over paths (components innermost first): alive(pi) -- a
# dict object exists at pi; term(pi) -- that dict has the '$' key.  Code in
# config.py only ever sees the map through the method contracts.
SelTree = KRecord('SelTree', {'alive': KSet(KPath), 'term': KSet(KPath),
                              'tval': KDict(KPath, KStr), 'tnone': KSet(KPath)},
                  mutable=True)
StrValDict = KDict(KStr, KVal)
SelectorMap = KRecord('SelectorMap',
                      {'_selector_map': StrValDict, '_selector_tree': SelTree},
                      mutable=True)

StrList = KList(KStr)
ParsedBindingKey = KRecord('ParsedBindingKey', {
    'scope': KStr, 'given_selector': KStr, 'complete_selector': KStr,
    'arg_name': KStr})
ParsedBindingKey.tuple_order = ['scope', 'given_selector', 'complete_selector',
                                'arg_name']
Configurable = KRecord('Configurable', {
    'wrapper': KVal, 'wrapped': KVal, 'name': KStr, 'module': KOpt(KStr),
    'import_source': KVal, 'allowlist': KOpt(StrList), 'denylist': KOpt(StrList),
    'selector': KStr, 'is_method': KBool})
Configurable.tuple_order = ['wrapper', 'wrapped', 'name', 'module',
                            'import_source', 'allowlist', 'denylist', 'selector',
                            'is_method']
Configurable.defaults = {'is_method': lambda ex: VBool(False)}

Location = KVal   # locations are opaque to everything verified here

world.STATE.clear()
world.STATE.update({
    '_CONFIG': ConfigKind,
    '_CONFIG_PROVENANCE': ConfigKind,
    '_OPERATIVE_CONFIG': ConfigKind,
    '_CONFIG_IS_LOCKED': KBool,
    '_INTERACTIVE_MODE': KBool,
    '_SINGLETONS': KDict(KStr, KVal),
    '_IMPORTS': KSet(KVal),
    '_SCOPE_MANAGER': ScopeManager,
    '_FINALIZE_HOOKS': KList(KVal),
    '_FILE_READERS': KList(KTuple(KVal, KVal)),
    '_LOCATION_PREFIXES': KList(KStr),
    '_PARSE_CONTEXTS': KList(KVal),
    '_RENAMED_SELECTORS': KDict(KStr, KStr),
    '_CONSTANTS': SelectorMap,
    '_REGISTRY': SelectorMap,
    '_INVERSE_REGISTRY': KDict(KVal, Configurable),
    # opaque token standing for everything registration-related that is not
    # modelled field by field (_INVERSE_REGISTRY, the wrappers, _ARG_SPEC_CACHE)
    'REGISTRATION': KVal,
    # ghost: how often each lock is held by the current thread
    'HELD_OPERATIVE_CONFIG_LOCK': KInt,
    'HELD_SINGLETONS_LOCK': KInt,
})

# stores that exist in gin/config.py but are only touched through functions
# that are assumed/bounded (listed so that the C20 inventory is complete)
UNMODELLED_STORES = ['_ARG_SPEC_CACHE']

world.LOCKS.clear()
world.LOCKS.update({'_OPERATIVE_CONFIG_LOCK': 'HELD_OPERATIVE_CONFIG_LOCK',
                    '_SINGLETONS_LOCK': 'HELD_SINGLETONS_LOCK'})
world.LOCK_REENTRANT.clear()
world.LOCK_REENTRANT.update({'_OPERATIVE_CONFIG_LOCK': False,
                             '_SINGLETONS_LOCK': True})

world.RECORD_CLASSES.clear()
world.RECORD_CLASSES.update({
    '_ScopeManager': ('config.py', ScopeManager),
    'SelectorMap': ('selector_map.py', SelectorMap),
    'ParsedBindingKey': ('config.py', ParsedBindingKey),
    'Configurable': ('config.py', Configurable),
})

# tiny accessors executed from their real AST at every use (no contract)
world.INLINE.clear()
world.INLINE.update({
    'config.py::current_scope',
    'config.py::current_scope_str',
    'config.py::config_is_locked',
    'config.py::_set_config_is_locked',
    'config.py::_ScopeManager._maybe_init',
    'config.py::enter_interactive_mode',
    'config.py::exit_interactive_mode',
    'config.py::_parse_context',
    'config_parser.py::ConfigParser._raise_syntax_error',
    'config_parser.py::ConfigParser._current_location',
    'config.py::_raise_unknown_configurable_error',
    'config.py::_raise_unknown_reference_error',
    'selector_map.py::SelectorMap.items',
    'selector_map.py::SelectorMap.__getitem__',
    'selector_map.py::SelectorMap.__contains__',
    'selector_map.py::SelectorMap.__len__',
    'selector_map.py::SelectorMap.get',
})

world.GLOBAL_VALUES.clear()
world.GLOBAL_VALUES.update({
    'REQUIRED': lambda ex: VObj(sym.VAL_REQUIRED),
})


# ---- spec helpers shared by the contract files --------------------------------

def key2(scope_e, sel_e):
  return Key2.mk(scope_e, sel_e)


def join_slash(lst):
  """'/'.join(lst) as the engine encodes it."""
  return world.str_join(sym.str_lit('/'), lst)


def cfg_has(cfg, key, p):
  """`p` is bound under `key` in a config-like dict of dicts."""
  inner = ParamDict.unbox(z3.Select(cfg.val, key))
  return z3.And(z3.Select(cfg.dom, key), z3.Select(inner.dom, p))


def cfg_val(cfg, key, p):
  inner = ParamDict.unbox(z3.Select(cfg.val, key))
  return z3.Select(inner.val, p)


def eff_stack(sm):
  """The scope stack a `_ScopeManager` denotes: `[[]]` before first use."""
  f = sm.fields['_active_scopes']
  init = ScopeStack.from_items([ScopeList.empty()])
  boxed = z3.If(f.is_none, ScopeStack.box(init), ScopeStack.box(f.inner))
  return ScopeStack.unbox(boxed)


def list_eq(a, b):
  """Extensional equality of two lists of the same kind."""
  return a.kind.eq(a, b)


def stack_eq(a, b):
  return list_eq(a, b)
