"""Contracts: the import-source bookkeeping of dynamic registration (C19, C06)."""
import z3

from pyvc import sym, world
from pyvc.contract import Contract, Clause, register
from pyvc.sym import (KBool, KInt, KStr, KVal, KList, KOpt, KTuple, KRecord, VObj, VBool)
from contracts.a_state import StrList

i_ = z3.Int('i!dr')
ImpA = KRecord('ImportStatement', {'module': KStr, 'is_from': KBool, 'alias': KOpt(KStr),
                                   'location': KVal}, variant='A')
ImpA.tuple_order = ['module', 'is_from', 'alias', 'location']
Src = KOpt(KTuple(ImpA, KStr))
_dot = lambda: sym.str_lit('.')

c = Contract('config.py::ParseContext._import_source', ['C19', 'C06'])
c.self_kind = KRecord('ParseContext', {'_dynamic_registration': KBool}, mutable=True)
world.RECORD_CLASSES['ParseContext'] = ('config.py', c.self_kind)
c.param('import_statement', KOpt(ImpA))
c.param('attr_names', StrList)
c.result = Src
c.local_kinds = {'module_parts': StrList}
c.require('a_name_has_at_least_one_component', lambda x: x.a.attr_names.len >= 1)


def _mp(x):
  return world.str_split(x.a.import_statement.inner.fields['module'].e, _dot())


def _plain(x):
  f = x.a.import_statement.inner.fields
  return z3.And(z3.Not(f['is_from'].e),
                z3.Not(z3.And(z3.Not(f['alias'].is_none), f['alias'].inner.truthy())))


def _lcp(x, n):
  """n is the length of the longest common prefix of the module path and the attribute
  path without its last component."""
  mp, an = _mp(x), x.a.attr_names
  lim = z3.If(mp.len < an.len - 1, mp.len, an.len - 1)
  return z3.And(0 <= n, n <= lim,
                sym.forall([i_], z3.Implies(z3.And(0 <= i_, i_ < n), mp.arr[i_] == an.arr[i_])),
                z3.Or(n == lim, mp.arr[n] != an.arr[n]))


def _plain_result(x):
  r = x.result.inner
  mp, an = _mp(x), x.a.attr_names
  if 'num_matches' in x.env:          # the function's own proof: the ghost-free witness
    n = x.env.num_matches.e
    return z3.And(
        _lcp(x, n),
        r.items[0].fields['module'].e == world.str_join(_dot(), mp.prefix(n)),
        r.items[1].e == world.str_join(_dot(), an.suffix(n)))
  n = z3.Int('n!lcp')
  return z3.Exists([n], z3.And(
      _lcp(x, n),
      r.items[0].fields['module'].e == world.str_join(_dot(), mp.prefix(n)),
      r.items[1].e == world.str_join(_dot(), an.suffix(n))))


c.ensure('no_import_statement_no_source', lambda x: x.result.is_none == x.a.import_statement.is_none)
c.ensure('plain_import_is_trimmed_to_the_longest_common_prefix', lambda x: z3.Implies(
    z3.And(z3.Not(x.a.import_statement.is_none), _plain(x)),
    z3.And(z3.Not(x.result.is_none), _plain_result(x))))
c.ensure('from_or_aliased_import_is_kept_and_the_path_drops_the_bound_name', lambda x: z3.Implies(
    z3.And(z3.Not(x.a.import_statement.is_none), z3.Not(_plain(x))),
    z3.And(z3.Not(x.result.is_none),
           ImpA.box(x.result.inner.items[0]) == ImpA.box(x.a.import_statement.inner),
           x.result.inner.items[1].e == world.str_join(_dot(), x.a.attr_names.suffix(1)))))
c.raises_only_listed = True
c.loop(('zip(module_parts, attr_names[:-1])', None), [Clause(
    'counted_components_agree', lambda x, k: z3.And(
        x.env.num_matches.e == k,
        sym.forall([i_], z3.Implies(z3.And(0 <= i_, i_ < k),
                                    _mp(x).arr[i_] == x.a.attr_names.arr[i_]))))])
register(c)


# ---- ParseContext: per-file import table (C19) ------------------------------------------------------
from pyvc.sym import KDict, VStr, VExc, PyRaise
from contracts.c_parse_loop import IMPORT_EFFECTS

PCtx = KRecord('ParseContext', {
    '_import_manager': KVal, '_imports': KList(ImpA), '_symbol_table': KDict(KStr, KVal),
    '_symbol_source': KDict(KStr, KOpt(ImpA)), '_dynamic_registration': KBool},
    mutable=True, variant='Full')
world.RECORD_CLASSES['ParseContext'] = ('config.py', PCtx)
world.INLINE.add('config.py::ParseContext._enable_dynamic_registration')

# assumed: what the abstract view needs from the string-level methods (proved in c_strings.py)
for _nm in ('bound_name', 'format'):
  c = Contract('config_parser.py::ImportStatement.' + _nm + '#abstract', ['C19'], kind='assumed')
  c.param('self', ImpA)
  c.result = KStr
  c.ensure('functional', (lambda nm: lambda x: x.result.e == sym.ufun(
      'import_' + nm, ImpA.sort(), sym.Str)(ImpA.box(x.a.self)))(_nm))
  c.raises_only_listed = True
  c.assumptions.append('abstract view of ImportStatement.' + _nm + ' (its string semantics are '
                       'proved in c_strings.py)')
  register(c)


def bound_name_of(stmt):
  return sym.ufun('import_bound_name', ImpA.sort(), sym.Str)(ImpA.box(stmt))


world.EXTERNALS['__import__'] = 'ext::__import__'
c = Contract('ext::__import__', ['C19', 'C15'], kind='assumed')
c.param('name', KStr)
c.param('fromlist', KVal, default=lambda ex: VObj(sym.VAL_NONE))
c.result = KVal
c.modifies = set(IMPORT_EFFECTS)
c.ensure('functional_in_name_and_fromlist', lambda x: x.result.e == sym.ufun(
    'imported_module', sym.Str, sym.Val, sym.Val)(x.a.name.e, x.a.fromlist.e))
c.may_raise_other = True
c.assumptions.append('__import__ returns the module object for its arguments (module code may '
                     'register configurables / constants)')
register(c)
world.GLOBAL_VALUES['__import__'] = lambda ex: sym.VPy('external', 'ext::__import__')
world.GLOBAL_VALUES['_GinBuiltins'] = lambda ex: sym.VPy('opaque', '_GinBuiltins')

c = Contract('config.py::ParseContext.process_import', ['C19', 'C15', 'C16'])
c.self_kind = PCtx
c.param('statement', ImpA)
c.modifies = set(IMPORT_EFFECTS)
c.modifies_self = ['_imports', '_symbol_table', '_symbol_source', '_dynamic_registration']
c.opaque_may_raise = False          # constructing _GinBuiltins()
c.abstract_stmts.append((lambda s: __import__('ast').unparse(s).startswith('existing_imports ='),
                         'error-message text'))
c.local_kinds = {'existing_imports': KList(KStr)}
_GINP = lambda: sym.str_lit('__gin__.')


def _f(x):
  return x.a.statement.fields


def _is_gin_feature(x):
  sw = sym.ufun('str_startswith', sym.Str, sym.Str, sym.BoolS)
  return z3.And(_f(x)['is_from'].e, sw(_f(x)['module'].e, _GINP()))


def _feature(x):
  return world.str_xsplit1('split', _f(x)['module'].e, sym.str_lit('.'))


def _has_alias(x):
  a = _f(x)['alias']
  return z3.And(z3.Not(a.is_none), a.inner.truthy())


def _self_same(x):
  return PCtx.box(x.self_new) == PCtx.box(x.self_old)


c.raise_case('bad_gin_import', 'SyntaxError', when=lambda x: z3.BoolVal(x.exc.origin == 'stmt'),
             ensures=[
    ('only_for_aliased_late_or_unknown_features', lambda x: z3.And(_is_gin_feature(x), z3.Or(
        _has_alias(x), x.self_old.fields['_imports'].len > 0,
        _feature(x).arr[1] != sym.str_lit('dynamic_registration')))),
    ('context_unchanged', _self_same)])
c.raise_case('reserved_name', 'ValueError', when=lambda x: z3.BoolVal(x.exc.origin == 'stmt'),
             ensures=[('only_for_the_name_gin_under_dynamic_registration', lambda x: z3.And(
                 x.self_old.fields['_dynamic_registration'].e,
                 bound_name_of(x.a.statement) == sym.str_lit('gin'))),
                      ('context_unchanged', _self_same)])
c.exc_ensure('a_failed_import_leaves_the_table_unchanged', _self_same)
c.ensure('enabling_is_first_unaliased_and_binds_only_gin', lambda x: z3.Implies(
    _is_gin_feature(x), z3.And(
        z3.Not(_has_alias(x)), x.self_old.fields['_imports'].len == 0,
        x.self_new.fields['_dynamic_registration'].e,
        x.self_new.fields['_symbol_table'].dom == z3.Store(
            x.self_old.fields['_symbol_table'].dom, sym.str_lit('gin'), True))))
c.ensure('a_module_import_binds_exactly_its_bound_name_in_this_context', lambda x: z3.Implies(
    z3.Not(_is_gin_feature(x)), z3.If(
        x.self_old.fields['_dynamic_registration'].e,
        z3.And(bound_name_of(x.a.statement) != sym.str_lit('gin'),
               x.self_new.fields['_symbol_table'].dom == z3.Store(
                   x.self_old.fields['_symbol_table'].dom, bound_name_of(x.a.statement), True)),
        x.self_new.fields['_symbol_table'].dom == x.self_old.fields['_symbol_table'].dom)))
c.ensure('recorded_last_in_order', lambda x: z3.And(
    x.self_new.fields['_imports'].len == x.self_old.fields['_imports'].len + 1,
    x.self_new.fields['_imports'].arr == z3.Store(
        x.self_old.fields['_imports'].arr, x.self_old.fields['_imports'].len,
        ImpA.box(x.a.statement))))
c.may_raise_other = True             # ImportError etc. from the import itself
register(c)


# ---- ParseContext._resolve_selector against the per-file symbol table (C19, C15) ---------------------
# A second view of the function (the opaque view in c_binding_api.py is what callers use): here
# `self` is the record with its `_symbol_table`, and what is proved is that a selector is resolved
# through THIS context's table only: first component looked up in the table, every further one
# by getattr on the previous object; NameError / AttributeError exactly when a link is missing;
# nothing is modified.
def has_attr(o, name):
  return sym.ufun('has_attr', sym.Val, sym.Str, sym.BoolS)(o, name)


def attr_of(o, name):
  return sym.ufun('attr_of', sym.Val, sym.Str, sym.Val)(o, name)


def _names(x):
  return world.str_split(x.a.selector.e, _dot())


def _resolve_hook(ex, name, args, kwargs, node):
  """object() is a fresh sentinel; getattr(o, name, default) with a symbolic name."""
  if name == 'object' and not args:
    nf = ex.path.fresh_const('sentinel', sym.Val)
    ex.path.ghost['sentinel'] = nf
    tbl = ex.frames[0].env['self'].fields['_symbol_table']
    s = z3.Const('s!nf', sym.Str)
    # a freshly created object is not one of the objects already stored in the table
    ex.path.assume(sym.forall([s], z3.Select(tbl.val, s) != nf, patterns=[z3.Select(tbl.val, s)]))
    return VObj(nf)
  if name == 'getattr' and len(args) == 3 and isinstance(args[1], VStr):
    o = sym.to_val(args[0])
    if ex.path.decide(has_attr(o, args[1].e)):
      v = attr_of(o, args[1].e)
      nf = ex.path.ghost.get('sentinel')
      if nf is not None:
        ex.path.assume(v != nf)       # the sentinel was created after every existing object
      return VObj(v)
    return args[2]
  return None


c = Contract('config.py::ParseContext._resolve_selector#table', ['C19', 'C15'])
c.target = 'config.py::ParseContext._resolve_selector'
c.self_kind = PCtx
c.param('selector', KStr)
c.result = KTuple(StrList, KList(KVal))
c.local_kinds = {'attr_chain': KList(KVal), 'attr_names': StrList}
c.builtin_hook = _resolve_hook
c.assumptions.append('getattr(o, n, default) is modelled by has_attr/attr_of; object() yields an '
                     'object distinct from every object reachable before the call')


def _chain_ok(x, chain, upto):
  """chain[0] is the table entry of the first component; chain[j] is the attribute named by
  component j of chain[j-1], for 1 <= j < upto."""
  names = _names(x)
  tbl = x.self_old.fields['_symbol_table']
  return z3.And(
      z3.Select(tbl.dom, names.arr[0]),
      chain.arr[0] == z3.Select(tbl.val, names.arr[0]),
      sym.forall([i_], z3.Implies(z3.And(1 <= i_, i_ < upto), z3.And(
          has_attr(chain.arr[i_ - 1], names.arr[i_]),
          chain.arr[i_] == attr_of(chain.arr[i_ - 1], names.arr[i_]))),
          patterns=[chain.arr[i_]]))


c.ensure('names_are_the_dotted_components', lambda x: z3.And(
    x.result.items[0].len == _names(x).len,
    sym.forall([i_], z3.Implies(z3.And(0 <= i_, i_ < _names(x).len),
                                x.result.items[0].arr[i_] == _names(x).arr[i_]),
               patterns=[x.result.items[0].arr[i_]])))
c.ensure('resolved_through_this_contexts_table_then_by_attribute', lambda x: z3.And(
    x.result.items[1].len == _names(x).len,
    _chain_ok(x, x.result.items[1], _names(x).len)))
c.ensure('context_unchanged', lambda x: PCtx.box(x.self_new) == PCtx.box(x.self_old))
c.raise_case('unknown_first_component', 'NameError', ensures=[
    ('only_if_the_first_component_is_not_in_this_contexts_table', lambda x: z3.Not(z3.Select(
        x.self_old.fields['_symbol_table'].dom, _names(x).arr[0]))),
    ('context_unchanged', lambda x: PCtx.box(x.self_new) == PCtx.box(x.self_old))])
c.raise_case('missing_attribute', 'AttributeError', ensures=[
    ('only_if_the_first_component_is_in_the_table', lambda x: z3.Select(
        x.self_old.fields['_symbol_table'].dom, _names(x).arr[0])),
    ('context_unchanged', lambda x: PCtx.box(x.self_new) == PCtx.box(x.self_old))])
c.raises_only_listed = True
c.loop(('attr_names[1:]', None), [Clause(
    'chain_so_far_follows_the_names', lambda x, k: z3.And(
        x.env.attr_chain.len == k + 1, _chain_ok(x, x.env.attr_chain, k + 1)))])
register(c)


# ---- ParseContext.get_configurable without dynamic registration (C11, C08) ---------------------------
# Record view, static mode only (the dynamic branch ends in `_register`, which creates
# registrations from real module objects and is not under contract): a name is known iff the
# registry resolves it, to exactly the entry the suffix rule selects; nothing is registered.
from contracts.b_selector_map import M as _M, matches as _matches
_s2 = z3.Const('s!gc', sym.Str)
_t2 = z3.Const('t!gc', sym.Str)

c = Contract('config.py::ParseContext.get_configurable#static', ['C11', 'C08'])
c.target = 'config.py::ParseContext.get_configurable'
c.self_kind = PCtx
c.param('selector', KStr)
c.result = KVal
c.require('dynamic_registration_is_off', lambda x: z3.Not(
    x.self_old.fields['_dynamic_registration'].e))
c.ensure('the_entry_of_the_unique_match_or_none', lambda x: z3.And(
    sym.forall([_s2], z3.Implies(_matches(x.old['_REGISTRY'], x.a.selector.e, _s2),
                                 x.result.e == _M(x.old['_REGISTRY']).val[_s2])),
    z3.Implies(sym.forall([_s2], z3.Not(_matches(x.old['_REGISTRY'], x.a.selector.e, _s2))),
               x.result.e == sym.VAL_NONE)))
c.raise_case('ambiguous', 'KeyError', ensures=[
    ('only_if_two_registered_names_match', lambda x: z3.Exists([_s2, _t2], z3.And(
        _s2 != _t2, _matches(x.old['_REGISTRY'], x.a.selector.e, _s2),
        _matches(x.old['_REGISTRY'], x.a.selector.e, _t2))))])
c.ensure('context_unchanged', lambda x: PCtx.box(x.self_new) == PCtx.box(x.self_old))
c.raises_only_listed = True
register(c)


# ---- ImportManager.add_import (C06, C19): dedupe by module, unique bound names -------------------------
from pyvc.sym import KSet
IM = KRecord('ImportManager', {'dynamic_registration': KBool, 'imports': KList(ImpA),
                               'module_selectors': KDict(KStr, KStr), 'names': KSet(KStr)},
             mutable=True)
world.RECORD_CLASSES['ImportManager'] = ('config.py', IM)
s_ = z3.Const('s!im', sym.Str)


def _bn(stmt_boxed):
  return sym.ufun('import_bound_name', ImpA.sort(), sym.Str)(stmt_boxed)


def im_invariant(im):
  """Representation invariant of an ImportManager: one import per module, every import's module
  has its selector recorded, the bound names of the imports are exactly `names` and pairwise
  distinct."""
  imps, ms, names = im.fields['imports'], im.fields['module_selectors'], im.fields['names']
  mod = lambda b: ImpA.unbox(b).fields['module'].e
  j_ = z3.Int('j!im')
  return z3.And(
      sym.forall([i_], z3.Implies(z3.And(0 <= i_, i_ < imps.len), z3.And(
          ms.dom[mod(imps.arr[i_])], names.dom[_bn(imps.arr[i_])])), patterns=[imps.arr[i_]]),
      sym.forall([i_, j_], z3.Implies(
          z3.And(0 <= i_, i_ < j_, j_ < imps.len),
          z3.And(mod(imps.arr[i_]) != mod(imps.arr[j_]), _bn(imps.arr[i_]) != _bn(imps.arr[j_]))),
          patterns=[[imps.arr[i_], imps.arr[j_]]]),
      sym.forall([s_], z3.Implies(ms.dom[s_], z3.Exists([i_], z3.And(
          0 <= i_, i_ < imps.len, mod(imps.arr[i_]) == s_))), patterns=[ms.dom[s_]]),
      sym.forall([s_], z3.Implies(names.dom[s_], z3.Exists([i_], z3.And(
          0 <= i_, i_ < imps.len, _bn(imps.arr[i_]) == s_))), patterns=[names.dom[s_]]))


c = Contract('config.py::ImportManager.add_import', ['C06', 'C19'])
c.self_kind = IM
c.param('statement', ImpA)
c.modifies_self = ['imports', 'module_selectors', 'names']
c.require('representation_invariant', lambda x: im_invariant(x.self_old))
c.assume_entry('an_alias_is_the_bound_name', lambda x: sym.forall(
    [s_], z3.Implies(s_ != sym.str_lit(''), _bn(ImpA.box(_with_alias(x.a.statement, s_))) == s_),
    patterns=[_bn(ImpA.box(_with_alias(x.a.statement, s_)))]),
    'string fact proved in c_strings.py (ImportStatement.bound_name): an import with a non-empty '
    'alias is bound under that alias')
c.assume_entry('bound_names_are_not_empty', lambda x: _bn(ImpA.box(x.a.statement)) != sym.str_lit(''),
               'a module path / alias is a non-empty identifier')


def _with_alias(stmt, alias):
  f = dict(stmt.fields)
  f['alias'] = sym.VOpt(KOpt(KStr), z3.BoolVal(False), VStr(alias))
  return sym.VRecord(ImpA, f)


def _im_same(x):
  return IM.box(x.self_new) == IM.box(x.self_old)


def _module(x):
  return x.a.statement.fields['module'].e


c.ensure('a_module_already_imported_is_not_imported_again', lambda x: z3.Implies(
    x.self_old.fields['module_selectors'].dom[_module(x)], _im_same(x)))
c.ensure('a_new_module_is_appended_once_under_a_name_not_taken_before', lambda x: z3.Implies(
    z3.Not(x.self_old.fields['module_selectors'].dom[_module(x)]), z3.And(
        x.self_new.fields['imports'].len == x.self_old.fields['imports'].len + 1,
        ImpA.unbox(x.self_new.fields['imports'].arr[x.self_old.fields['imports'].len]
                   ).fields['module'].e == _module(x),
        z3.Not(x.self_old.fields['names'].dom[
            _bn(x.self_new.fields['imports'].arr[x.self_old.fields['imports'].len])]),
        sym.forall([i_], z3.Implies(
            z3.And(0 <= i_, i_ < x.self_old.fields['imports'].len),
            x.self_new.fields['imports'].arr[i_] == x.self_old.fields['imports'].arr[i_]),
            patterns=[x.self_new.fields['imports'].arr[i_]]))))
c.ensure('representation_invariant_holds_after', lambda x: im_invariant(x.self_new))
c.raises_only_listed = True
register(c)
