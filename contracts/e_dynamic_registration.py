"""Contracts: the import-source bookkeeping of dynamic registration (C19, C06)."""
import z3

from pyvc import sym, world
from pyvc.contract import Contract, Clause, register
from pyvc.sym import (KBool, KInt, KStr, KVal, KList, KOpt, KTuple, KRecord, VObj, VBool)
from contracts.a_state import StrList

i_ = z3.Int('i!dr')
ImpA = KRecord('ImportStatement', {'module': KStr, 'is_from': KBool, 'alias': KOpt(KStr),
                                   'location': KVal}, variant='A')
ImpA.tuple_order = ['module', 'is_from', 'alias', 'location']
Src = KOpt(KTuple(ImpA, KStr))
_dot = lambda: sym.str_lit('.')

c = Contract('config.py::ParseContext._import_source', ['C19', 'C06'])
c.self_kind = KRecord('ParseContext', {'_dynamic_registration': KBool}, mutable=True)
world.RECORD_CLASSES['ParseContext'] = ('config.py', c.self_kind)
c.param('import_statement', KOpt(ImpA))
c.param('attr_names', StrList)
c.result = Src
c.local_kinds = {'module_parts': StrList}
c.require('a_name_has_at_least_one_component', lambda x: x.a.attr_names.len >= 1)


def _mp(x):
  return world.str_split(x.a.import_statement.inner.fields['module'].e, _dot())


def _plain(x):
  f = x.a.import_statement.inner.fields
  return z3.And(z3.Not(f['is_from'].e),
                z3.Not(z3.And(z3.Not(f['alias'].is_none), f['alias'].inner.truthy())))


def _lcp(x, n):
  """n is the length of the longest common prefix of the module path and the attribute
  path without its last component."""
  mp, an = _mp(x), x.a.attr_names
  lim = z3.If(mp.len < an.len - 1, mp.len, an.len - 1)
  return z3.And(0 <= n, n <= lim,
                sym.forall([i_], z3.Implies(z3.And(0 <= i_, i_ < n), mp.arr[i_] == an.arr[i_])),
                z3.Or(n == lim, mp.arr[n] != an.arr[n]))


def _plain_result(x):
  r = x.result.inner
  mp, an = _mp(x), x.a.attr_names
  if 'num_matches' in x.env:          # the function's own proof: the ghost-free witness
    n = x.env.num_matches.e
    return z3.And(
        _lcp(x, n),
        r.items[0].fields['module'].e == world.str_join(_dot(), mp.prefix(n)),
        r.items[1].e == world.str_join(_dot(), an.suffix(n)))
  n = z3.Int('n!lcp')
  return z3.Exists([n], z3.And(
      _lcp(x, n),
      r.items[0].fields['module'].e == world.str_join(_dot(), mp.prefix(n)),
      r.items[1].e == world.str_join(_dot(), an.suffix(n))))


c.ensure('no_import_statement_no_source', lambda x: x.result.is_none == x.a.import_statement.is_none)
c.ensure('plain_import_is_trimmed_to_the_longest_common_prefix', lambda x: z3.Implies(
    z3.And(z3.Not(x.a.import_statement.is_none), _plain(x)),
    z3.And(z3.Not(x.result.is_none), _plain_result(x))))
c.ensure('from_or_aliased_import_is_kept_and_the_path_drops_the_bound_name', lambda x: z3.Implies(
    z3.And(z3.Not(x.a.import_statement.is_none), z3.Not(_plain(x))),
    z3.And(z3.Not(x.result.is_none),
           ImpA.box(x.result.inner.items[0]) == ImpA.box(x.a.import_statement.inner),
           x.result.inner.items[1].e == world.str_join(_dot(), x.a.attr_names.suffix(1)))))
c.raises_only_listed = True
c.loop(('zip(module_parts, attr_names[:-1])', None), [Clause(
    'counted_components_agree', lambda x, k: z3.And(
        x.env.num_matches.e == k,
        sym.forall([i_], z3.Implies(z3.And(0 <= i_, i_ < k),
                                    _mp(x).arr[i_] == x.a.attr_names.arr[i_]))))])
register(c)
