"""Contracts: lock state machine, finalize, clear_config, singletons (C12, C20, C18, C13)."""
import z3

from pyvc import sym, world
from pyvc.contract import Contract, Clause, register
from pyvc.sym import KBool, KInt, KStr, KVal, KList, KOpt, VObj, VBool
from contracts.a_state import SelectorMap, StrValDict
from contracts.b_selector_map import M, keys_valid, valid

s_ = z3.Const('s!cs', sym.Str)
k_ = z3.Const('k!cs', sym.Str)


def locked(ns):
  return ns['_CONFIG_IS_LOCKED'].e


def dict_same(a, b):
  return z3.And(a.dom == b.dom, a.val == b.val)


ALL_FIELDS = set(world.STATE)

# ---------------------------------------------------------------------------
# unlock_config: restores the lock state on every exit path
c = Contract('config.py::unlock_config', ['C12'])
c.is_cm = True
c.modifies = {'_CONFIG_IS_LOCKED'}
c.cm_enter.append(Clause('unlocked_inside', lambda x: z3.Not(locked(x.mid))))
c.cm_body_havoc = set(ALL_FIELDS)      # the body may do anything at all
c.cm_exit.append(Clause('lock_restored_on_normal_exit',
                        lambda x: locked(x.new) == locked(x.old)))
c.cm_exit_exc.append(Clause('lock_restored_when_body_raises',
                            lambda x: locked(x.new) == locked(x.old)))
c.raises_only_listed = True            # entering never raises
c.canary('MUSTFAIL_always_unlocked_after', lambda x: z3.Not(locked(x.new)))
register(c)

# interactive_mode: the flag is on inside the block and off after it, on every path
c = Contract('config.py::interactive_mode', ['C13', 'C20'])
c.is_cm = True
c.modifies = {'_INTERACTIVE_MODE'}
c.cm_enter.append(Clause('on_inside', lambda x: x.mid['_INTERACTIVE_MODE'].e))
c.cm_body_havoc = set(ALL_FIELDS)
_off = lambda x: z3.Not(x.new['_INTERACTIVE_MODE'].e)
c.cm_exit.append(Clause('off_after_normal_exit', _off))
c.cm_exit_exc.append(Clause('off_after_body_raises', _off))
c.exc_ensure('off_if_entry_fails', _off)
register(c)

# ---------------------------------------------------------------------------
# singleton_value
c = Contract('config.py::singleton_value', ['C18'])
c.param('key', KStr)
c.param('constructor', KVal, default=lambda ex: VObj(sym.VAL_NONE))
c.result = KVal
c.modifies = set(ALL_FIELDS) - {'HELD_SINGLETONS_LOCK', 'HELD_OPERATIVE_CONFIG_LOCK'}
c.opaque_pure = False
# the constructor is arbitrary user code: it may change any gin state, but it
# is not this thread re-entering singleton_value for the SAME key (stated
# assumption: a constructor does not recursively request the singleton it builds)
c.opaque_havoc = set(ALL_FIELDS) - {'HELD_SINGLETONS_LOCK',
                                    'HELD_OPERATIVE_CONFIG_LOCK', '_SINGLETONS'}
c.guarded = {'_SINGLETONS': 'HELD_SINGLETONS_LOCK'}
c.assumptions.append('a singleton constructor does not itself touch _SINGLETONS '
                     '(no recursive request for the singleton being built)')


def _calls(x):
  return [e for e in x.trace if 'fn' in e]   # opaque (constructor) calls only


def _cached(x):
  return x.old['_SINGLETONS'].dom[x.a.key.e]


c.ensure('cached_returns_cached_object', lambda x: z3.Implies(
    _cached(x), x.result.e == x.old['_SINGLETONS'].val[x.a.key.e]))
c.ensure('result_is_what_is_stored', lambda x: z3.And(
    x.new['_SINGLETONS'].dom[x.a.key.e],
    x.result.e == x.new['_SINGLETONS'].val[x.a.key.e]))
c.ensure('constructor_called_at_most_once_and_only_if_absent', lambda x: z3.And(
    z3.BoolVal(len(_calls(x)) <= 1),
    z3.Implies(_cached(x), z3.BoolVal(len(_calls(x)) == 0))))
c.ensure('other_keys_untouched', lambda x: sym.forall([k_], z3.Implies(
    k_ != x.a.key.e, z3.And(
        x.new['_SINGLETONS'].dom[k_] == x.old['_SINGLETONS'].dom[k_],
        x.new['_SINGLETONS'].val[k_] == x.old['_SINGLETONS'].val[k_]))))
c.ensure('lock_released', lambda x: x.new['HELD_SINGLETONS_LOCK'].e ==
         x.old['HELD_SINGLETONS_LOCK'].e)
c.exc_ensure('cache_unchanged_on_failure', lambda x: dict_same(
    x.new['_SINGLETONS'], x.old['_SINGLETONS']))
c.exc_ensure('lock_released_on_failure', lambda x: x.new['HELD_SINGLETONS_LOCK'].e ==
             x.old['HELD_SINGLETONS_LOCK'].e)
c.raise_case('no_constructor', 'ValueError', ensures=[
    ('only_when_absent', lambda x: z3.Not(_cached(x)))])
c.may_raise_other = True
c.canary('MUSTFAIL_always_constructs', lambda x: z3.BoolVal(len(_calls(x)) == 1))
register(c)

# ---------------------------------------------------------------------------
# clear_config
c = Contract('config.py::clear_config', ['C20', 'C12', 'C18'])
c.param('clear_constants', KBool, default=lambda ex: VBool(False))
c.modifies = {'_CONFIG_IS_LOCKED', '_CONFIG', '_CONFIG_PROVENANCE', '_SINGLETONS',
              '_CONSTANTS', '_IMPORTS', '_OPERATIVE_CONFIG'}
c.local_kinds = {'saved_constants': SelectorMap}
c.require('constants_keys_valid', lambda x: keys_valid(x.old['_CONSTANTS']))
c.require('operative_lock_not_held_by_caller',
          lambda x: x.old['HELD_OPERATIVE_CONFIG_LOCK'].e == 0)
c.guarded = {'_OPERATIVE_CONFIG': 'HELD_OPERATIVE_CONFIG_LOCK'}
c.raises_only_listed = True           # total: raises nothing
_REQ = sym.str_lit('gin.REQUIRED')


def _empty(d):
  kk = z3.Const('k!e', d.kind.key.sort())
  return sym.forall([kk], z3.Not(d.dom[kk]))


c.ensure('unlocked', lambda x: z3.Not(locked(x.new)))
c.ensure('no_bindings', lambda x: z3.And(_empty(x.new['_CONFIG']),
                                         _empty(x.new['_CONFIG_PROVENANCE'])))
c.ensure('no_operative_record', lambda x: _empty(x.new['_OPERATIVE_CONFIG']))
c.ensure('no_singletons', lambda x: _empty(x.new['_SINGLETONS']))
c.ensure('no_imports', lambda x: _empty(x.new['_IMPORTS']))
c.ensure('constants_survive_by_default', lambda x: z3.Implies(
    z3.Not(x.a.clear_constants.e), sym.forall([s_], z3.And(
        M(x.new['_CONSTANTS']).dom[s_] == M(x.old['_CONSTANTS']).dom[s_],
        z3.Implies(M(x.old['_CONSTANTS']).dom[s_],
                   M(x.new['_CONSTANTS']).val[s_] == M(x.old['_CONSTANTS']).val[s_])))))
c.ensure('only_REQUIRED_remains_when_clearing_constants', lambda x: z3.Implies(
    x.a.clear_constants.e, z3.And(
        sym.forall([s_], M(x.new['_CONSTANTS']).dom[s_] == (s_ == _REQ)),
        M(x.new['_CONSTANTS']).val[_REQ] == sym.VAL_REQUIRED)))
c.ensure('constants_keys_still_valid', lambda x: keys_valid(x.new['_CONSTANTS']))
c.canary('MUSTFAIL_constants_always_cleared', lambda x: sym.forall(
    [s_], M(x.new['_CONSTANTS']).dom[s_] == (s_ == _REQ)))


def _restore_inv(x, k):
  it = x.it
  cur = M(x.env['_CONSTANTS'] if '_CONSTANTS' in x.env else x.new['_CONSTANTS'])
  saved = M(x.env.saved_constants)
  return z3.And(
      sym.forall([s_], z3.And(
          cur.dom[s_] == z3.And(saved.dom[s_], it.idx(s_) < k),
          z3.Implies(cur.dom[s_], cur.val[s_] == saved.val[s_])),
          patterns=[cur.dom[s_], it.idx(s_)]),
      keys_valid(x.env.saved_constants))


c.loop(0, [Clause('restored_prefix_of_saved_constants', _restore_inv)],
       havoc=['_CONSTANTS'])
c.assumptions.append("'gin.REQUIRED' matches SELECTOR_RE (checked natively at setup)")
c.require('REQUIRED_name_is_valid', lambda x: valid(_REQ))
register(c)

# ---------------------------------------------------------------------------
# small registration helpers
c = Contract('config.py::add_config_file_search_path', ['C14'])
c.param('location_prefix', KStr)
c.modifies = {'_LOCATION_PREFIXES'}
c.ensure('appended_last', lambda x: z3.And(
    x.new['_LOCATION_PREFIXES'].len == x.old['_LOCATION_PREFIXES'].len + 1,
    x.new['_LOCATION_PREFIXES'].arr == z3.Store(
        x.old['_LOCATION_PREFIXES'].arr, x.old['_LOCATION_PREFIXES'].len,
        x.a.location_prefix.e)))
c.raises_only_listed = True
register(c)

c = Contract('config.py::register_finalize_hook', ['C12'])
c.param('fn', KVal)
c.result = KVal
c.modifies = {'_FINALIZE_HOOKS'}
c.ensure('appended_last_and_returned', lambda x: z3.And(
    x.result.e == x.a.fn.e,
    x.new['_FINALIZE_HOOKS'].len == x.old['_FINALIZE_HOOKS'].len + 1,
    x.new['_FINALIZE_HOOKS'].arr == z3.Store(
        x.old['_FINALIZE_HOOKS'].arr, x.old['_FINALIZE_HOOKS'].len, x.a.fn.e)))
c.raises_only_listed = True
register(c)
