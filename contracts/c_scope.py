"""Contracts: the scope manager and config_scope (C09, C01)."""
import z3

from pyvc import sym, world
from pyvc.contract import Contract, register
from pyvc.sym import KBool, KInt, KStr, KVal, KList, KOpt, VObj, VStr
from contracts.a_state import (ScopeManager, ScopeList, ScopeStack, eff_stack,
                               stack_eq, list_eq)


def _i(name='i!c'):
  return z3.Int(name)


def pushed(old, new, scope):
  """new == old ++ [scope] (extensionally)."""
  i = _i()
  return z3.And(
      new.len == old.len + 1,
      z3.ForAll([i], z3.Implies(z3.And(0 <= i, i < old.len),
                                new.arr[i] == old.arr[i])),
      new.arr[old.len] == ScopeList.box(scope))


# -- _ScopeManager --------------------------------------------------------------

c = Contract('config.py::_ScopeManager.enter_scope', ['C09', 'C01'])
c.self_kind = ScopeManager
c.param('scope', ScopeList)
c.modifies_self = ['_active_scopes']
c.ensure('pushes_exactly_scope',
         lambda x: pushed(eff_stack(x.self_old), eff_stack(x.self_new), x.a.scope))
c.raises_only_listed = True       # never raises
register(c)

c = Contract('config.py::_ScopeManager.exit_scope', ['C09', 'C01'])
c.self_kind = ScopeManager
c.modifies_self = ['_active_scopes']
c.require('stack_non_empty', lambda x: eff_stack(x.self_old).len >= 1)
c.ensure('pops_exactly_top', lambda x: z3.And(
    eff_stack(x.self_new).len == eff_stack(x.self_old).len - 1,
    stack_eq(eff_stack(x.self_new),
             eff_stack(x.self_old).prefix(eff_stack(x.self_old).len - 1))))
c.raises_only_listed = True
register(c)

c = Contract('config.py::_ScopeManager.current_scope', ['C09', 'C01'])
c.self_kind = ScopeManager
c.result = ScopeList
c.modifies_self = ['_active_scopes']   # first use initialises the attribute
c.require('stack_non_empty', lambda x: eff_stack(x.self_old).len >= 1)
c.ensure('returns_top', lambda x: ScopeList.box(x.result) == z3.Select(
    eff_stack(x.self_old).arr, eff_stack(x.self_old).len - 1))
c.ensure('stack_unchanged',
         lambda x: stack_eq(eff_stack(x.self_new), eff_stack(x.self_old)))
c.raises_only_listed = True
register(c)


# -- config_scope ---------------------------------------------------------------

def _sm(ns):
  return ns['_SCOPE_MANAGER']


def _top(stack):
  return ScopeList.unbox(z3.Select(stack.arr, stack.len - 1))


def _is_list(v):
  sym.val_axioms()
  return sym.tag_of(v.e) == sym.TAG['list']


def _is_str(v):
  sym.val_axioms()
  return sym.tag_of(v.e) == sym.TAG['str']


def _clears(v):
  """`name_or_scope in (None, '')` exactly as Python evaluates it."""
  sym.val_axioms()
  veq = sym.ufun('val_eq', sym.Val, sym.Val, sym.BoolS)
  return z3.Or(v.e == sym.VAL_NONE, veq(v.e, sym.val_of_str(sym.str_lit(''))))


def _as_list(v):
  return sym.coerce(v, ScopeList)


def _split(v):
  return world.str_split(sym.val_as_str(v.e), sym.str_lit('/'))


def entered_scope(x):
  """The scope config_scope must make active, by the three entry rules."""
  v = x.a.name_or_scope
  old = eff_stack(_sm(x.old))
  new_scope = x.result
  top = _top(old)
  parts = _split(v)
  i = _i()
  appended = z3.And(
      new_scope.len == top.len + parts.len,
      z3.ForAll([i], z3.Implies(z3.And(0 <= i, i < top.len),
                                new_scope.arr[i] == top.arr[i])),
      z3.ForAll([i], z3.Implies(z3.And(0 <= i, i < parts.len),
                                new_scope.arr[top.len + i] == parts.arr[i])))
  return z3.And(
      z3.Implies(_is_list(v), ScopeList.box(new_scope) == ScopeList.box(_as_list(v))),
      z3.Implies(z3.And(z3.Not(_is_list(v)), _is_str(v), sym.val_truthy(v.e)),
                 appended),
      z3.Implies(z3.And(z3.Not(_is_list(v)),
                        z3.Not(z3.And(_is_str(v), sym.val_truthy(v.e)))),
                 new_scope.len == 0))


c = Contract('config.py::config_scope', ['C09', 'C01'])
c.is_cm = True
c.param('name_or_scope', KVal)
c.cm_yields = ScopeList
c.val_ops_may_raise = True      # bool(x), x == '', re.match(x) on arbitrary objects
c.modifies = {'_SCOPE_MANAGER'}
c.local_kinds = {'new_scope': ScopeList}
c.require('stack_non_empty', lambda x: eff_stack(_sm(x.old)).len >= 1)
# at the yield: exactly one scope was pushed, and it is the one the rules give
c.cm_enter = []
from pyvc.contract import Clause
c.cm_enter.append(Clause('pushed_one', lambda x: pushed(
    eff_stack(_sm(x.old)), eff_stack(_sm(x.mid)), x.result)))
c.cm_enter.append(Clause('entry_rules', entered_scope))
c.cm_enter.append(Clause('valid_value_only', lambda x: z3.Or(
    _is_list(x.a.name_or_scope),
    z3.And(_is_str(x.a.name_or_scope), sym.val_truthy(x.a.name_or_scope.e)),
    _clears(x.a.name_or_scope))))
# the with-body may use scopes itself, but in a balanced way (nesting lemma)
c.cm_body_havoc = {'_SCOPE_MANAGER'}
c.cm_body_assume.append(Clause('body_is_stack_neutral', lambda x: stack_eq(
    eff_stack(_sm(x.new)), eff_stack(_sm(x.mid)))))
# every exit path restores the stack that was active before the `with`
_restored = lambda x: stack_eq(eff_stack(_sm(x.new)), eff_stack(_sm(x.old)))
c.cm_exit.append(Clause('stack_restored_on_normal_exit', _restored))
c.cm_exit_exc.append(Clause('stack_restored_when_body_raises', _restored))
c.exc_ensure('stack_restored_when_entry_fails', _restored)
c.canary('MUSTFAIL_stack_grew', lambda x: eff_stack(_sm(x.new)).len ==
         eff_stack(_sm(x.old)).len + 1)
c.assumptions.append('elements of a list passed to config_scope are strings')
register(c)
