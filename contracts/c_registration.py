"""Contracts: registration-time validation and small helpers (C13, C10, C06, C14)."""
import z3

from pyvc import sym, world
from pyvc.contract import Contract, Clause, register
from pyvc.sym import (KBool, KInt, KStr, KVal, KList, KDict, KSet, KOpt, KTuple, VObj, VBool,
                      VStr)
from contracts.a_state import SelectorMap, ParamDict, StrList, Configurable
from contracts.b_selector_map import M, same_map, valid
from contracts.c_binding_api import REG_FIELDS, mhp
from contracts.c_config_state import locked, dict_same, ALL_FIELDS
from contracts.c_signature import argspec, FullArgSpec, ValList
from contracts.c_files import PARSE_MODIFIES

s_ = z3.Const('s!rg', sym.Str)
i_ = z3.Int('i!rg')
t_ = z3.Int('t!rg')
REQ = sym.VAL_REQUIRED

# ---- _uniquify_name -----------------------------------------------------------------------
c = Contract('config.py::_uniquify_name', ['C06', 'C19'])
c.param('candidate_name', KStr)
c.param('existing_names', KSet(KStr))
c.result = KStr
c.ensure('result_is_not_taken', lambda x: z3.Not(x.a.existing_names.dom[x.result.e]))
c.ensure('candidate_kept_when_free', lambda x: z3.Implies(
    z3.Not(x.a.existing_names.dom[x.a.candidate_name.e]),
    x.result.e == x.a.candidate_name.e))
_a, _b = z3.Const('a!cat', sym.Str), z3.Const('b!cat', sym.Str)
c.assume_entry('a_concatenation_is_empty_only_if_both_parts_are', lambda x: sym.forall(
    [_a, _b], z3.Implies(world.str_cat([_a, _b]) == sym.str_lit(''), _a == sym.str_lit('')),
    patterns=[world._cat2(_a, _b)]), 'string fact')
c.ensure('not_empty_unless_the_candidate_is', lambda x: z3.Implies(
    x.a.candidate_name.e != sym.str_lit(''), x.result.e != sym.str_lit('')))
c.raises_only_listed = True
c.loop(('unique_name in existing_names', None), [Clause(
    'candidate_until_found_taken', lambda x, k: z3.And(
        z3.Implies(x.a.candidate_name.e != sym.str_lit(''),
                   x.env.unique_name.e != sym.str_lit('')),
        x.env.i.e >= 2,
        z3.Implies(x.env.i.e == 2, x.env.unique_name.e == x.a.candidate_name.e),
        z3.Implies(x.env.i.e > 2, x.a.existing_names.dom[x.a.candidate_name.e])))])
c.notes.append('termination (some candidate+str(i) is eventually free) is not proved')
register(c)

# ---- _get_kwarg_defaults / _get_validated_required_kwargs ---------------------------------------


def default_of(fn, name):
  """The default value the signature of fn gives parameter `name` (as a partial map):
  positional defaults align with the END of args; kw-only defaults override."""
  sp = argspec(fn)
  args, dfl = sp.fields['args'], sp.fields['defaults']
  kwd = sp.fields['kwonlydefaults']
  has_kw = z3.And(z3.Not(kwd.is_none), kwd.inner.dom[name])
  nd = z3.If(dfl.is_none, 0, dfl.inner.len)
  pos_has = z3.Exists([i_], z3.And(args.len - nd <= i_, i_ < args.len, 0 <= i_,
                                   args.arr[i_] == name))
  return has_kw, pos_has


c = Contract('config.py::_get_kwarg_defaults', ['C10', 'C07'], kind='assumed')
c.param('fn', KVal)
c.result = ParamDict
c.ensure('functional', lambda x: ParamDict.box(x.result) == sym.ufun(
    'kwarg_defaults', sym.Val, ParamDict.sort())(x.a.fn.e))
c.raises_only_listed = True
c.assumptions.append('_get_kwarg_defaults(fn) is the map parameter -> signature default '
                     '(dict(zip(...)) over argspec; bounded: bC10/bC07)')
register(c)


def KWD(fn):
  return ParamDict.unbox(sym.ufun('kwarg_defaults', sym.Val, ParamDict.sort())(fn))


def _in(opt, a):
  return z3.Exists([t_], z3.And(0 <= t_, t_ < opt.inner.len, opt.inner.arr[t_] == a))


def _truthy(opt):
  return z3.And(z3.Not(opt.is_none), opt.inner.len > 0)


def _bad_required(x, s):
  d = KWD(x.a.fn.e)
  return z3.And(d.dom[s], d.val[s] == REQ, z3.Or(
      z3.And(_truthy(x.a.denylist), _in(x.a.denylist, s)),
      z3.And(_truthy(x.a.allowlist), z3.Not(_in(x.a.allowlist, s)))))


c = Contract('config.py::_get_validated_required_kwargs', ['C10'])
c.param('fn', KVal)
c.param('fn_descriptor', KStr)
c.param('allowlist', KOpt(StrList))
c.param('denylist', KOpt(StrList))
c.result = StrList
c.local_kinds = {'required_kwargs': StrList}
c.raise_case('required_but_not_configurable', 'ValueError', ensures=[
    ('some_REQUIRED_default_is_denylisted_or_not_allowlisted',
     lambda x: z3.Exists([s_], _bad_required(x, s_)))])
c.ensure('accepted_only_if_every_REQUIRED_default_is_configurable', lambda x: sym.forall(
    [s_], z3.Not(_bad_required(x, s_))))
c.ensure('returns_only_REQUIRED_defaulted_names', lambda x: sym.forall(
    [t_], z3.Implies(z3.And(0 <= t_, t_ < x.result.len), z3.And(
        KWD(x.a.fn.e).dom[x.result.arr[t_]],
        KWD(x.a.fn.e).val[x.result.arr[t_]] == REQ)), patterns=[x.result.arr[t_]]))
c.raises_only_listed = True


def _inv_req(x, k):
  it = x.it
  rk = x.env.required_kwargs
  d = KWD(x.a.fn.e)
  return z3.And(
      rk.len >= 0,
      sym.forall([t_], z3.Implies(z3.And(0 <= t_, t_ < rk.len), z3.And(
          d.dom[rk.arr[t_]], d.val[rk.arr[t_]] == REQ)), patterns=[rk.arr[t_]]),
      sym.forall([s_], z3.Implies(z3.And(d.dom[s_], it.idx(s_) < k),
                                  z3.Not(_bad_required(x, s_))), patterns=[it.idx(s_)]))


c.loop(('kwarg_defaults.items()', None), [Clause('processed_defaults_are_acceptable', _inv_req)])
register(c)

# ---- _validate_parameters -------------------------------------------------------------------
c = Contract('config.py::_validate_parameters', ['C13', 'C11'])
c.param('fn_or_cls', KVal)
c.param('arg_name_list', KOpt(StrList))
c.param('err_prefix', KStr)
_all_ok = lambda x: z3.Or(x.a.arg_name_list.is_none, sym.forall([t_], z3.Implies(
    z3.And(0 <= t_, t_ < x.a.arg_name_list.inner.len),
    mhp(x.a.fn_or_cls.e, x.a.arg_name_list.inner.arr[t_]))))
c.raise_case('unknown_name_in_list', 'ValueError', ensures=[
    ('some_listed_name_is_not_a_parameter', lambda x: z3.Not(_all_ok(x)))])
c.ensure('every_listed_name_is_a_parameter', _all_ok)
c.raises_only_listed = True
c.loop(('arg_name_list or []', None), [Clause('processed_names_are_parameters', lambda x, k: z3.Or(
    x.a.arg_name_list.is_none, sym.forall([t_], z3.Implies(
        z3.And(0 <= t_, t_ < k), mhp(x.a.fn_or_cls.e, x.a.arg_name_list.inner.arr[t_])))))])
register(c)

# ---- _decorate_fn_or_cls: assumed (dynamic class construction) ---------------------------------
c = Contract('config.py::_decorate_fn_or_cls', ['C13'], kind='assumed')
c.param('decorator', None)
c.param('fn_or_cls', KVal)
c.param('selector', KStr)
c.param('avoid_class_mutation', KBool, default=lambda ex: VBool(False))
c.param('decorate_methods', KBool, default=lambda ex: VBool(False))
c.result = KVal
c.modifies = set(REG_FIELDS)
c.may_raise_other = True
c.assumptions.append('_decorate_fn_or_cls (dynamic subclass / metaclass creation, method '
                     'renaming) touches registration state only  [bounded: bC13]')
register(c)

# ---- _make_configurable: every rejection precedes the first registry write --------------------
c = Contract('config.py::_make_configurable', ['C13', 'C12'])
c.param('fn_or_cls', KVal)
c.param('name', KOpt(KStr), default=lambda ex: sym.NONE)
c.param('module', KOpt(KStr), default=lambda ex: sym.NONE)
c.param('allowlist', KOpt(StrList), default=lambda ex: sym.NONE)
c.param('denylist', KOpt(StrList), default=lambda ex: sym.NONE)
c.param('avoid_class_mutation', KBool, default=lambda ex: VBool(False))
c.param('import_source', KVal, default=lambda ex: VObj(sym.VAL_NONE))
c.result = KVal
c.modifies = set(REG_FIELDS)
c.local_kinds = {'name': KStr, 'module': KOpt(KStr), 'default_module': KOpt(KStr)}
c.assumptions.append('allow/deny lists are given as lists or tuples of strings or None '
                     '(the TypeError branch for other types is not modelled)')


def _reg_same(x):
  return z3.And(same_map(x.new['_REGISTRY'], x.old['_REGISTRY']),
                dict_same(x.new['_RENAMED_SELECTORS'], x.old['_RENAMED_SELECTORS']),
                dict_same(x.new['_INVERSE_REGISTRY'], x.old['_INVERSE_REGISTRY']),
                x.new['REGISTRATION'].e == x.old['REGISTRATION'].e)


c.raise_case('locked', 'RuntimeError', when=lambda x: locked(x.old),
             ensures=[('nothing_registered', _reg_same)])
c.raise_case('rejected_before_any_write', 'ValueError',
             when=lambda x: z3.BoolVal(x.exc.origin == 'stmt'),
             ensures=[('nothing_registered', _reg_same)])
c.raise_case('bad_list_type', 'TypeError',
             when=lambda x: z3.BoolVal(x.exc.origin == 'stmt'),
             ensures=[('nothing_registered', _reg_same)])
c.ensure('only_when_unlocked', lambda x: z3.Not(locked(x.old)))
c.ensure('not_both_lists', lambda x: z3.Not(z3.And(_truthy(x.a.allowlist),
                                                   _truthy(x.a.denylist))))
# from the property text (C13): "Invalid names or modules ... are rejected without registering
# anything" -- so whatever IS accepted carries a valid name / module, and it is the name GIVEN
c.ensure('a_given_name_is_accepted_only_if_valid', lambda x: z3.Implies(
    z3.Not(x.a.name.is_none),
    z3.Or(world.re_match('IDENTIFIER_RE', x.a.name.inner.e),
          world.re_match('MODULE_RE', x.a.name.inner.e))))
c.ensure('a_given_module_is_accepted_only_if_valid', lambda x: z3.Implies(
    z3.Not(x.a.module.is_none), world.re_match('MODULE_RE', x.a.module.inner.e)))


def _registered_entry(x):
  """The registry entry written for this registration (witness: the local `selector`)."""
  sel = x.env.selector.e
  m = M(x.new['_REGISTRY'])
  cfg = sym.coerce(VObj(m.val[sel]), Configurable)
  return sel, m, cfg


def _reg_post(x):
  sel, m, cfg = _registered_entry(x)
  return z3.And(
      m.dom[sel],
      cfg.fields['selector'].e == sel,
      cfg.fields['wrapped'].e == x.a.fn_or_cls.e,          # the ORIGINAL object
      cfg.fields['wrapper'].e == x.result.e,               # what the caller gets back
      z3.Implies(z3.Not(x.a.name.is_none), cfg.fields['name'].e == x.a.name.inner.e),
      z3.Implies(z3.Not(x.a.module.is_none), z3.And(
          z3.Not(cfg.fields['module'].is_none),
          cfg.fields['module'].inner.e == x.a.module.inner.e)),
      cfg.fields['allowlist'].kind.box(cfg.fields['allowlist']) ==
      x.a.allowlist.kind.box(x.a.allowlist),
      cfg.fields['denylist'].kind.box(cfg.fields['denylist']) ==
      x.a.denylist.kind.box(x.a.denylist),
      # the full name is the module (when there is one) and the name, dotted
      sel == z3.If(z3.And(z3.Not(cfg.fields['module'].is_none),
                          cfg.fields['module'].inner.e != sym.str_lit('')),
                   world.str_cat([cfg.fields['module'].inner.e, sym.str_lit('.'),
                                  cfg.fields['name'].e]),
                   cfg.fields['name'].e))


c.ensure('registers_the_original_under_the_given_name_module_and_lists', _reg_post)
_lists_ok = lambda x, lst: z3.Or(lst.is_none, sym.forall([t_], z3.Implies(
    z3.And(0 <= t_, t_ < lst.inner.len), mhp(x.a.fn_or_cls.e, lst.inner.arr[t_]))))
c.ensure('every_allow_or_deny_listed_name_is_a_parameter_of_the_original', lambda x: z3.And(
    _lists_ok(x, x.a.allowlist), _lists_ok(x, x.a.denylist)))
c.exc_ensure('an_unknown_listed_name_is_rejected_before_anything_is_registered',
             lambda x: z3.Implies(z3.BoolVal(
                 getattr(x.exc, 'raised_by', None) == 'config.py::_validate_parameters'),
                 _reg_same(x)))
# (that no OTHER name changes is not a postcondition here: registering a class also registers its
# configurable methods, inside the assumed _decorate_fn_or_cls)
c.ensure('an_existing_name_is_replaced_only_by_the_same_object_or_interactively', lambda x: z3.Or(
    z3.Not(M(x.old['_REGISTRY']).dom[x.env.selector.e]),
    x.old['_INTERACTIVE_MODE'].e,
    sym.ufun('attr_wrapped', sym.Val, sym.Val)(M(x.old['_REGISTRY']).val[x.env.selector.e]) ==
    x.a.fn_or_cls.e))
c.may_raise_other = True


def _setup(ex, ctx):
  fr = ex.frames[0]
  # `decorator` is a nested def handed to _decorate_fn_or_cls (assumed)


register(c)

# ---- parse_config_files_and_bindings: order of effects ------------------------------------------
c = Contract('config.py::parse_config_files_and_bindings', ['C14'])
c.param('config_files', KOpt(StrList))
c.param('bindings', KVal)
c.param('finalize_config', KBool, default=lambda ex: VBool(True))
c.param('skip_unknown', KVal, default=lambda ex: VObj(sym.val_of_bool(z3.BoolVal(False))))
c.param('print_includes_and_imports', KBool, default=lambda ex: VBool(False))
c.result = KList(sym.KVal)
c.modifies = set(PARSE_MODIFIES) | {'_PARSE_CONTEXTS', '_CONFIG_IS_LOCKED'}
c.require('a_parse_context_exists', lambda x: x.old['_PARSE_CONTEXTS'].len >= 1)
c.may_raise_other = True
c.abstract_stmts.append((
    lambda s: isinstance(s, __import__('ast').If) and
    __import__('ast').unparse(s.test) == 'print_includes_and_imports',
    'logging of the include tree'))


def _order(x):
  calls = [e.get('call') for e in x.trace if e.get('call') in (
      'config.py::parse_config_file', 'config.py::parse_config', 'config.py::finalize')]
  return calls


c.ensure('bindings_parsed_after_all_files_then_finalize_iff_asked', lambda x: z3.And(
    z3.BoolVal('config.py::parse_config' in _order(x)),
    z3.BoolVal(_order(x)[-1] in ('config.py::parse_config', 'config.py::finalize')),
    x.a.finalize_config.e == z3.BoolVal(_order(x)[-1] == 'config.py::finalize'),
    z3.BoolVal(_order(x).count('config.py::parse_config') == 1 and
               _order(x).count('config.py::finalize') <= 1)))
c.ensure('skip_unknown_passed_through_unchanged', lambda x: z3.And(*[
    e['args']['skip_unknown'].e == x.a.skip_unknown.e for e in x.trace
    if e.get('call') in ('config.py::parse_config', 'config.py::parse_config_file')]))
c.local_kinds = {'nested_includes_and_imports': KList(KVal), 'config_files': StrList}
_ctxs_ok = lambda x: z3.And(x.new['_PARSE_CONTEXTS'].len >= 1)
c.loop(('config_files', None), [Clause('files_parsed_in_order_before_anything_else', lambda x, k: z3.And(
    x.new['_PARSE_CONTEXTS'].kind.eq(x.new['_PARSE_CONTEXTS'], x.old['_PARSE_CONTEXTS']),
    z3.BoolVal('config.py::parse_config' not in _order(x) and
               'config.py::finalize' not in _order(x))))])
register(c)


# ---- which defaults are recorded as operative (C07) ----------------------------------------------
def representable(v):
  return sym.ufun('literally_representable', sym.Val, sym.BoolS)(v)


c = Contract('config.py::_is_literally_representable', ['C06', 'C07'], kind='assumed')
c.param('value', KVal)
c.result = KBool
c.ensure('functional', lambda x: x.result.e == representable(x.a.value.e))
c.raises_only_listed = True
c.assumptions.append('_is_literally_representable(v) is a predicate of v (repr + re-parse; it '
                     'no longer raises after fix ecf8852)  [bounded: bC06]')
register(c)

c = Contract('config.py::_get_default_configurable_parameter_values', ['C07'])
c.param('fn', KVal)
c.param('allowlist', KOpt(StrList))
c.param('denylist', KOpt(StrList))
c.result = ParamDict
c.local_kinds = {'arg_vals': ParamDict}


def _excluded(x, s):
  d = KWD(x.a.fn.e)
  return z3.Or(z3.And(_truthy(x.a.allowlist), z3.Not(_in(x.a.allowlist, s))),
               z3.And(_truthy(x.a.denylist), _in(x.a.denylist, s)),
               z3.Not(representable(d.val[s])))


c.ensure('defaults_minus_unlisted_denylisted_and_unrepresentable', lambda x: sym.forall(
    [s_], z3.And(
        x.result.dom[s_] == z3.And(KWD(x.a.fn.e).dom[s_], z3.Not(_excluded(x, s_))),
        z3.Implies(x.result.dom[s_], x.result.val[s_] == KWD(x.a.fn.e).val[s_]))))
c.raises_only_listed = True
c.loop(('list(arg_vals)', None), [Clause('processed_keys_filtered', lambda x, k: sym.forall(
    [s_], z3.And(
        x.env.arg_vals.dom[s_] == z3.And(KWD(x.a.fn.e).dom[s_], z3.Not(z3.And(
            x.it.idx(s_) < k, _excluded(x, s_)))),
        x.env.arg_vals.val[s_] == KWD(x.a.fn.e).val[s_]),
    patterns=[x.env.arg_vals.dom[s_]]))])
register(c)


# ---- _format_value (C06, C07): a literal or None, never an exception --------------------------------
c = Contract('config.py::parse_value', ['C06'], kind='assumed')
c.param('value', KVal)
c.result = KVal
c.modifies = set(world.STATE) - {'HELD_OPERATIVE_CONFIG_LOCK', 'HELD_SINGLETONS_LOCK'}
c.may_raise_other = True
c.assumptions.append('parse_value(text) may do anything a parse can do (dynamic registration may '
                     'register configurables) and may raise anything')
register(c)

c = Contract('config.py::_format_value', ['C06', 'C07'])
c.param('value', KVal)
c.result = KOpt(KStr)
c.modifies = set(world.STATE) - {'HELD_OPERATIVE_CONFIG_LOCK', 'HELD_SINGLETONS_LOCK'}
c.val_ops_may_raise = True           # `==` on an arbitrary value may raise
c.ensure('the_repr_or_nothing', lambda x: z3.Or(
    x.result.is_none,
    x.result.inner.e == sym.ufun('repr_of', sym.Val, sym.Str)(x.a.value.e)))


def _reparsed(x):
  ev = [e for e in x.trace if e.get('call') == 'config.py::parse_value' and 'result' in e]
  return ev[0]['result'] if len(ev) == 1 else None


c.ensure('a_literal_is_returned_only_if_parsing_it_back_gave_an_equal_value', lambda x: z3.Implies(
    z3.Not(x.result.is_none),
    z3.BoolVal(False) if _reparsed(x) is None else
    sym.ufun('val_eq', sym.Val, sym.Val, sym.BoolS)(_reparsed(x).e, x.a.value.e)))
c.raise_case('not_an_Exception', 'BaseException', ensures=[
    ('only_exceptions_outside_the_Exception_hierarchy_escape', lambda x: z3.Not(
        sym.exc_sub(x.exc.cls, sym.exc_const('Exception'))))])
c.raises_only_listed = True
register(c)

# Second view of _is_literally_representable (proved): it is decided by exactly one call of
# _format_value on the very value -- no shortcut that answers without the parse round trip.
c = Contract('config.py::_is_literally_representable#body', ['C06', 'C07'])
c.target = 'config.py::_is_literally_representable'
c.param('value', KVal)
c.result = KBool
c.modifies = set(world.STATE) - {'HELD_OPERATIVE_CONFIG_LOCK', 'HELD_SINGLETONS_LOCK'}


def _fv_calls(x):
  return [e for e in x.trace if e.get('call') == 'config.py::_format_value' and 'result' in e]


c.ensure('true_exactly_when_format_value_yields_a_literal_for_this_value', lambda x: (
    z3.BoolVal(False) if len(_fv_calls(x)) != 1 else z3.And(
        sym.to_val(_fv_calls(x)[0]['args']['value']) == x.a.value.e,
        x.result.e == z3.Not(_fv_calls(x)[0]['result'].is_none))))
c.raise_case('not_an_Exception', 'BaseException', ensures=[
    ('only_exceptions_outside_the_Exception_hierarchy_escape', lambda x: z3.Not(
        sym.exc_sub(x.exc.cls, sym.exc_const('Exception'))))])
c.raises_only_listed = True
register(c)
