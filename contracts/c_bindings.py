"""Contract: _get_bindings -- scope-layered overlay of bindings (C01)."""
import z3

from pyvc import sym, world
from pyvc.contract import Contract, Clause, register
from pyvc.sym import KBool, KInt, KStr, KVal, KList, KDict, KOpt, VDict
from contracts.a_state import (ScopeList, ParamDict, Key2, key2, join_slash,
                               cfg_has, cfg_val, eff_stack)

GhostW = KDict(KStr, KInt)     # only the value array is used: p -> last index


def _S_term(x):
  a = x.a.scope_components
  st = eff_stack(x.old['_SCOPE_MANAGER'])
  top = z3.Select(st.arr, st.len - 1)
  use_arg = z3.And(z3.Not(a.is_none), a.inner.len > 0)
  return z3.If(use_arg, ScopeList.box(a.inner), top)


def _Sb(x):
  """The (boxed) scope the overlay is computed for, as ONE constant per path (so that clauses and
  triggers mention a plain term instead of a nest of if-then-else); its definition -- the
  argument if it is a non-empty list, else the scope active in the calling thread -- is
  assumed where the constant is introduced."""
  g = x.path.ghost
  t = _S_term(x)
  key = ('overlay_S', t.get_id())        # one constant per distinct term (sound: each constant
  if key not in g:                       # is defined equal to its own term)
    sb = x.path.fresh_const('overlay_scope', ScopeList.sort())
    x.path.assume(sb == t)
    g[key] = (sb, t)                     # t kept alive so that its id is not reused
  return g[key][0]


def _S(x):
  return ScopeList.unbox(_Sb(x))


def _defs(x):
  """bnd(L, p): parameter p is bound for `selector` under the scope string of
  the (boxed) scope list L; bval(L, p): the value bound there.  Introduced as
  defined symbols so that quantifiers over them have triggers."""
  cfg = x.old['_CONFIG']
  key = ('bnd', cfg.dom.get_id(), cfg.val.get_id(), x.a.selector.e.get_id())
  d = x.ghost.get(key)
  if d is None:
    L = z3.Const('L!def', ScopeList.sort())
    p = z3.Const('p!def', sym.Str)
    k = key2(join_slash(ScopeList.unbox(L)), x.a.selector.e)
    d = (x.path.define('bnd', [L, p], cfg_has(cfg, k, p)),
         x.path.define('bval', [L, p], cfg_val(cfg, k, p)))
    x.ghost[key] = d
  return d


def bound_at(x, lst_boxed, p):
  return _defs(x)[0](lst_boxed, p)


def value_at(x, lst_boxed, p):
  return _defs(x)[1](lst_boxed, p)


def _slpref(L, j):
  return sym.ufun('scope_list_prefix', ScopeList.sort(), sym.IntS, ScopeList.sort())(L, j)


def _slpref_definition():
  L = z3.Const('L!pf', ScopeList.sort())
  j = z3.Int('j!pf')
  return sym.forall([L, j], _slpref(L, j) == ScopeList.box(ScopeList.unbox(L).prefix(j)),
                    patterns=[_slpref(L, j)])


def _pref(x, j):
  """box(S[:j]) through ONE defined symbol (gives the solver a trigger; defined once, at
  entry, so that every mention is the same term)."""
  return _slpref(_Sb(x), j)


c = Contract('config.py::_get_bindings', ['C01'])
c.param('selector', KStr)
c.param('scope_components', KOpt(ScopeList), default=lambda ex: sym.NONE)
c.param('inherit_scopes', KBool, default=lambda ex: sym.VBool(True))
c.result = ParamDict
c.modifies = {'_SCOPE_MANAGER'}      # current_scope() may initialise the attribute
c.local_kinds = {'new_kwargs': ParamDict, 'partial_scopes': KList(ScopeList),
                 'scope_components': ScopeList}
c.require('stack_non_empty', lambda x: eff_stack(x.old['_SCOPE_MANAGER']).len >= 1)
c.assume_entry('definition_of_overlay_scope', lambda x: _Sb(x) == _S_term(x),
               'definition (a name for a term): the overlay is computed for the argument if it is '
               'a non-empty list, else for the scope active in the calling thread')
c.assume_entry('definition_of_scope_list_prefix', lambda x: _slpref_definition(),
               'definition of the spec function scope_list_prefix(L, j) = L[:j]')
c.raises_only_listed = True          # never raises

p_ = z3.Const('p!b', sym.Str)
j_ = z3.Int('j!b')
j2_ = z3.Int('j2!b')


def _bound_iff(x):
  n = _S(x).len
  res = x.result
  inherit = z3.ForAll([p_], res.dom[p_] == z3.Exists(
      [j_], z3.And(0 <= j_, j_ <= n, bound_at(x, _pref(x, j_), p_))))
  strict = z3.ForAll([p_], res.dom[p_] == bound_at(x, _Sb(x), p_))
  return z3.If(x.a.inherit_scopes.e, inherit, strict)


def _longest_wins(x):
  n = _S(x).len
  res = x.result
  inherit = z3.ForAll([p_, j_], z3.Implies(
      z3.And(0 <= j_, j_ <= n, bound_at(x, _pref(x, j_), p_),
             z3.ForAll([j2_], z3.Implies(z3.And(j_ < j2_, j2_ <= n),
                                         z3.Not(bound_at(x, _pref(x, j2_), p_))))),
      res.val[p_] == value_at(x, _pref(x, j_), p_)))
  strict = z3.ForAll([p_], z3.Implies(
      res.dom[p_], res.val[p_] == value_at(x, _Sb(x), p_)))
  return z3.If(x.a.inherit_scopes.e, inherit, strict)


c.ensure('bound_iff_some_prefix_binds', _bound_iff)
c.ensure('longest_prefix_wins', _longest_wins)
c.ensure('scope_stack_unchanged', lambda x: eff_stack(x.new['_SCOPE_MANAGER']).kind.eq(
    eff_stack(x.new['_SCOPE_MANAGER']), eff_stack(x.old['_SCOPE_MANAGER'])))
c.canary('MUSTFAIL_shortest_prefix_wins', lambda x: z3.ForAll([p_], z3.Implies(
    z3.And(x.result.dom[p_], bound_at(x, _pref(x, 0), p_)),
    x.result.val[p_] == value_at(x, _pref(x, 0), p_))))

# ghost: w[p] = index of the last processed partial scope that binds p, or -1
c.ghost_vars['w'] = lambda x: VDict(GhostW, z3.K(sym.Str, z3.BoolVal(True)),
                                    z3.K(sym.Str, z3.IntVal(-1)))


def _plist(x):
  """The list of partial scopes the loop runs over (taken from the loop itself, so that the
  name of the local holding it does not matter)."""
  lst = getattr(getattr(x, 'it', None), 'lst', None)
  return lst if lst is not None else x.env.partial_scopes


def _P(x, j):
  return z3.Select(_plist(x).arr, j)


def _inv(x, k):
  nk = x.env.new_kwargs
  w = x.env.ghost_w.val
  return sym.forall([p_], z3.And(
      nk.dom[p_] == (w[p_] >= 0),
      w[p_] >= -1, w[p_] < z3.If(k > 0, k, 1),
      z3.Implies(w[p_] >= 0, z3.And(
          bound_at(x, _P(x, w[p_]), p_),
          nk.val[p_] == value_at(x, _P(x, w[p_]), p_))),
      sym.forall([j_], z3.Implies(z3.And(w[p_] < j_, j_ < k),
                                  z3.Not(bound_at(x, _P(x, j_), p_))),
                 patterns=[bound_at(x, _P(x, j_), p_)])),
      patterns=[w[p_], nk.dom[p_], nk.val[p_]])


def _ghost_step(ex, x, k):
  w = x.env.ghost_w
  neww = z3.Lambda([p_], z3.If(bound_at(x, _P(x, k), p_), k, w.val[p_]))
  ex.frame.env['ghost_w'] = VDict(GhostW, w.dom, neww)


def _after(ex, x):
  """Hint (proved, then assumed): in the inheriting case the k-th partial scope
  is the prefix of length k."""
  n = _S(x).len
  P = _plist(x)
  hint = z3.Implies(x.a.inherit_scopes.e, sym.forall(
      [j_], z3.Implies(z3.And(0 <= j_, j_ <= n), z3.Select(P.arr, j_) == _pref(x, j_)),
      patterns=[_pref(x, j_), z3.Select(P.arr, j_)]))
  x.path.oblige('config.py::_get_bindings/hint/partial_scope_is_prefix', hint)
  x.path.assume(hint)


c.loop(0, [Clause('overlay_of_processed_prefixes', _inv)],
       ghost=['w'], ghost_step=_ghost_step, after=_after)
register(c)
