"""Contracts: constants and macros (C05)."""
import z3

from pyvc import sym, world
from pyvc.contract import Contract, Clause, register
from pyvc.sym import KBool, KInt, KStr, KVal, KList, KOpt, VObj, VBool
from contracts.a_state import SelectorMap, eff_stack, join_slash, ScopeList
from contracts.b_selector_map import M, valid, matches, same_map, keys_valid

s_ = z3.Const('s!cc', sym.Str)


def module_re(s):
  # config_parser.MODULE_RE *is* selector_map.SELECTOR_RE (same object; checked
  # by an AST obligation in astchecks) -- one predicate for both names.
  return world.re_match('SELECTOR_RE', s)


def _any_match(x):
  return z3.Exists([s_], matches(x.old['_CONSTANTS'], x.a.name.e, s_))


c = Contract('config.py::constant', ['C05', 'C20'])
c.param('name', KStr)
c.param('value', KVal)
c.modifies = {'_CONSTANTS'}
c.raise_case('invalid_name', 'ValueError', when=lambda x: z3.Not(module_re(x.a.name.e)),
             ensures=[('store_unchanged', lambda x: same_map(x.new['_CONSTANTS'],
                                                              x.old['_CONSTANTS']))])
c.raise_case('duplicate', 'ValueError',
             when=lambda x: z3.And(module_re(x.a.name.e),
                                   z3.Not(x.old['_INTERACTIVE_MODE'].e), _any_match(x)),
             ensures=[('store_unchanged', lambda x: same_map(x.new['_CONSTANTS'],
                                                              x.old['_CONSTANTS']))])
c.ensure('accepted_only_if_valid_and_new', lambda x: z3.And(
    module_re(x.a.name.e),
    z3.Or(x.old['_INTERACTIVE_MODE'].e, z3.Not(_any_match(x)))))
c.ensure('stored_under_exactly_this_name', lambda x: z3.And(
    M(x.new['_CONSTANTS']).dom == z3.Store(M(x.old['_CONSTANTS']).dom, x.a.name.e, True),
    M(x.new['_CONSTANTS']).val == z3.Store(M(x.old['_CONSTANTS']).val, x.a.name.e,
                                           x.a.value.e)))
c.raises_only_listed = True
register(c)

# _retrieve_constant: returns the very object stored under the current scope string
c = Contract('config.py::_retrieve_constant', ['C05'])
c.result = KVal
c.modifies = {'_SCOPE_MANAGER'}
c.require('stack_non_empty', lambda x: eff_stack(x.old['_SCOPE_MANAGER']).len >= 1)


def _scope_str(x):
  st = eff_stack(x.old['_SCOPE_MANAGER'])
  return join_slash(ScopeList.unbox(z3.Select(st.arr, st.len - 1)))


c.ensure('returns_the_stored_object_itself', lambda x: z3.And(
    M(x.old['_CONSTANTS']).dom[_scope_str(x)],
    x.result.e == M(x.old['_CONSTANTS']).val[_scope_str(x)]))
c.raise_case('unknown_constant', 'KeyError',
             when=lambda x: z3.Not(M(x.old['_CONSTANTS']).dom[_scope_str(x)]))
c.raises_only_listed = True
register(c)
