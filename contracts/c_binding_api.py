"""Contracts: binding keys, bind_parameter, query, skip rules (C11, C08, C12, C15, C16)."""
import z3

from pyvc import sym, world
from pyvc.contract import Contract, Clause, register
from pyvc.sym import (KBool, KInt, KStr, KVal, KList, KOpt, KTuple, VObj, VBool,
                      VStr)
from contracts.a_state import (SelectorMap, ParsedBindingKey, Configurable, Key2,
                               key2, ParamDict, StrList)
from contracts.b_selector_map import M, matches
from contracts.c_config_state import locked, dict_same

OptCfg = KOpt(Configurable)
s_ = z3.Const('s!ba', sym.Str)
i_ = z3.Int('i!ba')

REG_FIELDS = {'_REGISTRY', 'REGISTRATION', '_RENAMED_SELECTORS', '_INVERSE_REGISTRY'}

# ---- assumed: things behind inspect / dynamic registration -----------------------
world.VAL_METHOD_CONTRACTS['get_configurable'] = 'config.py::ParseContext.get_configurable'


def gc_result(ctxv, sel, regtok, regmap):
  """The configurable (or None) the parse context resolves `sel` to -- a
  function of the context, the name and the registration state (assumed)."""
  return sym.ufun('gc_result', sym.Val, sym.Str, sym.Val, SelectorMap.sort(),
                  OptCfg.sort())(ctxv, sel, regtok, regmap)


c = Contract('config.py::ParseContext.get_configurable', ['C11', 'C19'], kind='assumed')
c.param('self', KVal)
c.param('selector', KStr)
c.result = OptCfg
c.modifies = set(REG_FIELDS)          # dynamic registration may register on demand
c.ensure('functional', lambda x: OptCfg.box(x.result) == gc_result(
    x.a.self.e, x.a.selector.e, x.old['REGISTRATION'].e,
    SelectorMap.box(x.old['_REGISTRY'])))
c.ensure('result_is_registered', lambda x: z3.Implies(
    z3.Not(x.result.is_none), M(x.new['_REGISTRY']).dom[x.result.inner.fields['selector'].e]))
c.may_raise_other = True              # NameError / AttributeError / KeyError(ambiguous) ...
c.assumptions.append('ParseContext.get_configurable is deterministic in (context, '
                     'selector, registration state) and returns a registered '
                     'Configurable or None  [assumed; bounded: bC11, bC19]')
register(c)


def mhp(fn, arg):
  return sym.ufun('might_have_parameter', sym.Val, sym.Str, sym.BoolS)(fn, arg)


c = Contract('config.py::_might_have_parameter', ['C11'], kind='assumed')
c.param('fn_or_cls', KVal)
c.param('arg_name', KStr)
c.result = KBool
c.ensure('functional', lambda x: x.result.e == mhp(x.a.fn_or_cls.e, x.a.arg_name.e))
c.raises_only_listed = True
c.assumptions.append('_might_have_parameter(fn, name) is true iff the unwrapped '
                     'construction function takes **kwargs or has `name` among its '
                     'args/kwonlyargs  [assumed (inspect); bounded: bC11]')
register(c)

BK3 = KTuple(KStr, KStr, KStr)


def bk_parts(s):
  return sym.ufun('parse_binding_key_result', sym.Str, BK3.sort())(s)


c = Contract('config_parser.py::parse_binding_key', ['C03', 'C11'], kind='assumed')
c.param('binding_key', KStr)
c.result = BK3
c.ensure('functional', lambda x: BK3.box(x.result) == bk_parts(x.a.binding_key.e))
c.may_raise_other = True              # '%name.value' is rejected with ValueError
c.assumptions.append('abstract view of parse_binding_key (its string semantics are '
                     'the subject of c_strings.py)')
register(c)

# ---- ParsedBindingKey --------------------------------------------------------------


def key_parts(k):
  """(scope, selector, arg) a binding key denotes, by the three accepted forms."""
  sym.val_axioms()
  tag = sym.tag_of(k)
  is_pbk = sym.ufun('isinst_ParsedBindingKey', sym.Val, sym.BoolS)(k)
  as_pbk = sym.coerce(VObj(k), ParsedBindingKey)
  item = sym.ufun('val_item', sym.Val, sym.IntS, sym.Val)
  seq = [sym.val_as_str(item(k, z3.IntVal(i))) for i in range(3)]
  st = BK3.unbox(bk_parts(sym.val_as_str(k)))
  is_seq = z3.Or(tag == sym.TAG['list'], tag == sym.TAG['tuple'])
  pick = lambda a, b, c: z3.If(is_pbk, a, z3.If(is_seq, b, c))
  return (pick(as_pbk.fields['scope'].e, seq[0], st.items[0].e),
          pick(as_pbk.fields['given_selector'].e, seq[1], st.items[1].e),
          pick(as_pbk.fields['arg_name'].e, seq[2], st.items[2].e),
          is_pbk, as_pbk)


def _top_ctx(ns):
  pc = ns['_PARSE_CONTEXTS']
  return z3.Select(pc.arr, pc.len - 1)


def _truthy_list(opt):
  return z3.And(z3.Not(opt.is_none), opt.inner.len > 0)


def _in_list(opt, a):
  return z3.Exists([i_], z3.And(0 <= i_, i_ < opt.inner.len, opt.inner.arr[i_] == a))


def accepted(x, k=None):
  """The five acceptance conditions of the property (C11), for a non-PBK key."""
  k = x.a.binding_key.e if k is None else k
  scope, sel, arg, is_pbk, as_pbk = key_parts(k)
  cfg = OptCfg.unbox(gc_result(_top_ctx(x.old), sel, x.old['REGISTRATION'].e,
                               SelectorMap.box(x.old['_REGISTRY'])))
  f = cfg.inner.fields
  dot = sym.ufun('str_contains', sym.Str, sym.Str, sym.BoolS)(sel, sym.str_lit('.'))
  return z3.And(
      z3.Not(cfg.is_none),                                          # (i) registered
      z3.Not(z3.And(f['is_method'].e, z3.Not(dot))),                # (ii) Class.method
      mhp(f['wrapper'].e, arg),                                     # (iii) can accept it
      z3.Implies(_truthy_list(f['allowlist']), _in_list(f['allowlist'], arg)),   # (iv)
      z3.Implies(_truthy_list(f['denylist']), z3.Not(_in_list(f['denylist'], arg))))  # (v)


def parse_result_ok(x, r, k=None):
  k = x.a.binding_key.e if k is None else k
  scope, sel, arg, is_pbk, as_pbk = key_parts(k)
  cfg = OptCfg.unbox(gc_result(_top_ctx(x.old), sel, x.old['REGISTRATION'].e,
                               SelectorMap.box(x.old['_REGISTRY'])))
  rf = r.fields
  fresh = z3.And(rf['scope'].e == scope, rf['given_selector'].e == sel,
                 rf['arg_name'].e == arg,
                 rf['complete_selector'].e == cfg.inner.fields['selector'].e)
  return z3.If(is_pbk, ParsedBindingKey.box(r) == ParsedBindingKey.box(as_pbk), fresh)


c = Contract('config.py::ParsedBindingKey.parse', ['C11', 'C08', 'C12'])
c.cls_param = 'ParsedBindingKey'
c.param('binding_key', KVal)
c.result = ParsedBindingKey
c.modifies = set(REG_FIELDS)
c.local_kinds = {'scope': KStr, 'selector': KStr, 'arg_name': KStr}
c.require('a_parse_context_exists', lambda x: x.old['_PARSE_CONTEXTS'].len >= 1)
c.ensure('accepted_only_if_registered_and_configurable', lambda x: z3.Or(
    key_parts(x.a.binding_key.e)[3], accepted(x)))
c.ensure('names_the_complete_selector', lambda x: parse_result_ok(x, x.result))
c.may_raise_other = True
c.exc_ensure('an_already_parsed_key_is_never_rejected',
             lambda x: z3.Not(key_parts(x.a.binding_key.e)[3]))
c.assumptions.append('elements of a tuple/list binding key are strings')
c.canary('MUSTFAIL_accepts_everything', lambda x: z3.BoolVal(False))
register(c)

# equality / hashing of binding keys: every spelling of one parameter is one key
c = Contract('config.py::ParsedBindingKey.__eq__', ['C08', 'C12'])
c.self_kind = ParsedBindingKey
c.param('other', ParsedBindingKey)
c.result = KBool


def _ssa_eq(a, b):
  return z3.And(*[a.fields[f].e == b.fields[f].e
                  for f in ('scope', 'complete_selector', 'arg_name')])


c.ensure('equal_iff_same_scope_selector_arg',
         lambda x: x.result.e == _ssa_eq(x.self_old, x.a.other))
c.raises_only_listed = True
register(c)

c = Contract('config.py::ParsedBindingKey.__hash__', ['C08', 'C12'])
c.self_kind = ParsedBindingKey
c.result = KVal
_SSA = KTuple(KStr, KStr, KStr)
c.ensure('hash_depends_only_on_scope_selector_arg', lambda x: x.result.e == sym.ufun(
    'py_hash', sym.Val, sym.Val)(sym.to_val(sym.VTuple(
        [x.self_old.fields[f] for f in ('scope', 'complete_selector', 'arg_name')], _SSA))))
c.raises_only_listed = True
register(c)

# ---- bind_parameter ----------------------------------------------------------------


def cell_update(old, new, key, arg, value):
  """new == old with exactly the cell [key][arg] set to value."""
  kk = z3.Const('k!cu', Key2.sort())
  p = z3.Const('p!cu', sym.Str)
  oi = lambda k_: ParamDict.unbox(old.val[k_])
  ni = lambda k_: ParamDict.unbox(new.val[k_])
  return z3.And(
      sym.forall([kk], new.dom[kk] == z3.Or(old.dom[kk], kk == key)),
      sym.forall([kk, p], z3.Implies(z3.And(old.dom[kk], z3.Or(kk != key, p != arg)), z3.And(
          ni(kk).dom[p] == oi(kk).dom[p], ni(kk).val[p] == oi(kk).val[p]))),
      sym.forall([p], z3.Implies(z3.And(z3.Not(old.dom[key]), p != arg),
                                 z3.Not(ni(key).dom[p]))),
      ni(key).dom[arg], ni(key).val[arg] == value)


# (C05: a macro is the binding (name, 'gin.macro', 'value'); "the value most recently bound" is this
# function's exactly-one-cell postcondition)
c = Contract('config.py::bind_parameter', ['C11', 'C12', 'C16', 'C05'])
c.param('binding_key', KVal)
c.param('value', KVal)
c.param('location', KVal, default=lambda ex: VObj(sym.VAL_NONE))
c.modifies = set(REG_FIELDS) | {'_CONFIG', '_CONFIG_PROVENANCE'}
c.require('a_parse_context_exists', lambda x: x.old['_PARSE_CONTEXTS'].len >= 1)
_cfg_same = lambda x: z3.And(dict_same(x.new['_CONFIG'], x.old['_CONFIG']),
                             dict_same(x.new['_CONFIG_PROVENANCE'],
                                       x.old['_CONFIG_PROVENANCE']))
c.raise_case('locked', 'RuntimeError', when=lambda x: locked(x.old),
             ensures=[('nothing_changes', _cfg_same)])
c.exc_ensure('rejected_binding_leaves_config_unchanged', _cfg_same)
c.ensure('only_when_unlocked', lambda x: z3.Not(locked(x.old)))
c.ensure('only_accepted_keys_are_bound', lambda x: z3.Or(
    key_parts(x.a.binding_key.e)[3], accepted(x)))


def _bound_cell(x):
  scope, sel, arg, is_pbk, as_pbk = key_parts(x.a.binding_key.e)
  cfg = OptCfg.unbox(gc_result(_top_ctx(x.old), sel, x.old['REGISTRATION'].e,
                               SelectorMap.box(x.old['_REGISTRY'])))
  csel = z3.If(is_pbk, as_pbk.fields['complete_selector'].e,
               cfg.inner.fields['selector'].e)
  return key2(scope, csel), arg


c.ensure('exactly_one_cell_of_config_changes', lambda x: cell_update(
    x.old['_CONFIG'], x.new['_CONFIG'], *_bound_cell(x), x.a.value.e))
c.ensure('provenance_of_that_cell_is_the_given_location', lambda x: cell_update(
    x.old['_CONFIG_PROVENANCE'], x.new['_CONFIG_PROVENANCE'], *_bound_cell(x),
    x.a.location.e))
c.may_raise_other = True
c.exc_ensure('raises_only_if_locked_or_key_rejected', lambda x: z3.Or(
    locked(x.old), z3.Not(key_parts(x.a.binding_key.e)[3])))
c.canary('MUSTFAIL_binds_when_locked', lambda x: locked(x.old))
register(c)

# ---- skip_unknown --------------------------------------------------------------------
c = Contract('config.py::_validate_skip_unknown', ['C15'])
c.param('skip_unknown', KVal)


def _skip_form_ok(v):
  sym.val_axioms()
  t = sym.tag_of(v)
  return z3.Or(t == sym.TAG['bool'], t == sym.TAG['list'], t == sym.TAG['tuple'],
               t == sym.TAG['set'])


c.raise_case('bad_form', 'ValueError', when=lambda x: z3.Not(_skip_form_ok(x.a.skip_unknown.e)))
c.ensure('form_ok', lambda x: _skip_form_ok(x.a.skip_unknown.e))
c.raises_only_listed = True
register(c)

# ---- _is_known_selector / _should_skip (C15) ---------------------------------------------


def ctx_dynamic(ctxv):
  """The parse context has dynamic registration enabled (opaque attribute)."""
  return sym.val_truthy(sym.ufun('attr__dynamic_registration', sym.Val, sym.Val)(ctxv))


def resolvable(ctxv, sel):
  """`sel` resolves through the context's own import table (assumed predicate)."""
  return sym.ufun('ctx_resolves', sym.Val, sym.Str, sym.BoolS)(ctxv, sel)


world.VAL_METHOD_CONTRACTS['_resolve_selector'] = 'config.py::ParseContext._resolve_selector'
c = Contract('config.py::ParseContext._resolve_selector', ['C15', 'C19'], kind='assumed')
c.param('self', KVal)
c.param('selector', KStr)
c.result = KVal
c.ensure('only_if_resolvable', lambda x: resolvable(x.a.self.e, x.a.selector.e))
c.raise_case('unknown_first_component', 'NameError',
             when=lambda x: z3.Not(resolvable(x.a.self.e, x.a.selector.e)))
c.raise_case('missing_attribute', 'AttributeError',
             when=lambda x: z3.Not(resolvable(x.a.self.e, x.a.selector.e)))
c.raises_only_listed = True
c.assumptions.append('ParseContext._resolve_selector either returns (the name resolves '
                     'through the file\'s own imports) or raises NameError/AttributeError, '
                     'without side effects  [its body: getattr chains on real modules; '
                     'bounded: bC19]')
register(c)


def known(x, sel):
  """'Known' as the property defines it: resolvable through the file's imports
  under dynamic registration, else matched by some registered name."""
  ctxv = _top_ctx(x.old)
  return z3.If(ctx_dynamic(ctxv), resolvable(ctxv, sel),
               z3.Exists([s_], matches(x.old['_REGISTRY'], sel, s_)))


c = Contract('config.py::_is_known_selector', ['C15'])
c.param('selector', KStr)
c.result = KBool
c.require('a_parse_context_exists', lambda x: x.old['_PARSE_CONTEXTS'].len >= 1)
c.ensure('known_means_resolvable_or_registered', lambda x: x.result.e == known(x, x.a.selector.e))
c.raises_only_listed = True
register(c)


def covers(v, sel):
  sym.val_axioms()
  t = sym.tag_of(v)
  return z3.If(t == sym.TAG['bool'], sym.val_as_bool(v),
               sym.ufun('val_contains', sym.Val, sym.Val, sym.BoolS)(v, sym.val_of_str(sel)))


c = Contract('config.py::_should_skip', ['C15'])
c.param('selector', KStr)
c.param('skip_unknown', KVal)
c.result = KBool
c.require('a_parse_context_exists', lambda x: x.old['_PARSE_CONTEXTS'].len >= 1)
c.raise_case('bad_form', 'ValueError', when=lambda x: z3.Not(_skip_form_ok(x.a.skip_unknown.e)))
c.ensure('skips_exactly_unknown_and_covered', lambda x: x.result.e == z3.And(
    z3.Not(known(x, x.a.selector.e)), covers(x.a.skip_unknown.e, x.a.selector.e)))
c.ensure('known_is_never_skipped', lambda x: z3.Implies(known(x, x.a.selector.e),
                                                       z3.Not(x.result.e)))
c.raises_only_listed = True
c.canary('MUSTFAIL_never_skips', lambda x: z3.Not(x.result.e))
register(c)
