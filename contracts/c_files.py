"""Contracts: file resolution and the parsing entry points (C14, C15, C16)."""
import z3

from pyvc import sym, world
from pyvc.contract import Contract, Clause, register
from pyvc.sym import (KBool, KInt, KStr, KVal, KList, KOpt, KTuple, KRecord, VObj,
                      VBool, VStr)
from contracts.a_state import SelectorMap
from contracts.b_selector_map import M, matches
from contracts.c_binding_api import REG_FIELDS, gc_result, _top_ctx, OptCfg
from contracts.c_config_state import locked, dict_same, ALL_FIELDS

i_ = z3.Int('i!f')
j_ = z3.Int('j!f')
s_ = z3.Const('s!f', sym.Str)

PCFI = KRecord('ParsedConfigFileIncludesAndImports',
               {'filename': KStr, 'imports': KVal, 'includes': KVal})
PCFI.tuple_order = ['filename', 'imports', 'includes']
world.RECORD_CLASSES['ParsedConfigFileIncludesAndImports'] = ('config.py', PCFI)

PARSE_MODIFIES = (set(REG_FIELDS) | {'_CONFIG', '_CONFIG_PROVENANCE', '_IMPORTS',
                                     '_CONSTANTS', '_SINGLETONS', '_OPERATIVE_CONFIG'})

# ---- assumed externals -----------------------------------------------------------------
world.EXTERNALS['os.path.isabs'] = 'ext::os.path.isabs'
world.EXTERNALS['os.path.join'] = 'ext::os.path.join'


def isabs(s):
  return sym.ufun('os_path_isabs', sym.Str, sym.BoolS)(s)


def pjoin(a, b):
  return sym.ufun('os_path_join', sym.Str, sym.Str, sym.Str)(a, b)


c = Contract('ext::os.path.isabs', ['C14'], kind='assumed')
c.param('path', KStr)
c.result = KBool
c.ensure('functional', lambda x: x.result.e == isabs(x.a.path.e))
c.raises_only_listed = True
register(c)
c = Contract('ext::os.path.join', ['C14'], kind='assumed')
c.param('a', KStr)
c.param('b', KStr)
c.result = KStr
c.ensure('functional', lambda x: x.result.e == pjoin(x.a.a.e, x.a.b.e))
c.raises_only_listed = True
register(c)

# parse_config as seen by its callers (its own body: c_parse_loop.py)
c = Contract('config.py::parse_config', ['C14', 'C15', 'C16'])
c.param('bindings', KVal)
c.param('skip_unknown', KVal, default=lambda ex: VObj(sym.val_of_bool(z3.BoolVal(False))))
c.result = KTuple(KVal, KVal)
c.modifies = set(PARSE_MODIFIES)
c.may_raise_other = True
c.skip_proof = 'statement loop: see c_parse_loop.py'
register(c)


c = Contract('config.py::log_includes_and_imports', ['C14'], kind='assumed')
c.param('file_includes_and_imports', KVal)
c.param('first_line_prefix', KStr, default=lambda ex: VStr(''))
c.param('prefix', KStr, default=lambda ex: VStr(''))
c.raises_only_listed = True
c.assumptions.append('log_includes_and_imports only writes to the logging module')
register(c)


def readable(check, path):
  """Truth value of `existence_check(path)`: a pure predicate (assumed)."""
  return sym.ufun('reader_can_read', sym.Val, sym.Str, sym.BoolS)(check, path)


def _opaque_model(ex, fn, args, kwargs, node):
  # the existence checks are the second components of _FILE_READERS entries
  if getattr(fn, 'role', None) == 'existence_check' or (
      isinstance(fn, VObj) and 'f1_Tup_Val_Val_' in str(fn.e)):
    p = sym.coerce(args[0], KStr)
    return VBool(readable(fn.e, p.e))
  return None


c = Contract('config.py::parse_config_file', ['C14'])
c.param('config_file', KStr)
c.param('skip_unknown', KVal, default=lambda ex: VObj(sym.val_of_bool(z3.BoolVal(False))))
c.param('print_includes_and_imports', KBool, default=lambda ex: VBool(False))
c.result = PCFI
c.modifies = set(PARSE_MODIFIES) | {'_PARSE_CONTEXTS'}
c.require('a_parse_context_exists', lambda x: x.old['_PARSE_CONTEXTS'].len >= 1)
_ctx_restored = lambda x: x.new['_PARSE_CONTEXTS'].kind.eq(x.new['_PARSE_CONTEXTS'],
                                                          x.old['_PARSE_CONTEXTS'])
c.ensure('context_stack_restored', _ctx_restored)
c.exc_ensure('context_stack_restored_after_failure', _ctx_restored)
c.opaque_model = _opaque_model
c.opaque_pure = True
c.local_kinds = {'prefixes': KList(KStr)}
c.assumptions += ['existence checks registered with register_file_reader are pure '
                  'predicates of the path', 'readers do not change gin state when '
                  'opening a file', 'os.path.isabs / os.path.join are functions']


def _prefixes(x):
  """The locations searched: registered prefixes, or just '' for an absolute name."""
  lp = x.old['_LOCATION_PREFIXES']
  one = KList(KStr).from_items([VStr('')])
  return KList(KStr).unbox(z3.If(isabs(x.a.config_file.e), KList(KStr).box(one),
                                 KList(KStr).box(lp)))


def _path(x, i):
  return pjoin(_prefixes(x).arr[i], x.a.config_file.e)


def _rd(x, j):
  return x.old['_FILE_READERS'].kind.elem.unbox(x.old['_FILE_READERS'].arr[j])


def _can(x, i, j):
  return readable(_rd(x, j).items[1].e, _path(x, i))


def _parse_calls(x):
  return [e for e in x.trace if e.get('call') == 'config.py::parse_config']


def _reader_calls(x):
  return [e for e in x.trace if 'fn' in e]


def _first_readable(x, i, j):
  """(i, j) is the lexicographically least readable (location, reader) pair."""
  n, r = _prefixes(x).len, x.old['_FILE_READERS'].len
  return z3.And(
      0 <= i, i < n, 0 <= j, j < r, _can(x, i, j),
      sym.forall([i_, j_], z3.Implies(
          z3.And(0 <= i_, i_ < n, 0 <= j_, j_ < r,
                 z3.Or(i_ < i, z3.And(i_ == i, j_ < j))),
          z3.Not(_can(x, i_, j_)))))


def _parsed_the_first_readable(x):
  pc, rc = _parse_calls(x), _reader_calls(x)
  if len(pc) != 1 or len(rc) != 1:
    return z3.BoolVal(False)
  opened = sym.coerce(rc[0]['args'][0], KStr).e
  handle = rc[0]['result'].e
  return z3.And(
      pc[0]['args']['bindings'].e == handle,
      pc[0]['args']['skip_unknown'].e == x.a.skip_unknown.e,
      z3.Exists([i_, j_], z3.And(
          _first_readable(x, i_, j_), opened == _path(x, i_),
          rc[0]['fn'].e == _rd(x, j_).items[0].e)))


c.ensure('parses_exactly_the_first_readable_candidate', _parsed_the_first_readable)
c.ensure('result_names_the_file_as_given', lambda x: x.result.fields['filename'].e ==
         x.a.config_file.e)
c.ensure('result_mirrors_nested_parse', lambda x: z3.BoolVal(len(_parse_calls(x)) == 1))
c.raise_case('nobody_can_read_it', 'OSError',
             when=lambda x: z3.BoolVal(x.exc.origin == 'stmt'), ensures=[
    ('nothing_parsed_or_opened', lambda x: z3.BoolVal(
        len(_parse_calls(x)) == 0 and len(_reader_calls(x)) == 0)),
    ('really_unreadable', lambda x: z3.Or(
        z3.BoolVal(False),
        sym.forall([i_, j_], z3.Implies(
            z3.And(0 <= i_, i_ < _prefixes(x).len, 0 <= j_,
                   j_ < x.old['_FILE_READERS'].len), z3.Not(_can(x, i_, j_)))))),
])
c.may_raise_other = True
c.canary('MUSTFAIL_last_location_wins', lambda x: z3.BoolVal(False))


def _outer_inv(x, k):
  r = x.old['_FILE_READERS'].len
  return z3.And(
      _ctx_restored(x),
      z3.BoolVal(len(_parse_calls(x)) == 0 and len(_reader_calls(x)) == 0),
      KList(KStr).box(x.env.prefixes) == KList(KStr).box(_prefixes(x)),
      sym.forall([i_, j_], z3.Implies(z3.And(0 <= i_, i_ < k, 0 <= j_, j_ < r),
                                      z3.Not(_can(x, i_, j_)))))


def _inner_inv(x, k):
  # k counts readers tried for the current location
  return z3.And(
      _ctx_restored(x),
      z3.BoolVal(len(_parse_calls(x)) == 0 and len(_reader_calls(x)) == 0),
      sym.forall([j_], z3.Implies(z3.And(0 <= j_, j_ < k), z3.Not(readable(
          _rd(x, j_).items[1].e, x.env.config_file_with_prefix.e)))))


c.loop(0, [Clause('earlier_locations_unreadable', _outer_inv)])
c.loop(1, [Clause('earlier_readers_cannot_read_this_candidate', _inner_inv)])
register(c)
