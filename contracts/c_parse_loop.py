"""Contracts: try_with_location, _parse_scope and the statement loop of parse_config
(C16, C14, C15)."""
import ast
import z3

from pyvc import sym, world
from pyvc.contract import Contract, Clause, register, REGISTRY
from pyvc.sym import (KBool, KInt, KStr, KVal, KList, KDict, KOpt, KTuple, KRecord, VObj,
                      VBool, VStr, VExc)
from contracts.a_state import SelectorMap
from contracts.c_binding_api import REG_FIELDS
from contracts.c_config_state import locked, dict_same, ALL_FIELDS
from contracts.c_files import PARSE_MODIFIES, PCFI

i_ = z3.Int('i!pl')

Location = KRecord('Location', {'filename': KOpt(KStr), 'line_num': KInt,
                                'char_num': KOpt(KInt), 'line_content': KStr})
Location.tuple_order = ['filename', 'line_num', 'char_num', 'line_content']
world.RECORD_CLASSES['Location'] = ('config_parser.py', Location)
world.INLINE.add('utils.py::_format_location')

# ---- utils.try_with_location ---------------------------------------------------------------
c = Contract('utils.py::try_with_location', ['C16', 'C17'])
c.is_cm = True
c.param('location', Location)
c.cm_body_havoc = set(ALL_FIELDS)     # the body is arbitrary; the manager touches nothing


def _is_proxy_of(exc, body):
  return z3.BoolVal(getattr(exc, 'proxy_of', None) is body)


_sub = sym.exc_sub
c.cm_exit_exc.append(Clause('syntax_errors_are_reraised_untouched', lambda x: z3.Implies(
    _sub(x.body_exc.cls, sym.exc_const('SyntaxError')), z3.BoolVal(x.exc is x.body_exc))))
c.cm_exit_exc.append(Clause('non_Exception_passes_through_untouched', lambda x: z3.Implies(
    z3.Not(_sub(x.body_exc.cls, sym.exc_const('Exception'))),
    z3.BoolVal(x.exc is x.body_exc))))
c.cm_exit_exc.append(Clause('other_errors_keep_their_class_and_gain_the_location',
                            lambda x: z3.Implies(
    z3.And(_sub(x.body_exc.cls, sym.exc_const('Exception')),
           z3.Not(_sub(x.body_exc.cls, sym.exc_const('SyntaxError')))),
    z3.And(_is_proxy_of(x.exc, x.body_exc), _sub(x.exc.cls, x.body_exc.cls)))))
c.cm_swallows = False


def _translate(ex, ctx, exc):
  """Client side: what propagates out of `with try_with_location(loc):`."""
  is_syntax = _sub(exc.cls, sym.exc_const('SyntaxError'))
  is_exc = _sub(exc.cls, sym.exc_const('Exception'))
  if ex.path.decide(z3.Or(is_syntax, z3.Not(is_exc))):
    return exc
  cls = ex.path.fresh_const('proxycls', sym.ExcCls)
  ex.path.assume(_sub(cls, exc.cls))
  px = VExc(cls, ident=ex.path.fresh_const('proxy', sym.Val),
            note='location-augmented proxy of ' + (exc.note or 'an exception'))
  px.proxy_of = exc
  return px


c.translate_exc = _translate
register(c)

# ---- ParseContext(...) and its import processing: assumed ------------------------------------
IMPORT_EFFECTS = set(REG_FIELDS) | {'_CONSTANTS'}
c = Contract('config.py::ParseContext', ['C16', 'C19'], kind='assumed')
c.param('import_manager', KVal, default=lambda ex: VObj(sym.VAL_NONE))
c.result = KVal
c.modifies = set(IMPORT_EFFECTS)
c.may_raise_other = True
c.assumptions.append('constructing a ParseContext (which may process the imports of an '
                     'ImportManager, i.e. run module code) affects registration state and '
                     'constants only')
register(c)

world.VAL_METHOD_CONTRACTS['process_import'] = 'config.py::ParseContext.process_import#opaque'
c = Contract('config.py::ParseContext.process_import#opaque', ['C16', 'C19', 'C15'], kind='assumed')
c.param('self', KVal)
c.param('statement', KVal)
c.modifies = set(IMPORT_EFFECTS)
c.may_raise_other = True
c.assumptions.append('view of process_import for callers that hold the parse context as an '
                     'opaque object: touches registration state and constants only, may raise '
                     '(implied by the proved contract of ParseContext.process_import in '
                     'e_dynamic_registration.py)')
register(c)

c = Contract('config.py::_print_unknown_import_message', ['C15'], kind='assumed')
c.param('statement', KVal)
c.param('exception', None)
c.raises_only_listed = True
c.assumptions.append('_print_unknown_import_message only writes to the logging module')
register(c)

# ---- _parse_scope ----------------------------------------------------------------------------


def _ctxs(ns):
  return ns['_PARSE_CONTEXTS']


def _ext_eq(a, b):
  return a.kind.eq(a, b)


c = Contract('config.py::_parse_scope', ['C16', 'C19'])
c.is_cm = True
c.param('import_manager', KVal, default=lambda ex: VObj(sym.VAL_NONE))
c.cm_yields = KVal
c.modifies = set(IMPORT_EFFECTS) | {'_PARSE_CONTEXTS'}
c.cm_enter.append(Clause('one_fresh_context_pushed_and_yielded', lambda x: z3.And(
    _ctxs(x.mid).len == _ctxs(x.old).len + 1,
    _ext_eq(_ctxs(x.mid).prefix(_ctxs(x.old).len), _ctxs(x.old)),
    x.result.e == _ctxs(x.mid).arr[_ctxs(x.old).len])))
c.cm_body_havoc = set(ALL_FIELDS)
c.cm_body_assume.append(Clause('body_leaves_the_context_stack_as_it_found_it', lambda x: _ext_eq(
    _ctxs(x.new), _ctxs(x.mid))))
_restored = lambda x: _ext_eq(_ctxs(x.new), _ctxs(x.old))
c.cm_exit.append(Clause('context_stack_restored_on_normal_exit', _restored))
c.cm_exit_exc.append(Clause('context_stack_restored_when_body_raises', _restored))
c.exc_ensure('context_stack_untouched_if_construction_fails', _restored)
c.may_raise_other = True
register(c)

# ---- parse_config: the statement loop --------------------------------------------------------
pc = REGISTRY['config.py::parse_config']
pc.skip_proof = None
pc.local_kinds = {'scope': KStr, 'selector': KStr, 'arg_name': KStr, 'value': KVal,
                  'location': Location, 'includes': KList(PCFI), 'imports': KVal,
                  'macro_name': KStr}
pc.props = ['C14', 'C15', 'C16']
pc.require('a_parse_context_exists', lambda x: x.old['_PARSE_CONTEXTS'].len >= 1)
pc.abstract_stmts.append((
    lambda s: isinstance(s, ast.Expr) and 'imports.extend' in ast.unparse(s),
    'list of imported module names for the return value (assigns `imports` only)'))
pc.abstract_stmts.append((
    lambda s: isinstance(s, ast.Assign) and ast.unparse(s).startswith('parser = '),
    'construction of the ConfigParser (external tokenizer); `parser` is an opaque iterator'))
pc.abstract_stmts.append((
    lambda s: isinstance(s, ast.Assign) and ast.unparse(s) == 'imports = []', 'see above'))
pc.abstract_stmts.append((
    lambda s: isinstance(s, ast.If) and not s.orelse and len(s.body) == 1 and
    isinstance(s.body[0], ast.Assign) and ast.unparse(s.body[0].targets[0]) == 'bindings' and
    'join(bindings)' in ast.unparse(s.body[0].value) and 'isinstance(bindings' in ast.unparse(s.test),
    'joining a list of lines (string building)'))
pc.assumptions.append('the statements a ConfigParser yields are BindingStatement / '
                      'BlockDeclaration / ImportStatement / IncludeStatement tuples of the '
                      'declared shapes; fetching the next statement may raise (syntax error)')
pc.modifies = set(PARSE_MODIFIES) | {'_PARSE_CONTEXTS'}
_pc_restored = lambda x: _ext_eq(_ctxs(x.new), _ctxs(x.old))
pc.ensure('context_stack_restored', _pc_restored)
pc.exc_ensure('context_stack_restored_after_a_failed_parse', _pc_restored)
def _nested(x):
  return [e for e in x.trace if e.get('call') == 'config.py::parse_config_file']


pc.exc_ensure('a_failed_parse_records_no_imports_of_its_own', lambda x: z3.Or(
    x.env.ghost_inc.e if 'ghost_inc' in x.env else z3.BoolVal(False),
    z3.BoolVal(bool(_nested(x))),
    x.new['_IMPORTS'].dom == x.old['_IMPORTS'].dom))
pc.ghost_vars['inc'] = lambda x: VBool(False)


def _pc_setup(ex, ctx):
  fr = ex.frames[0]
  fr.env['parser'] = VObj(ex.path.fresh_const('parser', sym.Val))
  fr.env['imports'] = VObj(ex.path.fresh_const('imports', sym.Val))
  # shape of the statement tuples (assumed, see above)
  v = z3.Const('v!st', sym.Val)
  vlen = sym.ufun('val_len', sym.Val, sym.IntS)
  isb = sym.ufun('isinst_BindingStatement', sym.Val, sym.BoolS)
  ex.path.assume(sym.forall([v], z3.Implies(isb(v), vlen(v) == 5), patterns=[isb(v)]))
  # ... and their `location` field holds a Location (same assumption; without it the use of
  # `statement.location` as a Location record is an unproved downcast obligation)
  loc = sym.ufun('attr_location', sym.Val, sym.Val)
  ex.path.assume(sym.forall([v], sym.ufun('isinst_Location', sym.Val, sym.BoolS)(loc(v)),
                            patterns=[loc(v)]))
  item = sym.ufun('val_item', sym.Val, sym.IntS, sym.Val)
  ex.path.assume(sym.forall([v], z3.Implies(isb(v), sym.ufun(
      'isinst_Location', sym.Val, sym.BoolS)(item(v, z3.IntVal(4)))), patterns=[isb(v)]))


pc.setup = _pc_setup

def _stmt_inv(x, k):
  # inside `with _parse_scope()`: exactly one context above the caller's stack;
  # nothing recorded in _IMPORTS yet
  mid = _ctxs(x.new)
  old = _ctxs(x.old)
  return z3.And(mid.len == old.len + 1, _ext_eq(mid.prefix(old.len), old),
                _ext_eq(mid, x.ghost['ctxs_inside_scope']),
                z3.Or(x.env.ghost_inc.e,
                      x.new['_IMPORTS'].dom == x.old['_IMPORTS'].dom))


def _stmt_ghost(ex, x, k):
  # ghost: has an include been processed (a nested, complete parse records its imports)?
  if _nested(x):
    ex.frame.env['ghost_inc'] = VBool(True)


pc.loop(('parser', None), [Clause('inside_one_parse_scope_and_own_imports_not_yet_recorded',
                                  _stmt_inv)], ghost=['inc'], ghost_step=_stmt_ghost,
        before=lambda ex, x: x.ghost.__setitem__('ctxs_inside_scope', _ctxs(x.new)))
