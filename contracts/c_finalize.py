"""Contract: finalize (C12; also C08: hook keys are compared as parsed; C11: a rejected hook
binding leaves the configuration untouched)."""
import z3

from pyvc import sym, world
from pyvc.contract import Contract, Clause, register
from pyvc.sym import KBool, KInt, KStr, KVal, KList, KDict, KOpt, VObj
from contracts.a_state import ParsedBindingKey
from contracts.c_binding_api import REG_FIELDS
from contracts.c_config_state import locked, dict_same

PBKDict = KDict(ParsedBindingKey, KVal)
HookResult = KOpt(KDict(KVal, KVal))

c = Contract('config.py::finalize', ['C12', 'C08', 'C11'])
c.modifies = set(REG_FIELDS) | {'_CONFIG', '_CONFIG_PROVENANCE', '_CONFIG_IS_LOCKED'}
c.local_kinds = {'bindings': PBKDict, 'new_bindings': HookResult}
c.opaque_pure = True
c.assumptions.append('finalize hooks do not modify the configuration object they are '
                     'given (documented contract of hooks) nor any other gin state')
c.assumptions.append('the local dict `bindings` is modelled with structural key equality; '
                     'that Python\'s key equality is equality of (scope, complete '
                     'selector, parameter) is the subject of the ParsedBindingKey.__eq__ '
                     '/ __hash__ obligations')
c.require('a_parse_context_exists', lambda x: x.old['_PARSE_CONTEXTS'].len >= 1)
_cfg_same = lambda x: z3.And(dict_same(x.new['_CONFIG'], x.old['_CONFIG']),
                             dict_same(x.new['_CONFIG_PROVENANCE'],
                                       x.old['_CONFIG_PROVENANCE']))
c.raise_case('finalize_twice', 'RuntimeError', when=lambda x: locked(x.old),
             ensures=[('nothing_changes', _cfg_same),
                      ('no_hook_runs', lambda x: z3.BoolVal(
                          not [e for e in x.trace if 'fn' in e]))])
c.exc_ensure('rejection_leaves_config_unmodified', _cfg_same)
c.exc_ensure('rejection_leaves_lock_state', lambda x: locked(x.new) == locked(x.old))
c.ensure('only_when_unlocked', lambda x: z3.Not(locked(x.old)))
c.ensure('locked_afterwards', lambda x: locked(x.new))
c.ensure('every_hook_saw_the_config_as_parsed', lambda x: z3.And(*(
    [e['args'][0].kind.box(e['args'][0]) == x.old['_CONFIG'].kind.box(x.old['_CONFIG'])
     for e in x.trace if 'fn' in e] or [z3.BoolVal(True)])))
c.may_raise_other = True
c.canary('MUSTFAIL_locks_even_when_rejected', lambda x: z3.BoolVal(False))

_unlocked = Clause('unlocked_and_config_untouched', lambda x, k: z3.And(
    z3.Not(locked(x.new)), locked(x.new) == locked(x.old), _cfg_same(x)))
c.loop(('_FINALIZE_HOOKS', None), [_unlocked])
c.loop(('new_bindings.items()', None), [_unlocked])
c.loop(('bindings.items()', None), [Clause('still_unlocked', lambda x, k: z3.And(
    z3.Not(locked(x.new)), z3.Not(locked(x.old))))])
register(c)
