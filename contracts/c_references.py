"""Contracts: references, macros and the scoping wrapper (C04, C05, C15, C09)."""
import z3

from pyvc import sym, world
from pyvc.contract import Contract, Clause, register
from pyvc.sym import (KBool, KInt, KStr, KVal, KList, KOpt, KRecord, VObj, VBool, VStr)
from contracts.a_state import (ScopeList, eff_stack, stack_eq, SelectorMap)
from contracts.b_selector_map import M, matches
from contracts.c_binding_api import covers, known, REG_FIELDS
from contracts.c_config_state import ALL_FIELDS
from contracts.c_scope import pushed

s_ = z3.Const('s!r', sym.Str)
t_ = z3.Const('t!r', sym.Str)
_cat = lambda a, b: sym.ufun('str_concat', sym.Str, sym.Str, sym.Str)(a, b)


def mkref(scoped_selector, evaluate):
  """The ConfigurableReference built for (scoped selector, evaluate) -- opaque."""
  return sym.ufun('configurable_reference', sym.Str, sym.BoolS, sym.Val)(
      scoped_selector, evaluate)


def mkunknown(scoped_selector, evaluate):
  return sym.ufun('unknown_reference', sym.Str, sym.BoolS, sym.Val)(
      scoped_selector, evaluate)


c = Contract('config.py::ConfigurableReference', ['C04', 'C05', 'C15'], kind='assumed')
c.param('scoped_selector', KStr)
c.param('evaluate', KBool)
c.result = KVal
c.modifies = set(REG_FIELDS)      # initialise() may register under dynamic registration
c.ensure('functional', lambda x: x.result.e == mkref(x.a.scoped_selector.e, x.a.evaluate.e))
c.may_raise_other = True          # unknown configurable
c.assumptions.append('constructing a ConfigurableReference resolves the name through the '
                     'current parse context (get_configurable) and raises for unknown names')
register(c)

c = Contract('config.py::_UnknownConfigurableReference', ['C15'], kind='assumed')
c.param('selector', KStr)
c.param('evaluate', KBool)
c.result = KVal
c.ensure('functional', lambda x: x.result.e == mkunknown(x.a.selector.e, x.a.evaluate.e))
c.raises_only_listed = True
register(c)

ParserDelegate = KRecord('ParserDelegate', {'_skip_unknown': KVal}, mutable=True)
world.RECORD_CLASSES['ParserDelegate'] = ('config.py', ParserDelegate)

# -- %name ------------------------------------------------------------------------------------
c = Contract('config.py::ParserDelegate.macro', ['C05'])
c.self_kind = ParserDelegate
c.param('name', KStr)
c.result = KVal
c.modifies = set(REG_FIELDS)


def _nmatch(x, n):
  cs = x.old['_CONSTANTS']
  p = x.a.name.e
  if n == 0:
    return sym.forall([s_], z3.Not(matches(cs, p, s_)))
  if n == 2:
    return z3.Exists([s_, t_], z3.And(s_ != t_, matches(cs, p, s_), matches(cs, p, t_)))


c.raise_case('ambiguous_constant', 'ValueError', when=lambda x: _nmatch(x, 2))
c.ensure('not_ambiguous', lambda x: z3.Not(_nmatch(x, 2)))
c.ensure('no_constant_means_macro_reference', lambda x: z3.Implies(
    _nmatch(x, 0), x.result.e == mkref(_cat(x.a.name.e, sym.str_lit('/gin.macro')),
                                       z3.BoolVal(True))))
c.ensure('unique_constant_means_constant_lookup_by_full_name', lambda x: sym.forall(
    [s_], z3.Implies(matches(x.old['_CONSTANTS'], x.a.name.e, s_),
                     x.result.e == mkref(_cat(s_, sym.str_lit('/gin.constant')),
                                         z3.BoolVal(True)))))
c.may_raise_other = True
register(c)

# -- @name / @name() --------------------------------------------------------------------------
c = Contract('config.py::ParserDelegate.configurable_reference', ['C15', 'C04'])
c.self_kind = ParserDelegate
c.param('scoped_selector', KStr)
c.param('evaluate', KBool)
c.result = KVal
c.modifies = set(REG_FIELDS)
c.require('a_parse_context_exists', lambda x: x.old['_PARSE_CONTEXTS'].len >= 1)


def _unscoped(x):
  parts = world.str_xsplit1('rsplit', x.a.scoped_selector.e, sym.str_lit('/'))
  return parts.arr[parts.len - 1]


def _skipped(x):
  return z3.And(z3.Not(known(x, _unscoped(x))),
                covers(x.self_old.fields['_skip_unknown'].e, _unscoped(x)))


c.ensure('unknown_and_covered_becomes_a_placeholder_keeping_name_and_flag', lambda x: z3.Implies(
    _skipped(x), x.result.e == mkunknown(x.a.scoped_selector.e, x.a.evaluate.e)))
c.ensure('otherwise_a_real_reference', lambda x: z3.Implies(
    z3.Not(_skipped(x)), x.result.e == mkref(x.a.scoped_selector.e, x.a.evaluate.e)))
c.may_raise_other = True
register(c)

# -- evaluation through deepcopy -----------------------------------------------------------------
CRef = KRecord('ConfigurableReference', {
    '_scoped_selector': KStr, '_evaluate': KBool, '_scopes': ScopeList, '_selector': KStr,
    '_configurable': KVal, '_scoped_configurable_fn': KVal}, mutable=True)
world.RECORD_CLASSES['ConfigurableReference'] = ('config.py', CRef)

c = Contract('config.py::ConfigurableReference.__deepcopy__', ['C04'])
c.self_kind = CRef
c.param('memo', KVal)
c.result = KVal
c.modifies = set(ALL_FIELDS) - {'HELD_OPERATIVE_CONFIG_LOCK', 'HELD_SINGLETONS_LOCK'}
c.opaque_pure = False
c.opaque_havoc = set(c.modifies)


def _calls(x):
  return [e for e in x.trace if 'fn' in e]


c.ensure('evaluated_reference_delivers_the_result_of_one_fresh_call', lambda x: z3.Implies(
    x.self_old.fields['_evaluate'].e, z3.BoolVal(
        len(_calls(x)) == 1 and not _calls(x)[0]['args'] and not _calls(x)[0]['kwargs']
        and _calls(x)[0].get('result') is not None) if len(_calls(x)) == 1 else z3.BoolVal(False)))
c.ensure('evaluated_reference_calls_the_scoped_configurable', lambda x: z3.Implies(
    x.self_old.fields['_evaluate'].e, z3.And(
        _calls(x)[0]['fn'].e == x.self_old.fields['_scoped_configurable_fn'].e,
        x.result.e == _calls(x)[0]['result'].e) if len(_calls(x)) == 1 else z3.BoolVal(False)))
c.ensure('plain_reference_delivers_the_configurable_itself_uncalled', lambda x: z3.Implies(
    z3.Not(x.self_old.fields['_evaluate'].e), z3.And(
        z3.BoolVal(len(_calls(x)) == 0),
        x.result.e == x.self_old.fields['_scoped_configurable_fn'].e)))
c.may_raise_other = True
register(c)

URef = KRecord('_UnknownConfigurableReference', {'_selector': KStr, '_evaluate': KBool},
               mutable=True)
world.RECORD_CLASSES['_UnknownConfigurableReference'] = ('config.py', URef)
c = Contract('config.py::_UnknownConfigurableReference.__deepcopy__', ['C15'])
c.self_kind = URef
c.param('memo', KVal)
c.raise_case('always', 'ValueError')
c.raises_only_listed = True
c.ensure('never_returns', lambda x: z3.BoolVal(False))
register(c)

# -- scoped references run under exactly their scope ---------------------------------------------
c = Contract('config.py::_decorate_with_scope.scope_decorator.scoping_wrapper', ['C04', 'C09'])
c.vararg = ('args', KList(KVal))
c.kwarg = ('kwargs', sym.KDict(KStr, KVal))
c.free = {'fn_or_cls': KVal, 'scope_components': ScopeList}
c.result = KVal
c.modifies = set(ALL_FIELDS) - {'HELD_OPERATIVE_CONFIG_LOCK', 'HELD_SINGLETONS_LOCK'}
c.opaque_pure = False
# the wrapped configurable is arbitrary code, but it uses scopes in a balanced way
c.opaque_havoc = set(c.modifies) - {'_SCOPE_MANAGER'}
c.assumptions.append('the wrapped configurable leaves the scope stack as it found it '
                     '(what config_scope guarantees for every with-block, by induction on nesting)')
c.require('stack_non_empty', lambda x: eff_stack(x.old['_SCOPE_MANAGER']).len >= 1)
c.ensure('called_under_exactly_the_reference_scope', lambda x: z3.And(
    z3.BoolVal(len(_calls(x)) == 1),
    pushed(eff_stack(x.old['_SCOPE_MANAGER']),
           eff_stack(_calls(x)[0]['state']['_SCOPE_MANAGER']),
           x.a.scope_components)) if len(_calls(x)) == 1 else z3.BoolVal(False))
_rest = lambda x: stack_eq(eff_stack(x.new['_SCOPE_MANAGER']), eff_stack(x.old['_SCOPE_MANAGER']))
c.ensure('scope_restored_after_the_call', _rest)
c.exc_ensure('scope_restored_when_the_call_raises', _rest)
c.may_raise_other = True
register(c)


# ---- finalize's macro rule (C05, C12): validate_reference / validate_macros_hook ---------------------
# A reference record whose configurable is seen through its selector only.
from contracts.a_state import key2, join_slash
RefV = KRecord('ConfigurableReference', {
    '_scoped_selector': KStr, '_evaluate': KBool, '_scopes': ScopeList, '_selector': KStr,
    '_configurable': KRecord('ConfigurableSel', {'selector': KStr}),
    '_scoped_configurable_fn': KVal}, mutable=False, variant='V')


def ref_key(r):
  return key2(join_slash(r.fields['_scopes']), r.fields['_configurable'].fields['selector'].e)


def ref_valid(ns, r, need_bindings, need_eval):
  return z3.And(z3.Implies(need_bindings, ns['_CONFIG'].dom[ref_key(r)]),
                z3.Implies(need_eval, r.fields['_evaluate'].e))


_MSG = lambda s: isinstance(s, __import__('ast').Assign) and 'err_str' in __import__('ast').unparse(s)

c = Contract('config.py::validate_reference', ['C05', 'C12'])
c.param('ref', RefV)
c.param('require_bindings', KBool, default=lambda ex: VBool(True))
c.param('require_evaluation', KBool, default=lambda ex: VBool(False))
c.raise_case('invalid', 'ValueError', when=lambda x: z3.Not(ref_valid(
    x.old, x.a.ref, x.a.require_bindings.e, x.a.require_evaluation.e)))
c.ensure('returns_only_for_a_bound_and_if_required_evaluated_reference', lambda x: ref_valid(
    x.old, x.a.ref, x.a.require_bindings.e, x.a.require_evaluation.e))
c.raises_only_listed = True
register(c)

c = Contract('config.py::config_str', ['C05'], kind='assumed')
c.param('max_line_length', KInt, default=lambda ex: sym.VInt(80))
c.param('continuation_indent', KInt, default=lambda ex: sym.VInt(4))
c.result = KStr
c.raises_only_listed = True
c.assumptions.append('config_str() used to build an error message: pure, does not raise '
                     '(fix ecf8852; bounded: bC06 `serialises`)')
register(c)

RefList = KList(RefV)
c = Contract('config.py::iterate_references', ['C05'], kind='assumed')
c.param('config', KVal)
c.param('to', KVal, default=lambda ex: VObj(sym.VAL_NONE))
c.result = RefList
c.ensure('functional', lambda x: RefList.box(x.result) == sym.ufun(
    'references_in', sym.Val, sym.Val, RefList.sort())(x.a.config.e, x.a.to.e))
c.raises_only_listed = True
c.assumptions.append('iterate_references(config, to) is a sequence determined by the nested '
                     'structure of config (recursive generator over arbitrary containers: not in '
                     'the subset; bounded: bC05 finalize_rejects incl. references nested in '
                     'lists, tuples, dict keys and values)')
register(c)

c = Contract('config.py::validate_macros_hook', ['C05', 'C12'])
c.param('config', KVal)
c.assume_entry('the_macro_configurable_is_registered', lambda x: M(x.old['_REGISTRY']).dom[
    sym.str_lit('gin.macro')], "gin's own registrations exist from import time on")


def _macro_refs(x):
  w = sym.ufun('attr_wrapper', sym.Val, sym.Val)(M(x.old['_REGISTRY']).val[sym.str_lit('gin.macro')])
  return RefList.unbox(sym.ufun('references_in', sym.Val, sym.Val, RefList.sort())(
      x.a.config.e, w))


i_ = z3.Int('i!vm')
c.ensure('accepts_only_if_every_macro_reference_is_bound_and_evaluated', lambda x: sym.forall(
    [i_], z3.Implies(z3.And(0 <= i_, i_ < _macro_refs(x).len),
                     ref_valid(x.old, RefV.unbox(_macro_refs(x).arr[i_]), z3.BoolVal(True),
                               z3.BoolVal(True))),
    patterns=[_macro_refs(x).arr[i_]]))
c.raise_case('some_macro_reference_is_unbound_or_not_evaluated', 'ValueError', ensures=[
    ('only_if_some_reference_is_invalid', lambda x: z3.Exists([i_], z3.And(
        0 <= i_, i_ < _macro_refs(x).len, z3.Not(ref_valid(
            x.old, RefV.unbox(_macro_refs(x).arr[i_]), z3.BoolVal(True), z3.BoolVal(True))))))])
c.raises_only_listed = True
c.loop(("iterate_references(config, to=_REGISTRY['gin.macro'].wrapper)", None), [Clause(
    'references_seen_so_far_are_valid', lambda x, k: sym.forall(
        [i_], z3.Implies(z3.And(0 <= i_, i_ < k), ref_valid(
            x.old, RefV.unbox(_macro_refs(x).arr[i_]), z3.BoolVal(True), z3.BoolVal(True))),
        patterns=[_macro_refs(x).arr[i_]]))])
register(c)
