"""Contracts: the read APIs that address a configurable by any spelling (C08, C01, C04)."""
import z3

from pyvc import sym, world
from pyvc.contract import Contract, Clause, register
from pyvc.sym import (KBool, KInt, KStr, KVal, KList, KDict, KOpt, KTuple, VObj, VBool, VStr)
from contracts.a_state import (SelectorMap, Configurable, ScopeList, ParamDict, Key2, key2,
                               eff_stack, join_slash)
from contracts.b_selector_map import M, matches
from contracts.c_binding_api import (REG_FIELDS, key_parts, gc_result, _top_ctx, OptCfg,
                                     accepted)
from contracts.c_config_state import ALL_FIELDS, dict_same

s_ = z3.Const('s!q', sym.Str)
t_ = z3.Const('t!q', sym.Str)
OptC = KOpt(Configurable)


def as_cfg(v):
  return sym.coerce(VObj(v), Configurable)


def registry_consistent(ns):
  """State invariant of the registry: the Configurable stored under a name carries that
  name as its `selector` and is a Configurable record (written by _make_configurable / _find_registered_methods only)."""
  m = M(ns['_REGISTRY'])
  return sym.forall([s_], z3.Implies(
      m.dom[s_], z3.And(
          as_cfg(m.val[s_]).fields['selector'].e == s_,
          sym.ufun('isinst_Configurable', sym.Val, sym.BoolS)(m.val[s_]),
          sym.ufun('attr_selector', sym.Val, sym.Val)(m.val[s_]) == sym.val_of_str(s_),
          sym.val_truthy(m.val[s_]))), patterns=[m.val[s_]])


c = Contract('config.py::_inverse_lookup', ['C08', 'C13'], kind='assumed')
c.param('fn_or_cls', KVal)
c.param('allow_decorators', KBool, default=lambda ex: VBool(False))
c.result = OptC
c.ensure('functional_and_registered', lambda x: z3.And(
    OptC.box(x.result) == sym.ufun('inverse_lookup', sym.Val, sym.BoolS, sym.Val, OptC.sort())(
        x.a.fn_or_cls.e, x.a.allow_decorators.e, x.old['REGISTRATION'].e),
    z3.Implies(z3.Not(x.result.is_none),
               M(x.old['_REGISTRY']).dom[x.result.inner.fields['selector'].e])))
c.raises_only_listed = True
c.assumptions.append('_inverse_lookup (inspect.unwrap over __wrapped__ chains) is a function of '
                     'the object and the registration state and returns a registered '
                     'Configurable or None  [bounded: bC13]')
register(c)

# ---- _as_scope_and_selector ----------------------------------------------------------------------
Res = KTuple(ScopeList, KStr)
c = Contract('config.py::_as_scope_and_selector', ['C08', 'C01'])
c.param('fn_or_cls_or_selector', KVal)
c.result = Res
c.modifies = {'_SCOPE_MANAGER'}
c.local_kinds = {'scope': ScopeList}
c.require('stack_non_empty', lambda x: eff_stack(x.old['_SCOPE_MANAGER']).len >= 1)
c.assume_entry('registry_entries_carry_their_own_name', lambda x: registry_consistent(x.old),
               'state invariant of _REGISTRY: written only by _make_configurable and '
               '_find_registered_methods, both storing Configurable(selector=key) under key')


def _is_str(v):
  sym.val_axioms()
  return sym.tag_of(v) == sym.TAG['str']


def _given(x):
  """(scope components written in the string, selector part)."""
  parts = world.str_split(sym.val_as_str(x.a.fn_or_cls_or_selector.e), sym.str_lit('/'))
  return parts


c.ensure('string_spellings_resolve_to_the_unique_full_name', lambda x: z3.Implies(
    _is_str(x.a.fn_or_cls_or_selector.e), sym.forall([s_], z3.Implies(
        matches(x.old['_REGISTRY'], _given(x).arr[_given(x).len - 1], s_),
        x.result.items[1].e == s_))))
c.ensure('scope_is_the_written_one_else_the_active_one', lambda x: z3.Implies(
    _is_str(x.a.fn_or_cls_or_selector.e), z3.If(
        _given(x).len > 1,
        z3.And(x.result.items[0].len == _given(x).len - 1, sym.forall(
            [z3.Int('i!q')], z3.Implies(
                z3.And(0 <= z3.Int('i!q'), z3.Int('i!q') < _given(x).len - 1),
                x.result.items[0].arr[z3.Int('i!q')] == _given(x).arr[z3.Int('i!q')]))),
        ScopeList.box(x.result.items[0]) == z3.Select(
            eff_stack(x.old['_SCOPE_MANAGER']).arr,
            eff_stack(x.old['_SCOPE_MANAGER']).len - 1))))
c.ensure('scope_stack_unchanged', lambda x: eff_stack(x.new['_SCOPE_MANAGER']).kind.eq(
    eff_stack(x.new['_SCOPE_MANAGER']), eff_stack(x.old['_SCOPE_MANAGER'])))
c.raise_case('not_registered', 'ValueError')
c.raise_case('ambiguous', 'KeyError')
c.raises_only_listed = True
register(c)

# ---- get_bindings ------------------------------------------------------------------------------
c = Contract('config.py::get_bindings', ['C08', 'C01', 'C04'])
c.param('fn_or_cls_or_selector', KVal)
c.param('resolve_references', KBool, default=lambda ex: VBool(True))
c.param('inherit_scopes', KBool, default=lambda ex: VBool(True))
c.result = ParamDict
c.modifies = set(ALL_FIELDS) - {'HELD_OPERATIVE_CONFIG_LOCK', 'HELD_SINGLETONS_LOCK'}
c.require('stack_non_empty', lambda x: eff_stack(x.old['_SCOPE_MANAGER']).len >= 1)
c.may_raise_other = True


def _calls(x, q):
  return [e for e in x.trace if e.get('call') == q]


c.ensure('reads_the_bindings_of_the_resolved_name_under_the_resolved_scope', lambda x: z3.And(
    z3.BoolVal(len(_calls(x, 'config.py::_as_scope_and_selector')) == 1 and
               len(_calls(x, 'config.py::_get_bindings')) == 1),
    _calls(x, 'config.py::_get_bindings')[0]['args']['selector'].e ==
    _calls(x, 'config.py::_as_scope_and_selector')[0]['result'].items[1].e)
    if _calls(x, 'config.py::_get_bindings') else z3.BoolVal(False))
c.ensure('unresolved_references_are_returned_as_stored', lambda x: z3.Implies(
    z3.Not(x.a.resolve_references.e), z3.BoolVal(not _calls(x, 'ext::copy.deepcopy'))))
register(c)


# ---- _decorate_with_scope: assumed (dynamic subclassing), but its no-scope branch matters -----------
def scoped_version(cfg_boxed, scope_boxed):
  return sym.ufun('scoped_version', Configurable.sort(), ScopeList.sort(), sym.Val)(
      cfg_boxed, scope_boxed)


c = Contract('config.py::_decorate_with_scope', ['C04', 'C08', 'C13'], kind='assumed')
c.param('configurable_', Configurable)
c.param('scope_components', ScopeList)
c.result = KVal
c.ensure('no_scope_means_the_plain_wrapper_else_a_scoped_version', lambda x: x.result.e == z3.If(
    x.a.scope_components.len > 0,
    scoped_version(Configurable.box(x.a.configurable_), ScopeList.box(x.a.scope_components)),
    x.a.configurable_.fields['wrapper'].e))
c.may_raise_other = True
c.assumptions.append('_decorate_with_scope builds (by dynamic subclassing) a callable that runs '
                     'the wrapper under config_scope(scope_components); its inner '
                     'scoping_wrapper IS under contract  [bounded: bC04, bC13]')
register(c)

c = Contract('config.py::get_configurable', ['C08', 'C13'])
c.param('fn_or_cls_or_selector', KVal)
c.result = KVal
c.modifies = {'_SCOPE_MANAGER'}
c.local_kinds = {'configurable_': Configurable}
c.require('stack_non_empty', lambda x: eff_stack(x.old['_SCOPE_MANAGER']).len >= 1)
c.assume_entry('registry_entries_carry_their_own_name', lambda x: registry_consistent(x.old),
               'state invariant of _REGISTRY (see _as_scope_and_selector)')
c.may_raise_other = True


def _asas(x):
  ev = [e for e in x.trace if e.get('call') == 'config.py::_as_scope_and_selector' and
        'result' in e]
  return ev[0]['result'] if ev else None


c.ensure('delivers_the_registered_configurable_of_the_resolved_name_in_the_resolved_scope',
         lambda x: z3.BoolVal(False) if _asas(x) is None else z3.And(
             M(x.old['_REGISTRY']).dom[_asas(x).items[1].e],
             x.result.e == z3.If(
                 _asas(x).items[0].len > 0,
                 scoped_version(Configurable.box(as_cfg(M(x.old['_REGISTRY']).val[
                     _asas(x).items[1].e])), ScopeList.box(_asas(x).items[0])),
                 as_cfg(M(x.old['_REGISTRY']).val[_asas(x).items[1].e]).fields['wrapper'].e)))
register(c)

# ---- query_parameter --------------------------------------------------------------------------------
from contracts.c_binding_api import parse_result_ok
from contracts.a_state import ParsedBindingKey as PBK

c = Contract('config.py::query_parameter', ['C08', 'C05'])
c.param('binding_key', KStr)
c.result = KVal
c.modifies = set(REG_FIELDS)
c.require('a_parse_context_exists', lambda x: x.old['_PARSE_CONTEXTS'].len >= 1)
c.may_raise_other = True


def _parsed(x):
  ev = [e for e in x.trace if e.get('call') == 'config.py::ParsedBindingKey.parse' and
        'result' in e]
  return ev[0]['result'] if ev else None


def _matching_const(x):
  return [e for e in x.trace if e.get('call') ==
          'selector_map.py::SelectorMap.matching_selectors' and 'result' in e]


c.ensure('returns_the_value_bound_under_scope_complete_selector_parameter', lambda x: (
    z3.BoolVal(True) if _parsed(x) is None else z3.And(
        x.old['_CONFIG'].dom[key2(_parsed(x).fields['scope'].e,
                                  _parsed(x).fields['complete_selector'].e)],
        x.result.e == ParamDict.unbox(x.old['_CONFIG'].val[key2(
            _parsed(x).fields['scope'].e, _parsed(x).fields['complete_selector'].e)]).val[
                _parsed(x).fields['arg_name'].e])))
c.ensure('a_uniquely_matching_constant_name_yields_the_constant_itself', lambda x: (
    z3.BoolVal(True) if _parsed(x) is not None or not _matching_const(x) else z3.And(
        _matching_const(x)[0]['result'].len == 1,
        x.result.e == M(x.old['_CONSTANTS']).val[_matching_const(x)[0]['result'].arr[0]])))
register(c)


# ---- ConfigurableReference.initialize (C04, C15) ----------------------------------------------------
# What ties a reference as written (`@a/b/name`) to the scope it later runs under: the selector is
# the part after the last '/', the scope list is everything before it, the configurable is what
# the CURRENT parse context resolves the selector to, and the callable stored for later delivery is
# `_decorate_with_scope(configurable, exactly those scopes)`.
from contracts.c_references import CRef
i_ = z3.Int('i!q')
from contracts.c_binding_api import gc_result, OptCfg, _top_ctx

c = Contract('config.py::ConfigurableReference.initialize', ['C04', 'C15'])
c.self_kind = CRef
c.modifies = set(REG_FIELDS)
c.modifies_self = ['_scopes', '_selector', '_configurable', '_scoped_configurable_fn']
c.require('a_parse_context_exists', lambda x: x.old['_PARSE_CONTEXTS'].len >= 1)


def _parts(x):
  return world.str_split(x.self_old.fields['_scoped_selector'].e, sym.str_lit('/'))


def _resolved(x):
  sel = _parts(x).arr[_parts(x).len - 1]
  return OptCfg.unbox(gc_result(_top_ctx(x.old), sel, x.old['REGISTRATION'].e,
                                SelectorMap.box(x.old['_REGISTRY'])))


c.ensure('selector_is_the_last_slash_component_and_the_scopes_are_the_rest', lambda x: z3.And(
    x.self_new.fields['_selector'].e == _parts(x).arr[_parts(x).len - 1],
    x.self_new.fields['_scopes'].len == _parts(x).len - 1,
    sym.forall([i_], z3.Implies(z3.And(0 <= i_, i_ < _parts(x).len - 1),
                                x.self_new.fields['_scopes'].arr[i_] == _parts(x).arr[i_]),
               patterns=[x.self_new.fields['_scopes'].arr[i_]])))
c.ensure('bound_to_what_the_current_parse_context_resolves_the_selector_to', lambda x: z3.And(
    z3.Not(_resolved(x).is_none),
    x.self_new.fields['_configurable'].e == sym.to_val(_resolved(x).inner)))
c.ensure('delivery_runs_under_exactly_the_written_scopes', lambda x: (
    x.self_new.fields['_scoped_configurable_fn'].e == z3.If(
        x.self_new.fields['_scopes'].len > 0,
        scoped_version(Configurable.box(_resolved(x).inner),
                       ScopeList.box(x.self_new.fields['_scopes'])),
        _resolved(x).inner.fields['wrapper'].e)))
c.raise_case('unknown_name', 'ValueError', when=lambda x: z3.BoolVal(x.exc.origin == 'stmt'),
             ensures=[
    ('only_if_the_context_does_not_resolve_the_selector', lambda x: _resolved(x).is_none)])
c.may_raise_other = True          # ambiguous name (KeyError), import errors under dynamic registration
register(c)


# ---- _decorate_with_scope, seen through its own body (C04) -------------------------------------------
# Second view: without scope components the plain wrapper is delivered; with them, exactly ONE
# scoped version is built, of the WRAPPER (not of the undecorated function), under the
# configurable's own selector, without mutating the class, methods included.
c = Contract('config.py::_decorate_with_scope#body', ['C04'])
c.target = 'config.py::_decorate_with_scope'
c.param('configurable_', Configurable)
c.param('scope_components', ScopeList)
c.result = KVal
c.modifies = set(REG_FIELDS)
c.may_raise_other = True


def _dec_calls(x):
  return [e for e in x.trace if e.get('call') == 'config.py::_decorate_fn_or_cls']


c.ensure('no_scope_delivers_the_plain_wrapper_without_building_anything', lambda x: z3.Implies(
    x.a.scope_components.len == 0, z3.And(
        z3.BoolVal(len(_dec_calls(x)) == 0),
        x.result.e == x.a.configurable_.fields['wrapper'].e)
    if len(_dec_calls(x)) == 0 else z3.BoolVal(False)))
c.ensure('a_scope_builds_one_scoped_version_of_the_wrapper', lambda x: z3.Implies(
    x.a.scope_components.len > 0,
    z3.BoolVal(False) if len(_dec_calls(x)) != 1 else z3.And(
        sym.to_val(_dec_calls(x)[0]['args']['fn_or_cls']) == x.a.configurable_.fields['wrapper'].e,
        _dec_calls(x)[0]['args']['selector'].e == x.a.configurable_.fields['selector'].e,
        _dec_calls(x)[0]['args']['avoid_class_mutation'].e,
        _dec_calls(x)[0]['args']['decorate_methods'].e,
        x.result.e == _dec_calls(x)[0]['result'].e)))
register(c)
