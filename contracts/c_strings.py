"""Contracts in the NATIVE theory of strings: the splitters of config_parser.py and the
small text builders of ImportStatement / markdown (C03, C06, C19).

These are the only contracts whose specification is about characters; their VCs are
quantifier-free string constraints and go to cvc5 --strings-exp (z3 as second opinion).
"""
import z3

from pyvc import sym, world
from pyvc.contract import Contract, Clause, register
from pyvc.sym import (KBool, KInt, KStrN, KVal, KList, KOpt, KTuple, KRecord, VStr, VBool)

S = z3.StringVal
cat = z3.Concat
has = z3.Contains


def _native(c):
  c.strings = 'native'
  return c


# ---- parse_scoped_selector ---------------------------------------------------------------
Pair = KTuple(KStrN, KStrN)
c = _native(Contract('config_parser.py::parse_scoped_selector#strings', ['C03']))
c.target = 'config_parser.py::parse_scoped_selector'
c.param('scoped_selector', KStrN)
c.result = Pair
c.require('non_empty', lambda x: z3.Length(x.a.scoped_selector.e) >= 1)


def _pss(x):
  s = x.a.scoped_selector.e
  scope, sel = x.result.items[0].e, x.result.items[1].e
  is_macro = z3.PrefixOf(S('%'), s)
  plain = z3.And(
      z3.Implies(z3.Not(has(s, S('/'))), z3.And(scope == S(''), sel == s)),
      z3.Implies(has(s, S('/')), z3.And(s == cat(scope, S('/'), sel),
                                        z3.Not(has(sel, S('/'))))))
  macro = z3.And(s == cat(S('%'), scope), sel == S('macro.value'))
  return z3.If(is_macro, macro, plain)


c.ensure('scope_is_everything_before_the_last_slash', _pss)
c.raise_case('percent_and_dot_value', 'ValueError', ensures=[
    ('only_for_percent_names_ending_in_dot_value', lambda x: z3.And(
        z3.PrefixOf(S('%'), x.a.scoped_selector.e),
        z3.SuffixOf(S('.value'), x.a.scoped_selector.e)))])
c.ensure('percent_names_ending_in_dot_value_are_rejected', lambda x: z3.Not(z3.And(
    z3.PrefixOf(S('%'), x.a.scoped_selector.e),
    z3.SuffixOf(S('.value'), x.a.scoped_selector.e))))
c.raises_only_listed = True
register(c)

# ---- parse_binding_key ---------------------------------------------------------------------
Triple = KTuple(KStrN, KStrN, KStrN)
c = _native(Contract('config_parser.py::parse_binding_key#strings', ['C03', 'C11']))
c.target = 'config_parser.py::parse_binding_key'
c.param('binding_key', KStrN)
c.result = Triple
c.require('non_empty', lambda x: z3.Length(x.a.binding_key.e) >= 1)
c.inline_ok = {'config_parser.py::parse_scoped_selector'}


def _pbk(x):
  k = x.a.binding_key.e
  scope, sel, arg = [i.e for i in x.result.items]
  is_macro = z3.PrefixOf(S('%'), k)
  # AFTER: the text after the last '/' (the whole key when there is none)
  n = z3.Length(k)
  after = z3.If(has(k, S('/')), z3.SubString(k, z3.Length(scope) + 1, n - z3.Length(scope) - 1), k)
  scope_part = z3.If(has(k, S('/')),
                     z3.And(k == cat(scope, S('/'), after), z3.Not(has(after, S('/')))),
                     scope == S(''))
  dot_case = z3.And(after == cat(sel, S('.'), arg), z3.Not(has(arg, S('.'))))
  nodot_case = z3.And(after == sel, arg == S(''), z3.Not(has(sel, S('.'))))
  plain = z3.And(scope_part, z3.If(has(after, S('.')), dot_case, nodot_case))
  macro = z3.And(k == cat(S('%'), scope), sel == S('macro'), arg == S('value'))
  return z3.If(is_macro, macro, plain)


c.ensure('splits_into_scope_selector_parameter', _pbk)
c.raise_case('percent_and_dot_value', 'ValueError', ensures=[
    ('only_for_percent_names_ending_in_dot_value', lambda x: z3.And(
        z3.PrefixOf(S('%'), x.a.binding_key.e),
        z3.SuffixOf(S('.value'), x.a.binding_key.e)))])
c.raises_only_listed = True
register(c)

# ---- ImportStatement -----------------------------------------------------------------------
Imp = KRecord('ImportStatement', {'module': KStrN, 'is_from': KBool, 'alias': KOpt(KStrN),
                                  'location': KVal})
Imp.tuple_order = ['module', 'is_from', 'alias', 'location']
world.RECORD_CLASSES['ImportStatement'] = ('config_parser.py', Imp)


def _alias(x):
  a = x.self_old.fields['alias']
  return z3.And(z3.Not(a.is_none), z3.Length(a.inner.e) > 0), a.inner.e


c = _native(Contract('config_parser.py::ImportStatement.format', ['C06', 'C19', 'C03']))
c.self_kind = Imp
c.result = KStrN


def _fmt(x):
  m = x.self_old.fields['module'].e
  has_alias, al = _alias(x)
  a, b = z3.String('fm!a'), z3.String('fm!b')
  tail = z3.If(has_alias, cat(S(' as '), al), S(''))
  frm = z3.Exists([a, b], z3.And(m == cat(a, S('.'), b), z3.Not(has(b, S('.'))),
                                 x.result.e == cat(S('from '), a, S(' import '), b, tail)))
  plain = x.result.e == cat(S('import '), m, tail)
  return z3.If(x.self_old.fields['is_from'].e, frm, plain)


c.ensure('spells_the_statement_in_its_own_form', _fmt)
c.raise_case('from_import_without_a_dot', 'ValueError', ensures=[
    ('only_for_from_imports_of_an_undotted_module', lambda x: z3.And(
        x.self_old.fields['is_from'].e,
        z3.Not(has(x.self_old.fields['module'].e, S('.')))))])
c.raises_only_listed = True
register(c)

c = _native(Contract('config_parser.py::ImportStatement.bound_name', ['C19', 'C06']))
c.self_kind = Imp
c.result = KStrN


def _bound(x):
  m = x.self_old.fields['module'].e
  has_alias, al = _alias(x)
  r = x.result.e
  a = z3.String('bn!a')
  last = z3.If(has(m, S('.')), z3.Exists([a], z3.And(m == cat(a, S('.'), r),
                                                     z3.Not(has(r, S('.'))))), r == m)
  first = z3.If(has(m, S('.')), z3.Exists([a], z3.And(m == cat(r, S('.'), a),
                                                      z3.Not(has(r, S('.'))))), r == m)
  return z3.If(has_alias, r == al, z3.If(x.self_old.fields['is_from'].e, last, first))


c.ensure('alias_else_last_component_for_from_else_first_component', _bound)
c.raises_only_listed = True
register(c)

c = _native(Contract('config_parser.py::ImportStatement.partial_path', ['C19']))
c.self_kind = Imp
c.result = KStrN


def _ppath(x):
  m = x.self_old.fields['module'].e
  has_alias, al = _alias(x)
  r = x.result.e
  a, b = z3.String('pp!a'), z3.String('pp!b')
  with_alias = z3.If(has(m, S('.')), z3.Exists([a, b], z3.And(
      m == cat(a, S('.'), b), z3.Not(has(b, S('.'))), r == cat(a, S('.'), al))), r == al)
  first = z3.If(has(m, S('.')), z3.Exists([a], z3.And(m == cat(r, S('.'), a),
                                                      z3.Not(has(r, S('.'))))), r == m)
  return z3.If(has_alias, with_alias, z3.If(x.self_old.fields['is_from'].e, r == m, first))


c.ensure('module_path_with_the_alias_substituted_for_its_last_component', _ppath)
c.raises_only_listed = True
register(c)

# ---- markdown.process ---------------------------------------------------------------------
c = _native(Contract('config.py::markdown.process', ['C06']))
c.param('line', KStrN)
c.result = KStrN
c.ensure('binding_lines_are_kept_verbatim', lambda x: z3.Implies(
    z3.Not(z3.PrefixOf(S('#'), x.a.line.e)), x.result.e == cat(S('    '), x.a.line.e)))
c.raises_only_listed = True
register(c)
