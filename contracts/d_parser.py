"""Contracts: the token-cursor core of ConfigParser (C02, C03, C16).

The tokenizer is external.  The parser state is viewed as an (unknown, arbitrary) token
sequence TOK(gen, i) and a ghost cursor `ghost_pos` (index of the current token);
`next(self._token_generator)` is "move the cursor one step" and may raise (tokenizer error,
end of input).  What is proved is the classical contract of a recursive-descent parser's
building blocks: how far each function moves the cursor, that an alternative which fails
leaves the cursor where it was, and which raw text a scoped name is accepted from.
"""
import ast
import z3

from pyvc import sym, world
from pyvc.contract import Contract, Clause, register
from pyvc.sym import (KBool, KInt, KStr, KVal, KList, KOpt, KTuple, KRecord, VObj, VBool, VInt,
                      VStr, VRecord, VExc, PyRaise, VTuple)
from contracts.c_parse_loop import Location

IntPair = KTuple(KInt, KInt)
Token = KRecord('TokenInfo', {'type': KInt, 'string': KStr, 'start': IntPair, 'end': IntPair,
                              'line': KStr})
Token.tuple_order = ['type', 'string', 'start', 'end', 'line']
world.RECORD_CLASSES['TokenInfo'] = ('<tokenize>', Token)

Parser = KRecord('ConfigParser', {
    '_token_generator': KVal, '_filename': KOpt(KStr), '_current_token': Token,
    '_delegate': KVal, '_within_block': KBool, '_statements_queue': KList(KVal),
    'ghost_pos': KInt}, mutable=True)
world.RECORD_CLASSES['ConfigParser'] = ('config_parser.py', Parser)

TOKTYPES = ['ENDMARKER', 'NAME', 'NUMBER', 'STRING', 'NEWLINE', 'INDENT', 'DEDENT', 'OP',
            'COMMENT', 'NL', 'ERRORTOKEN']


def toktype(name):
  return z3.Int('tokenize_' + name)


def toktypes_distinct():
  return z3.Distinct(*[toktype(n) for n in TOKTYPES])


for _n in TOKTYPES:
  world.MODULE_ATTRS[('tokenize', _n)] = (lambda n: lambda ex: VInt(toktype(n)))(_n)


def TOK(gen, i):
  return Token.unbox(sym.ufun('token_at', sym.Val, sym.IntS, Token.sort())(gen, i))


def cur(p):
  return p.fields['_current_token']


def pos(p):
  return p.fields['ghost_pos'].e


def gen(p):
  return p.fields['_token_generator'].e


def synced(p):
  """The current token is the one at the ghost cursor."""
  return Token.box(cur(p)) == Token.box(TOK(gen(p), pos(p)))


def is_blank_error(t):
  blank = sym.ufun('str_contains', sym.Str, sym.Str, sym.BoolS)(sym.str_lit(' \t'),
                                                                 t.fields['string'].e)
  return z3.And(t.fields['type'].e == toktype('ERRORTOKEN'), blank)


def _next_hook(ex, name, args, kwargs, node):
  """`next(self._token_generator)`: the token after the cursor; may raise."""
  if name != 'next':
    return None
  selfw = ex.frames[0].env.get('self')
  if selfw is None or not isinstance(args[0], VObj):
    return None
  if ex.path.choose(2, 'tokenizer-raises') == 1:
    cls = ex.path.fresh_const('exccls', sym.ExcCls)
    raise PyRaise(VExc(cls, ident=ex.path.fresh_const('exc', sym.Val),
                       note='raised by the tokenizer (bad token / end of input)'))
  selfw.fields['ghost_pos'] = VInt(pos(selfw) + 1)
  return TOK(args[0].e, pos(selfw))


def _parser_contract(name, props):
  c = Contract('config_parser.py::ConfigParser.' + name, props)
  c.self_kind = Parser
  c.builtin_hook = _next_hook
  c.assume_entry('token_types_are_distinct', lambda x: toktypes_distinct(),
                 'the token type constants of the tokenize module are pairwise distinct')
  c.require('cursor_in_sync', lambda x: synced(x.self_old))
  c.may_raise_other = True          # the tokenizer may raise at any advance
  return c


i_ = z3.Int('i!p')
i2_ = z3.Int('i2!p')

# ---- _advance_one_token -------------------------------------------------------------------
c = _parser_contract('_advance_one_token', ['C02', 'C03', 'C16'])
c.modifies_self = ['_current_token', 'ghost_pos']
c.ensure('moves_forward_to_the_next_real_token', lambda x: z3.And(
    pos(x.self_new) > pos(x.self_old), synced(x.self_new),
    z3.Not(is_blank_error(cur(x.self_new))),
    sym.forall([i_], z3.Implies(z3.And(pos(x.self_old) < i_, i_ < pos(x.self_new)),
                                is_blank_error(TOK(gen(x.self_old), i_))))))
c.ensure('generator_unchanged', lambda x: gen(x.self_new) == gen(x.self_old))
c.loop(("self._current_token.type == tokenize.ERRORTOKEN and self._current_token.string in ' \\t'",
        None), [Clause('skipped_only_blank_error_tokens', lambda x, k: z3.And(
            pos(x.env.self) > pos(x.self_old), synced(x.env.self),
            gen(x.env.self) == gen(x.self_old),
            sym.forall([i_], z3.Implies(z3.And(pos(x.self_old) < i_, i_ < pos(x.env.self)),
                                        is_blank_error(TOK(gen(x.self_old), i_))))))],
       havoc=['self._current_token', 'self.ghost_pos'])
register(c)


# ---- _skip ----------------------------------------------------------------------------------
def _type_in(t, lst):
  n = z3.simplify(lst.len)
  if z3.is_int_value(n) and n.as_long() <= 8:      # a literal list: plain disjunction
    alts = [z3.simplify(lst.arr[k]) == t for k in range(n.as_long())]
    return z3.Or(*alts) if alts else z3.BoolVal(False)
  return z3.Exists([i2_], z3.And(0 <= i2_, i2_ < lst.len, lst.arr[i2_] == t))


c = _parser_contract('_skip', ['C02', 'C03', 'C16'])
c.param('skippable_token_types', KList(KInt))
c.modifies_self = ['_current_token', 'ghost_pos']
c.ensure('stops_at_the_first_token_not_to_be_skipped', lambda x: z3.And(
    pos(x.self_new) >= pos(x.self_old), synced(x.self_new),
    gen(x.self_new) == gen(x.self_old),
    z3.Not(_type_in(cur(x.self_new).fields['type'].e, x.a.skippable_token_types)),
    (pos(x.self_new) == pos(x.self_old)) == z3.Not(
        _type_in(cur(x.self_old).fields['type'].e, x.a.skippable_token_types))))
c.loop(('self._current_token.type in skippable_token_types', None), [Clause(
    'cursor_only_moves_forward', lambda x, k: z3.And(
        pos(x.env.self) >= pos(x.self_old), synced(x.env.self),
        gen(x.env.self) == gen(x.self_old),
        z3.Implies(pos(x.env.self) == pos(x.self_old),
                   Token.box(cur(x.env.self)) == Token.box(cur(x.self_old))),
        z3.Implies(pos(x.env.self) > pos(x.self_old),
                   _type_in(cur(x.self_old).fields['type'].e, x.a.skippable_token_types))))],
       havoc=['self._current_token', 'self.ghost_pos'])
register(c)

# ---- _skip_whitespace_and_comments / _advance -------------------------------------------------
c = _parser_contract('_skip_whitespace_and_comments', ['C02', 'C03', 'C16'])
c.modifies_self = ['_current_token', 'ghost_pos']
c.local_kinds = {'skippable_tokens': KList(KInt)}


def _is_ws(x, t):
  ty = t.fields['type'].e
  base = z3.Or(ty == toktype('COMMENT'), ty == toktype('NL'))
  return z3.If(x.self_old.fields['_within_block'].e, base,
               z3.Or(base, ty == toktype('INDENT'), ty == toktype('DEDENT')))


c.ensure('stops_at_the_first_significant_token', lambda x: z3.And(
    pos(x.self_new) >= pos(x.self_old), synced(x.self_new), gen(x.self_new) == gen(x.self_old),
    z3.Not(_is_ws(x, cur(x.self_new))),
    (pos(x.self_new) == pos(x.self_old)) == z3.Not(_is_ws(x, cur(x.self_old)))))
c.ensure('indentation_is_significant_inside_a_block', lambda x: z3.Implies(
    x.self_old.fields['_within_block'].e, z3.And(
        cur(x.self_new).fields['type'].e != toktype('COMMENT'),
        cur(x.self_new).fields['type'].e != toktype('NL'))))
register(c)

c = _parser_contract('_advance', ['C02', 'C03'])
c.modifies_self = ['_current_token', 'ghost_pos']
c.ensure('consumes_at_least_the_current_token', lambda x: z3.And(
    pos(x.self_new) > pos(x.self_old), synced(x.self_new), gen(x.self_new) == gen(x.self_old)))
register(c)

# ---- _expect ----------------------------------------------------------------------------------
c = _parser_contract('_expect', ['C03', 'C16'])
c.param('expected', KVal)
c.param('err_msg', KStr)
c.modifies_self = ['_current_token', 'ghost_pos']
c.abstract_stmts.append((lambda s: isinstance(s, ast.Assign) and
                         'tok_name' in ast.unparse(s), 'error-message text'))
c.local_kinds = {'actual_type_name': KStr, 'actual_value': KStr, 'received': KStr}
c.require('expected_is_a_token_text_or_a_token_type', lambda x: z3.Or(
    sym.tag_of(x.a.expected.e) == sym.TAG['str'], sym.tag_of(x.a.expected.e) == sym.TAG['int']))


def _val_eq(a, b):
  return sym.ufun('val_eq', sym.Val, sym.Val, sym.BoolS)(a, b)


_s = z3.Const('s!ex', sym.Str)
_n = z3.Int('n!ex')
c.assume_entry('expected_compares_like_the_builtin_it_is', lambda x: z3.And(
    sym.forall([_s], _val_eq(sym.val_of_str(_s), x.a.expected.e) ==
               (sym.val_of_str(_s) == x.a.expected.e), patterns=[sym.val_of_str(_s)]),
    sym.forall([_n], _val_eq(sym.val_of_int(_n), x.a.expected.e) ==
               (sym.val_of_int(_n) == x.a.expected.e), patterns=[sym.val_of_int(_n)])),
    '`expected` is a str or int literal at every call site: == against a token text / type is '
    'value equality (no user-defined __eq__)')


def _tok_matches(t, expected):
  """The token is the expected text (str) / has the expected type (int)."""
  return z3.If(sym.tag_of(expected) == sym.TAG['str'],
               sym.to_val(t.fields['string']) == expected,
               sym.to_val(t.fields['type']) == expected)


c.ensure('the_current_token_matched', lambda x: _tok_matches(cur(x.self_old), x.a.expected.e))
c.ensure('consumes_exactly_one_token_when_it_matches', lambda x: z3.And(
    pos(x.self_new) > pos(x.self_old), synced(x.self_new), gen(x.self_new) == gen(x.self_old),
    sym.forall([i_], z3.Implies(z3.And(pos(x.self_old) < i_, i_ < pos(x.self_new)),
                                is_blank_error(TOK(gen(x.self_old), i_))))))
c.raise_case('mismatch', 'SyntaxError', ensures=[
    ('cursor_stays_when_the_token_does_not_match', lambda x: z3.Implies(
        z3.Not(_tok_matches(cur(x.self_old), x.a.expected.e)),
        z3.And(pos(x.self_new) == pos(x.self_old),
               Token.box(cur(x.self_new)) == Token.box(cur(x.self_old)))))])
register(c)

# ---- _parse_selector: the raw-text rule (C03) -------------------------------------------------------


def str_slice(line, a, b):
  return sym.ufun('str_slice', sym.Str, sym.IntS, sym.IntS, sym.Str)(line, a, b)


def _slice_hook(ex, obj, lo, hi, step, node):
  if isinstance(obj, VStr) and step is None and isinstance(lo, VInt) and isinstance(hi, VInt):
    return VStr(str_slice(obj.e, lo.e, hi.e))
  return None


c = _parser_contract('_parse_selector', ['C03'])
c.param('scoped', KBool, default=lambda ex: VBool(True))
c.param('allow_periods_in_scope', KBool, default=lambda ex: VBool(False))
c.result = KStr
c.modifies_self = ['_current_token', 'ghost_pos']
c.local_kinds = {'selector_parts': KList(KStr), 'scope_parts': KList(KStr), 'step_parity': KInt}
c.slice_hook = _slice_hook
c.ghost_vars['lastpos'] = lambda x: VInt(-1)


def _first(x):
  return cur(x.self_old)


def _sel_inv(x, k):
  p = x.env.self
  parts = x.env.selector_parts
  lastpos = x.env.ghost_lastpos.e
  return z3.And(
      synced(p), gen(p) == gen(x.self_old), pos(p) >= pos(x.self_old),
      z3.Or(x.env.step_parity.e == 0, x.env.step_parity.e == 1),
      parts.len >= 0, (parts.len == 0) == (pos(p) == pos(x.self_old)),
      z3.Implies(parts.len == 0, z3.And(
          x.env.end_char_num.e == _first(x).fields['end'].items[1].e,
          x.env.step_parity.e == 0,
          Token.box(cur(p)) == Token.box(_first(x)))),
      z3.Implies(parts.len > 0, z3.And(
          pos(x.self_old) <= lastpos, lastpos < pos(p),
          x.env.end_char_num.e == TOK(gen(x.self_old), lastpos).fields['end'].items[1].e)))


def _sel_body_start(ex, x, k):
  ex.frame.env['ghost_lastpos'] = VInt(pos(x.env.self))


c.loop(("step_parity == 0 and self._current_token.type == tokenize.NAME or "
        "(step_parity == 1 and self._current_token.string in ('/', '.'))", None),
       [Clause('parts_are_the_consumed_tokens_and_end_is_the_last_one', _sel_inv)],
       havoc=['self._current_token', 'self.ghost_pos'], ghost=['lastpos'],
       body_start=_sel_body_start)
def _raw_text_rule(x):
  def at(lp):
    return z3.And(lp >= pos(x.self_old), lp < pos(x.self_new), x.result.e == str_slice(
        _first(x).fields['line'].e, _first(x).fields['start'].items[1].e,
        TOK(gen(x.self_old), lp).fields['end'].items[1].e))
  if 'ghost_lastpos' in x.env:          # in the function's own proof: the ghost witness
    return at(x.env.ghost_lastpos.e)
  lp = z3.Int('lp!sel')                  # at call sites: some consumed token is the last one
  return z3.Exists([lp], at(lp))


c.ensure('accepted_only_if_it_equals_the_raw_text_between_first_and_last_token', _raw_text_rule)
c.ensure('is_the_concatenation_of_the_consumed_tokens', lambda x: (
    x.result.e == world.str_join(sym.str_lit(''), x.env.selector_parts))
    if 'selector_parts' in x.env and 'ghost_lastpos' in x.env else z3.BoolVal(True))
c.ensure('starts_with_a_name', lambda x: _first(x).fields['type'].e == toktype('NAME'))
c.ensure('cursor_moved_past_the_name', lambda x: z3.And(
    pos(x.self_new) > pos(x.self_old), synced(x.self_new)))
c.ensure('unscoped_names_contain_no_slash_parts', lambda x: z3.Implies(
    z3.Not(x.a.scoped.e), world.str_split(x.result.e, sym.str_lit('/')).len == 1))
c.raise_case('malformed', 'SyntaxError')
register(c)


# ==== value parsing: cursor discipline of the alternatives (C02) ================================
ResPair = KTuple(KBool, KVal)


def _moved(x):
  return z3.And(pos(x.self_new) > pos(x.self_old), synced(x.self_new),
                gen(x.self_new) == gen(x.self_old))


def _unmoved(x):
  return z3.And(pos(x.self_new) == pos(x.self_old), synced(x.self_new),
                gen(x.self_new) == gen(x.self_old),
                Token.box(cur(x.self_new)) == Token.box(cur(x.self_old)))


def _alt_clauses(c):
  c.result = ResPair
  c.modifies_self = ['_current_token', 'ghost_pos']
  c.ensure('failure_consumes_nothing', lambda x: z3.Implies(
      z3.Not(x.result.items[0].e), _unmoved(x)))
  c.ensure('success_consumes_something', lambda x: z3.Implies(x.result.items[0].e, _moved(x)))


world.EXTERNALS['ast.literal_eval'] = 'ext::ast.literal_eval'
c = Contract('ext::ast.literal_eval', ['C02'], kind='assumed')
c.param('text', KStr)
c.result = KVal
c.ensure('functional', lambda x: x.result.e == sym.ufun('python_literal_eval', sym.Str,
                                                        sym.Val)(x.a.text.e))
c.may_raise_other = True
c.assumptions.append('ast.literal_eval is a function of its text (the oracle of C02) and raises '
                     'for text that is not a literal  [agreement with CPython: bounded bC02]')
register(c)

# -- _maybe_parse_basic_type ----------------------------------------------------------------------
c = _parser_contract('_maybe_parse_basic_type', ['C02'])
_alt_clauses(c)
c.local_kinds = {'token_value': KStr, 'basic_type_tokens': KList(KInt), 'value': KVal}


def _is_basic(t):
  ty = t.fields['type'].e
  return z3.Or(ty == toktype('NAME'), ty == toktype('NUMBER'), ty == toktype('STRING'))


def _minus(t):
  return t.fields['string'].e == sym.str_lit('-')


c.ensure('fails_only_if_the_current_token_cannot_start_a_literal', lambda x: z3.Implies(
    z3.Not(x.result.items[0].e), z3.And(z3.Not(_minus(cur(x.self_old))),
                                         z3.Not(_is_basic(cur(x.self_old))))))
c.raise_case('not_a_literal', 'SyntaxError')
c.loop(('continue_parsing', None), [Clause('cursor_only_moves_forward', lambda x, k: z3.And(
    synced(x.env.self), gen(x.env.self) == gen(x.self_old), pos(x.env.self) >= pos(x.self_old),
    z3.Or(x.env.continue_parsing.e, pos(x.env.self) > pos(x.self_old))))],
       havoc=['self._current_token', 'self.ghost_pos'])
register(c)

# -- references and macros ------------------------------------------------------------------------
world.VAL_METHOD_CONTRACTS['configurable_reference'] = 'ext::delegate.configurable_reference'
world.VAL_METHOD_CONTRACTS['macro'] = 'ext::delegate.macro'
for _nm, _ps in (('configurable_reference', [('scoped_selector', KStr), ('evaluate', KBool)]),
                 ('macro', [('name', KStr)])):
  c = Contract('ext::delegate.' + _nm, ['C02', 'C05'], kind='assumed')
  c.param('self', KVal)
  for _p, _k in _ps:
    c.param(_p, _k)
  c.result = KVal
  c.may_raise_other = True
  c.assumptions.append('the parser delegate is an arbitrary object (its real implementations '
                       'are under contract in c_references.py)')
  register(c)

for _nm in ('_maybe_parse_configurable_reference', '_maybe_parse_macro'):
  c = _parser_contract(_nm, ['C02', 'C03'])
  _alt_clauses(c)
  register(c)


# -- containers, values ------------------------------------------------------------------------------
c = _parser_contract('_maybe_parse_container', ['C02'])
_alt_clauses(c)
c.local_kinds = {'values': KList(KVal)}


def _opens(t):
  s = t.fields['string'].e
  return z3.Or(s == sym.str_lit('{'), s == sym.str_lit('('), s == sym.str_lit('['))


c.ensure('fails_exactly_when_the_current_token_is_not_an_opening_bracket',
         lambda x: x.result.items[0].e == _opens(cur(x.self_old)))
c.raise_case('bad_separator', 'SyntaxError')
# C02 ("near misses of a Python literal are rejected"): `[1 2]` is not a literal.  Ghost `sep`:
# did the iteration just finished end by consuming a ',' (its last call was _advance, entered with
# the current token ',')?  An item may only be followed by that, or by the closing bracket.
c.ghost_vars['sep'] = lambda x: VBool(False)


def _cont_body_start(ex, x, k):
  x.ghost['container_trace_len_at_body_start'] = len(x.trace)


def _cont_ghost_step(ex, x, k):
  evs = x.trace[x.ghost.get('container_trace_len_at_body_start', 0):]
  sep = z3.BoolVal(False)
  if evs and evs[-1].get('call') == 'config_parser.py::ConfigParser._advance' and \
      'self' in evs[-1]['args']:
    sep = cur(evs[-1]['args']['self']).fields['string'].e == sym.str_lit(',')
  ex.frame.env['ghost_sep'] = VBool(sep)


c.loop(('self._current_token.string != close_bracket', None), [Clause(
    'cursor_only_moves_forward', lambda x, k: z3.And(
        synced(x.env.self), gen(x.env.self) == gen(x.self_old),
        pos(x.env.self) > pos(x.self_old))), Clause(
            'items_are_separated_by_commas', lambda x, k: z3.Or(
                x.env['values'].len == 0, x.env.ghost_sep.e,
                cur(x.env.self).fields['string'].e == x.env.close_bracket.e))],
       havoc=['self._current_token', 'self.ghost_pos'], ghost=['sep'],
       body_start=_cont_body_start, ghost_step=_cont_ghost_step)
register(c)

c = _parser_contract('_parse_dict_item', ['C02'])
c.result = KTuple(KVal, KVal)
c.modifies_self = ['_current_token', 'ghost_pos']
c.ensure('consumes_key_colon_value', _moved)
c.raise_case('missing_colon', 'SyntaxError')
register(c)

c = _parser_contract('parse_value', ['C02', 'C03'])
c.result = KVal
c.modifies_self = ['_current_token', 'ghost_pos']
c.ensure('some_alternative_consumed_the_value', _moved)
c.raise_case('no_alternative_applies', 'SyntaxError', when=lambda x: z3.BoolVal(
    x.exc.origin.startswith('inlined') or x.exc.origin == 'stmt'), ensures=[
        ('nothing_was_consumed_when_every_alternative_failed', lambda x: z3.Or(
            z3.BoolVal(x.exc.origin == 'callee'), _unmoved(x)))])
register(c)


# ==== statements (C03, C16) =========================================================================
def mk_stmt(cls, *args):
  return sym.ufun('mk_' + cls, *([a.sort() for a in args] + [sym.Val]))(*args)


def stmt_class(v):
  """Which statement class an opaque statement value is an instance of."""
  return sym.ufun('stmt_class', sym.Val, sym.Str)(v)


def stmt_field(cls, name, kind):
  """Field projection of a statement NamedTuple."""
  return sym.ufun(f'fld_{cls}_{name}', sym.Val, kind.sort())


for _cls, _ps in (('BindingStatement', [('scope', KStr), ('selector', KStr), ('arg_name', KStr),
                                        ('value', KVal), ('location', Location)]),
                  ('IncludeStatement', [('filename', KVal), ('location', Location)]),
                  ('BlockDeclaration', [('scope', KStr), ('selector', KStr),
                                        ('location', Location)]),
                  ('ImportStatementP', [('module', KStr), ('is_from', KBool),
                                        ('alias', KOpt(KStr)), ('location', Location)])):
  _real = 'ImportStatement' if _cls == 'ImportStatementP' else _cls
  c = Contract('config_parser.py::' + _real + ('#ctor' if _cls == 'ImportStatementP' else ''),
               ['C03'], kind='assumed')
  for _p, _k in _ps:
    c.param(_p, _k)
  c.result = KVal
  c.ensure('is_the_tuple_of_its_fields', (lambda cls, ps: lambda x: z3.And(
      x.result.e == mk_stmt(cls, *[(ps_k.box(sym.coerce(x.a[p], ps_k))) for p, ps_k in ps]),
      stmt_class(x.result.e) == sym.str_lit(cls),
      z3.And(*[stmt_field(cls, p, ps_k)(x.result.e) == ps_k.box(sym.coerce(x.a[p], ps_k))
               for p, ps_k in ps]),
      sym.val_truthy(x.result.e)))(_real, _ps))
  c.raises_only_listed = True
  c.assumptions.append('NamedTuple construction is field-wise (typing.NamedTuple)')
  register(c)

# helpers of parse_statement that stay assumed for now (bounded: bC03 / bC16)
c = _parser_contract('_parse_identifier', ['C03'])
c.result = KStr
c.modifies_self = ['_current_token', 'ghost_pos']
c.ensure('consumes_the_identifier', _moved)
c.ensure('is_the_current_token_text_and_an_identifier', lambda x: z3.And(
    x.result.e == cur(x.self_old).fields['string'].e,
    world.re_match('IDENTIFIER_RE', x.result.e)))
c.raise_case('not_an_identifier', 'SyntaxError')
register(c)

c = _parser_contract('_parse_import', ['C03'])
c.param('keyword', KStr)
c.param('statement_location', Location)
c.result = KVal
c.modifies_self = ['_current_token', 'ghost_pos']
c.local_kinds = {'alias': KOpt(KStr), 'module': KStr}
c.use_ctor_contracts = True
c.require('keyword_is_import_or_from', lambda x: z3.Or(
    x.a.keyword.e == sym.str_lit('import'), x.a.keyword.e == sym.str_lit('from')))


def _results_of(x, qual):
  return [e['result'] for e in x.trace if e.get('call') == qual and 'result' in e]


def _import_composed(x):
  """The statement is built from what the sub-parsers returned: `import <sel> [as <id>]` or
  `from <sel> import <id> [as <id>]`; only meaningful inside the proof of _parse_import (at a
  call site the callee's trace is not visible and the clause reads True)."""
  sels = _results_of(x, 'config_parser.py::ConfigParser._parse_selector')
  ids = _results_of(x, 'config_parser.py::ConfigParser._parse_identifier')
  if len(sels) != 1:
    return z3.BoolVal(True)
  is_from = x.a.keyword.e == sym.str_lit('from')
  kopt = KOpt(KStr)
  out = []
  for n_ids, frm, has_alias in ((0, False, False), (1, False, True), (1, True, False),
                                (2, True, True)):
    if len(ids) != n_ids:
      continue
    module = sels[0].e
    if frm:
      module = world.str_concat(world.str_concat(module, sym.str_lit('.')), ids[0].e)
    alias = kopt.box(sym.VOpt(kopt, z3.BoolVal(not has_alias),
                              ids[-1] if has_alias else VStr(sym.str_lit(''))))
    out.append(z3.Implies(is_from == frm, x.result.e == mk_stmt(
        'ImportStatement', module, is_from, alias, Location.box(x.a.statement_location))))
  return z3.And(*out) if out else z3.BoolVal(False)


c.ensure('consumes_the_statement', _moved)
c.ensure('is_composed_of_what_the_sub_parsers_returned', _import_composed)
c.raise_case('malformed', 'SyntaxError')
register(c)

# abstract view of parse_scoped_selector (its string semantics are proved in c_strings.py)
PSS = KTuple(KStr, KStr)


def pss(s):
  return sym.ufun('parse_scoped_selector_result', sym.Str, PSS.sort())(s)


c = Contract('config_parser.py::parse_scoped_selector', ['C03'], kind='assumed')
c.param('scoped_selector', KStr)
c.result = PSS
c.ensure('functional', lambda x: PSS.box(x.result) == pss(x.a.scoped_selector.e))
c.may_raise_other = True
c.assumptions.append('abstract view of parse_scoped_selector: a function of its argument (its '
                     'string semantics are the subject of c_strings.py)')
register(c)

world.INLINE_CMS.add('config_parser.py::ConfigParser._block_scope')

c = _parser_contract('_parse_binding_block', ['C03', 'C16'])
c.param('scoped_selector', KStr)
c.param('block_location', Location)
c.result = KTuple(KVal, KList(KVal))
c.modifies_self = ['_current_token', 'ghost_pos', '_within_block']
c.local_kinds = {'bindings': KList(KVal)}
c.use_ctor_contracts = True


def _hdr(x):
  t = PSS.unbox(pss(x.a.scoped_selector.e))
  return t.items[0].e, t.items[1].e


def _is_member_of_header(x, b):
  scope, selector = _hdr(x)
  return z3.And(stmt_class(b) == sym.str_lit('BindingStatement'),
                stmt_field('BindingStatement', 'scope', KStr)(b) == scope,
                stmt_field('BindingStatement', 'selector', KStr)(b) == selector)


def _members_ok(x, lst):
  return sym.forall([i_], z3.Implies(z3.And(0 <= i_, i_ < lst.len),
                                     _is_member_of_header(x, lst.arr[i_])),
                    patterns=[lst.arr[i_]])


c.ensure('consumes_the_block', lambda x: z3.And(_moved(x), sym.val_truthy(x.result.items[0].e)))
c.ensure('header_is_the_parsed_scoped_selector_at_the_block_location', lambda x: (
    x.result.items[0].e == mk_stmt('BlockDeclaration', _hdr(x)[0], _hdr(x)[1],
                                   Location.box(x.a.block_location))))
c.ensure('every_member_carries_the_scope_and_selector_of_the_header',
         lambda x: _members_ok(x, x.result.items[1]))
c.ensure('stops_at_the_dedent_that_closes_the_block',
         lambda x: cur(x.self_new).fields['type'].e == toktype('DEDENT'))
c.ensure('block_mode_is_left', lambda x: z3.Not(x.self_new.fields['_within_block'].e))
c.exc_ensure('block_mode_is_left_when_a_member_is_malformed', lambda x: z3.Implies(
    z3.Not(x.self_old.fields['_within_block'].e), z3.Not(x.self_new.fields['_within_block'].e)))
c.raise_case('malformed', 'SyntaxError')
c.loop(('self._current_token.type != tokenize.DEDENT', None), [
    Clause('cursor_in_sync_and_forward', lambda x, k: z3.And(
        synced(x.env.self), gen(x.env.self) == gen(x.self_old),
        pos(x.env.self) > pos(x.self_old), x.env.self.fields['_within_block'].e)),
    Clause('members_so_far_carry_the_header', lambda x, k: _members_ok(x, x.env.bindings))],
    havoc=['self._current_token', 'self.ghost_pos'])
register(c)

c = _parser_contract('parse_statement', ['C03', 'C16'])
c.result = KOpt(KVal)
c.modifies_self = ['_current_token', 'ghost_pos', '_statements_queue', '_within_block']
c.local_kinds = {'statement': KOpt(KVal), 'bindings': KList(KVal)}


def _ends(t):
  ty = t.fields['type'].e
  return z3.Or(ty == toktype('NEWLINE'), ty == toktype('DEDENT'), ty == toktype('ENDMARKER'))


def _queue(p):
  return p.fields['_statements_queue']


c.ensure('queued_block_members_come_out_first_and_in_order', lambda x: z3.Implies(
    _queue(x.self_old).len > 0, z3.And(
        z3.Not(x.result.is_none), x.result.inner.e == _queue(x.self_old).arr[0],
        _queue(x.self_new).len == _queue(x.self_old).len - 1,
        pos(x.self_new) == pos(x.self_old))))
c.ensure('none_only_at_the_end_of_input', lambda x: z3.Implies(
    x.result.is_none, z3.And(_queue(x.self_old).len == 0,
                             cur(x.self_new).fields['type'].e == toktype('ENDMARKER'))))
c.ensure('a_statement_ends_at_a_newline_dedent_or_end_of_input', lambda x: z3.Implies(
    z3.And(z3.Not(x.result.is_none), _queue(x.self_old).len == 0),
    z3.Exists([i_], z3.And(pos(x.self_old) <= i_, i_ <= pos(x.self_new),
                           _ends(TOK(gen(x.self_old), i_)),
                           z3.Or(i_ == pos(x.self_new),
                                 z3.And(i_ < pos(x.self_new),
                                        TOK(gen(x.self_old), i_).fields['type'].e !=
                                        toktype('ENDMARKER')))))))
def _block_call(x):
  ev = [e for e in x.trace if e.get('call') == 'config_parser.py::ConfigParser._parse_binding_block'
        and 'result' in e]
  return ev[0] if ev else None


c.ensure('block_members_are_queued_in_textual_order_behind_the_header', lambda x: z3.BoolVal(True)
         if _block_call(x) is None else z3.And(
             x.result.inner.e == _block_call(x)['result'].items[0].e,
             _queue(x.self_new).kind.eq(_queue(x.self_new), _block_call(x)['result'].items[1])))
c.raise_case('malformed_statement', 'SyntaxError')
c.raise_case('internal', 'AssertionError')
register(c)
