"""Contract: _make_gin_wrapper.gin_wrapper (C01, C04, C07, C10).

Ghost event CALL = the single call `fn(*new_args, **new_kwargs)`; A/K are the
argument list / keyword dict captured at that event.  All clauses are over the
entry values (args, kwargs), the bindings B delivered by _get_bindings, the
positional names P and the deep-copy DC -- never over incidental temporaries.
"""
import ast
import z3

from pyvc import sym, world
from pyvc.contract import Contract, Clause, register
from pyvc.sym import (KBool, KInt, KStr, KVal, KList, KDict, KOpt, VObj, VBool, VStr,
                      VDict, VList)
from contracts.a_state import (ParamDict, StrList, Key2, key2, join_slash, eff_stack,
                               ScopeList, ConfigKind)
from contracts.b_selector_map import M
from contracts.c_signature import ValList, ARGS, deepcopied

s_ = z3.Const('s!w', sym.Str)
i_ = z3.Int('i!w')
j_ = z3.Int('j!w')
t_ = z3.Int('t!w')
t2_ = z3.Int('t2!w')
kk_ = z3.Const('k!w', Key2.sort())
REQ = sym.VAL_REQUIRED
IntList = KList(KInt)
GInt = KDict(KInt, KInt)     # ghost: position -> index in the collected lists
GStr = KDict(KStr, KInt)     # ghost: keyword -> index in caller_required_kwargs


def _tr(x, qual):
  return [e for e in x.trace if e.get('call') == qual]


def B(x):
  return _tr(x, 'config.py::_get_bindings')[0]['result']


def P(x):
  return x.env.arg_names


def DC(x):
  return _tr(x, 'ext::copy.deepcopy')[0]['result']


def DCarg(x):
  return _tr(x, 'ext::copy.deepcopy')[0]['args']['x']


def CALL(x):
  ev = [e for e in x.trace if 'fn' in e]
  return ev[0] if ev else None


def ipos(x):
  """Ghost inverse of the positional-name list: index of a name in P, or -1."""
  Pv = P(x)
  key = ('ipos', Pv.arr.get_id(), Pv.len.get_id())
  f = x.ghost.get(key)
  if f is None:
    f = z3.Function(x.path.fresh_name('ipos'), sym.Str, sym.IntS)
    x.path.assume(sym.forall([s_], z3.And(
        -1 <= f(s_), f(s_) < Pv.len,
        z3.Implies(f(s_) >= 0, Pv.arr[f(s_)] == s_)), patterns=[f(s_)]))
    x.path.assume(sym.forall([j_], z3.Implies(
        z3.And(0 <= j_, j_ < Pv.len), f(Pv.arr[j_]) == j_), patterns=[Pv.arr[j_]]))
    x.ghost[key] = f
  return f


def posname(x, s):
  return ipos(x)(s) >= 0


def is_req_pos(x, i):
  return z3.And(0 <= i, i < P(x).len, x.a.args.arr[i] == REQ)


def reqname(x, s):
  """s names a positional parameter the caller marked REQUIRED."""
  return z3.And(posname(x, s), x.a.args.arr[ipos(x)(s)] == REQ)


def kwreq(x, s):
  return z3.And(x.a.kwargs.dom[s], x.a.kwargs.val[s] == REQ)


def kwsup(x, s):
  return z3.And(x.a.kwargs.dom[s], x.a.kwargs.val[s] != REQ)


def caller_supplied(x, s):
  """The caller passed a real (non-marker) value for s, positionally or by keyword."""
  return z3.Or(z3.And(posname(x, s), z3.Not(reqname(x, s))), kwsup(x, s))


def in_list(lst, s):
  return z3.Exists([t_], z3.And(0 <= t_, t_ < lst.len, lst.arr[t_] == s))


# ---- closed forms ------------------------------------------------------------------
def nk_dom(x, s):
  """new_kwargs after the caller's own values were dropped (before the deep copy)."""
  return z3.And(B(x).dom[s], z3.Not(caller_supplied(x, s)))


def opv_dom(x, s):
  D = x.a.initial_configurable_defaults
  return z3.And(z3.Or(D.dom[s], B(x).dom[s]), z3.Not(caller_supplied(x, s)))


def opv_val(x, s):
  D = x.a.initial_configurable_defaults
  return z3.If(nk_dom(x, s), B(x).val[s], D.val[s])


# ---- contract ----------------------------------------------------------------------
c = Contract('config.py::_make_gin_wrapper.gin_wrapper', ['C01', 'C04', 'C07', 'C10'])
c.vararg = ('args', ValList)
c.kwarg = ('kwargs', ParamDict)
c.free = {'fn': KVal, 'fn_or_cls': KVal, 'name': KStr, 'selector': KStr,
          'signature_fn': KVal, 'signature_required_kwargs': StrList,
          'initial_configurable_defaults': ParamDict}
c.result = KVal
c.modifies = set(world.STATE) - {'HELD_OPERATIVE_CONFIG_LOCK', 'HELD_SINGLETONS_LOCK'}
c.opaque_pure = False
c.opaque_havoc = set(world.STATE) - {'HELD_OPERATIVE_CONFIG_LOCK', 'HELD_SINGLETONS_LOCK'}
c.guarded = {'_OPERATIVE_CONFIG': 'HELD_OPERATIVE_CONFIG_LOCK'}
c.local_kinds = {
    'required_arg_names': StrList, 'required_arg_indexes': IntList,
    'caller_required_kwargs': StrList, 'missing_required_params': StrList,
    'new_args': ValList, 'gin_bound_args': StrList, 'new_kwargs': ParamDict,
    'operative_parameter_values': ParamDict}
c.may_raise_other = True
c.abstract_stmts.append((
    lambda s: isinstance(s, ast.If) and ast.unparse(s.test) == 'isinstance(e, TypeError)',
    'construction of the TypeError explanation text (only assigns err_str)'))
c.assumptions.append('the block `if isinstance(e, TypeError): ...` in the exception '
                     'handler only builds message text (havoced; assumed not to raise)')
c.require('stack_non_empty', lambda x: eff_stack(x.old['_SCOPE_MANAGER']).len >= 1)
c.require('operative_lock_not_held_by_caller',
          lambda x: x.old['HELD_OPERATIVE_CONFIG_LOCK'].e == 0)
c.require('parameter_names_distinct', lambda x: sym.forall([i_, j_], z3.Implies(
    z3.And(0 <= i_, i_ < j_, j_ < ARGS(x.a.signature_fn.e).len),
    ARGS(x.a.signature_fn.e).arr[i_] != ARGS(x.a.signature_fn.e).arr[j_])))


def cur_sel(x):
  r = x.old['_RENAMED_SELECTORS']
  return z3.If(r.dom[x.a.selector.e], r.val[x.a.selector.e], x.a.selector.e)


c.require('no_parameter_supplied_both_positionally_and_by_keyword', lambda x: sym.forall(
    [i_], z3.Implies(z3.And(0 <= i_, i_ < ARGS(x.a.signature_fn.e).len, i_ < x.a.args.len),
                     z3.Not(x.a.kwargs.dom[ARGS(x.a.signature_fn.e).arr[i_]])),
    patterns=[ARGS(x.a.signature_fn.e).arr[i_]]))
c.assumptions.append('a caller does not pass one parameter both positionally and by '
                     'keyword (Python itself rejects such a call with TypeError)')
c.require('wrapper_selector_is_registered',
          lambda x: M(x.old['_REGISTRY']).dom[cur_sel(x)])

# ghost variables
c.ghost_vars['pos'] = lambda x: VDict(GInt, z3.K(sym.IntS, z3.BoolVal(True)),
                                      z3.K(sym.IntS, z3.IntVal(-1)))
c.ghost_vars['cpos'] = lambda x: VDict(GStr, z3.K(sym.Str, z3.BoolVal(True)),
                                       z3.K(sym.Str, z3.IntVal(-1)))

# -- loop 0: REQUIRED is rejected among unnamed variadic positionals -------------------
def _before0(ex, x):
  """Hints (proved, then assumed) about the positional names just computed."""
  q = 'config.py::_make_gin_wrapper.gin_wrapper/hint/'
  h1 = sym.forall([s_], z3.Implies(posname(x, s_), z3.Not(x.a.kwargs.dom[s_])),
                  patterns=[ipos(x)(s_)])
  x.path.oblige(q + 'positional_names_not_also_keywords', h1)
  x.path.assume(h1)
  h2 = z3.And(P(x).len <= x.a.args.len, P(x).len >= 0)
  x.path.oblige(q + 'no_more_names_than_values', h2)
  x.path.assume(h2)


c.loop(('args[len(arg_names):]', None), [Clause('no_marker_among_processed_varargs', lambda x, k: sym.forall(
    [i_], z3.Implies(z3.And(P(x).len <= i_, i_ < P(x).len + k),
                     x.a.args.arr[i_] != REQ)))], before=_before0)


# -- loop 1: positions / names of positional REQUIRED markers -------------------------
def _inv1(x, k):
  ri, rn, pos = x.env.required_arg_indexes, x.env.required_arg_names, x.env.ghost_pos.val
  return z3.And(
      ri.len == rn.len, ri.len >= 0, ri.len <= k,
      sym.forall([t_], z3.Implies(z3.And(0 <= t_, t_ < ri.len), z3.And(
          0 <= ri.arr[t_], ri.arr[t_] < k, x.a.args.arr[ri.arr[t_]] == REQ,
          rn.arr[t_] == P(x).arr[ri.arr[t_]], pos[ri.arr[t_]] == t_)),
          patterns=[ri.arr[t_], rn.arr[t_]]),
      sym.forall([i_], z3.Implies(z3.And(0 <= i_, i_ < k, x.a.args.arr[i_] == REQ), z3.And(
          0 <= pos[i_], pos[i_] < ri.len, ri.arr[pos[i_]] == i_)),
          patterns=[pos[i_], x.a.args.arr[i_]]))


def _step1(ex, x, k):
  g = x.env.ghost_pos
  ri = x.env.required_arg_indexes
  # the body appended iff args[k] is REQUIRED; its slot is the last one
  newv = z3.If(x.a.args.arr[k] == REQ, z3.Store(g.val, k, ri.len - 1), g.val)
  ex.frame.env['ghost_pos'] = VDict(GInt, g.dom, newv)


def _after1(ex, x):
  """Lemma (proved, then assumed): membership in required_arg_names is reqname."""
  rn = x.env.required_arg_names
  lem = sym.forall([s_], in_list(rn, s_) == reqname(x, s_))
  x.path.oblige('config.py::_make_gin_wrapper.gin_wrapper/lemma/required_arg_names_membership',
                lem)
  x.path.assume(lem)


c.loop(('enumerate(args[:len(arg_names)])', None), [Clause('collected_marker_positions', _inv1)], ghost=['pos'],
       ghost_step=_step1, after=_after1)


# -- loop 2: keyword REQUIRED markers --------------------------------------------------
def _inv2(x, k):
  crk, cpos, it = x.env.caller_required_kwargs, x.env.ghost_cpos.val, x.it
  return z3.And(
      crk.len >= 0,
      sym.forall([t_], z3.Implies(z3.And(0 <= t_, t_ < crk.len), z3.And(
          kwreq(x, crk.arr[t_]), it.idx(crk.arr[t_]) < k, cpos[crk.arr[t_]] == t_)),
          patterns=[crk.arr[t_]]),
      sym.forall([s_], z3.Implies(z3.And(kwreq(x, s_), it.idx(s_) < k), z3.And(
          0 <= cpos[s_], cpos[s_] < crk.len, crk.arr[cpos[s_]] == s_)),
          patterns=[cpos[s_], x.a.kwargs.val[s_]]))


def _step2(ex, x, k):
  g = x.env.ghost_cpos
  crk = x.env.caller_required_kwargs
  key = x.it.keys[k]
  newv = z3.If(x.a.kwargs.val[key] == REQ, z3.Store(g.val, key, crk.len - 1), g.val)
  ex.frame.env['ghost_cpos'] = VDict(GStr, g.dom, newv)


def _after2(ex, x):
  crk = x.env.caller_required_kwargs
  lem = sym.forall([s_], in_list(crk, s_) == kwreq(x, s_))
  x.path.oblige('config.py::_make_gin_wrapper.gin_wrapper/lemma/caller_required_kwargs_membership',
                lem)
  x.path.assume(lem)


c.loop(('kwargs.items()', None), [Clause('collected_keyword_markers', _inv2)], ghost=['cpos'],
       ghost_step=_step2, after=_after2)


# -- loops 3/4: the caller's own values are dropped from the bindings ---------------------
def _inv3(x, k):
  nk = x.env.new_kwargs
  return sym.forall([s_], z3.And(
      nk.dom[s_] == z3.And(B(x).dom[s_], z3.Not(z3.And(
          0 <= ipos(x)(s_), ipos(x)(s_) < k, z3.Not(reqname(x, s_))))),
      z3.Implies(nk.dom[s_], nk.val[s_] == B(x).val[s_])),
      patterns=[nk.dom[s_]])


def _inv4(x, k):
  nk = x.env.new_kwargs
  return sym.forall([s_], z3.And(
      nk.dom[s_] == z3.And(
          B(x).dom[s_], z3.Not(z3.And(posname(x, s_), z3.Not(reqname(x, s_)))),
          z3.Not(z3.And(kwsup(x, s_), x.it.idx(s_) < k))),
      z3.Implies(nk.dom[s_], nk.val[s_] == B(x).val[s_])),
      patterns=[nk.dom[s_]])


c.loop(('arg_names', 'new_kwargs.pop'), [Clause('positional_names_dropped_from_bindings', _inv3)])
c.loop(('kwargs', 'new_kwargs.pop'), [Clause('keyword_names_dropped_from_bindings', _inv4)])


# -- loops 5/6: what is recorded as operative ---------------------------------------------
def _opv_base(x, s):
  D = x.a.initial_configurable_defaults
  return z3.Or(D.dom[s], nk_dom(x, s))


def _inv5(x, k):
  o = x.env.operative_parameter_values
  return sym.forall([s_], z3.And(
      o.dom[s_] == z3.And(_opv_base(x, s_), z3.Not(z3.And(
          0 <= ipos(x)(s_), ipos(x)(s_) < k, z3.Not(reqname(x, s_))))),
      z3.Implies(o.dom[s_], o.val[s_] == opv_val(x, s_))), patterns=[o.dom[s_]])


def _inv6(x, k):
  o = x.env.operative_parameter_values
  return sym.forall([s_], z3.And(
      o.dom[s_] == z3.And(
          _opv_base(x, s_), z3.Not(z3.And(posname(x, s_), z3.Not(reqname(x, s_)))),
          z3.Not(z3.And(kwsup(x, s_), x.it.idx(s_) < k))),
      z3.Implies(o.dom[s_], o.val[s_] == opv_val(x, s_))), patterns=[o.dom[s_]])


c.loop(('arg_names', 'operative_parameter_values.pop'), [Clause('positional_names_dropped_from_operative', _inv5)])
c.loop(('kwargs', 'operative_parameter_values.pop'), [Clause('keyword_names_dropped_from_operative', _inv6)])


# C07: the operative record after the critical section
def _operative_update(x):
  old, new = x.old['_OPERATIVE_CONFIG'], x.new['_OPERATIVE_CONFIG']
  st = eff_stack(x.old['_SCOPE_MANAGER'])
  scope_str = join_slash(ScopeList.unbox(z3.Select(st.arr, st.len - 1)))
  key = key2(scope_str, cur_sel(x))
  oi = ParamDict.unbox(old.val[key])
  ni = ParamDict.unbox(new.val[key])
  return z3.And(
      sym.forall([kk_], z3.Implies(kk_ != key, z3.And(
          new.dom[kk_] == old.dom[kk_], new.val[kk_] == old.val[kk_]))),
      new.dom[key],
      sym.forall([s_], z3.And(
          ni.dom[s_] == z3.Or(z3.And(old.dom[key], oi.dom[s_]), opv_dom(x, s_)),
          z3.Implies(opv_dom(x, s_), ni.val[s_] == opv_val(x, s_)),
          z3.Implies(z3.And(old.dom[key], oi.dom[s_], z3.Not(opv_dom(x, s_))),
                     ni.val[s_] == oi.val[s_]))))


c.checkpoint('with#0:exit', 'record_updated_with_exactly_what_gin_supplied',
             _operative_update, props=['C07'])
c.checkpoint('with#0:exit', 'config_untouched_so_far', lambda x: z3.And(
    x.new['_CONFIG'].dom == x.old['_CONFIG'].dom,
    x.new['_CONFIG'].val == x.old['_CONFIG'].val), props=['C01', 'C04'])
c.checkpoint('with#0:exit', 'lock_released', lambda x:
             x.new['HELD_OPERATIVE_CONFIG_LOCK'].e == 0, props=['C07'])


# -- loop 7: positional markers are filled from the (copied) bindings ----------------------
def _dc_dom(x, s):
  return nk_dom(x, s)


def _missing_ok(x, ms, extra=None):
  """Every name reported missing is a marked/required parameter without binding."""
  return sym.forall([t_], z3.Implies(z3.And(0 <= t_, t_ < ms.len),
                                     z3.Not(B(x).dom[ms.arr[t_]])),
                    patterns=[ms.arr[t_]])


def _inv7a(x, k):
  na = x.env.new_args
  pos = x.env.ghost_pos.val
  dc = DC(x)
  return z3.And(
      na.len == x.a.args.len,
      sym.forall([i_], z3.Implies(z3.And(0 <= i_, i_ < na.len), na.arr[i_] == z3.If(
          z3.And(is_req_pos(x, i_), pos[i_] < k, B(x).dom[P(x).arr[i_]]),
          dc.val[P(x).arr[i_]], x.a.args.arr[i_])), patterns=[na.arr[i_]]))


def _inv7b(x, k):
  nk = x.env.new_kwargs
  pos = x.env.ghost_pos.val
  dc = DC(x)
  return sym.forall([s_], z3.And(
      nk.dom[s_] == z3.And(nk_dom(x, s_), z3.Not(z3.And(
          reqname(x, s_), pos[ipos(x)(s_)] < k))),
      z3.Implies(nk.dom[s_], nk.val[s_] == dc.val[s_])), patterns=[nk.dom[s_]])


def _inv7c(x, k):
  ms = x.env.missing_required_params
  pos = x.env.ghost_pos.val
  return z3.And(
      ms.len >= 0, _missing_ok(x, ms),
      (ms.len == 0) == sym.forall([i_], z3.Implies(
          z3.And(is_req_pos(x, i_), pos[i_] < k), B(x).dom[P(x).arr[i_]])))


def _inv7d(x, k):
  """Carried facts about the marker lists (established by loop 1)."""
  ri, rn, pos = x.env.required_arg_indexes, x.env.required_arg_names, x.env.ghost_pos.val
  return z3.And(
      ri.len == rn.len,
      sym.forall([t_], z3.Implies(z3.And(0 <= t_, t_ < ri.len), z3.And(
          0 <= ri.arr[t_], ri.arr[t_] < P(x).len, x.a.args.arr[ri.arr[t_]] == REQ,
          rn.arr[t_] == P(x).arr[ri.arr[t_]], pos[ri.arr[t_]] == t_)),
          patterns=[ri.arr[t_], rn.arr[t_]]),
      sym.forall([i_], z3.Implies(is_req_pos(x, i_), z3.And(
          0 <= pos[i_], pos[i_] < ri.len, ri.arr[pos[i_]] == i_)),
          patterns=[pos[i_], x.a.args.arr[i_]]),
      P(x).len <= x.a.args.len)


c.loop(('zip(required_arg_indexes, required_arg_names)', None), [Clause('marker_lists_facts', _inv7d),
           Clause('markers_filled_in_position', _inv7a),
           Clause('filled_names_leave_the_keyword_dict', _inv7b),
           Clause('missing_list_tracks_unbound_markers', _inv7c)])


# -- loop 8: signature-level REQUIRED --------------------------------------------------------
def _sig_missing(x, s):
  return z3.And(z3.Not(posname(x, s)), z3.Not(x.a.kwargs.dom[s]), z3.Not(B(x).dom[s]))


def _after7_facts(x):
  """State of new_args / new_kwargs once loop 7 is done (closed form)."""
  na, nk = x.env.new_args, x.env.new_kwargs
  dc = DC(x)
  return z3.And(
      na.len == x.a.args.len,
      sym.forall([i_], z3.Implies(z3.And(0 <= i_, i_ < na.len), na.arr[i_] == z3.If(
          z3.And(is_req_pos(x, i_), B(x).dom[P(x).arr[i_]]),
          dc.val[P(x).arr[i_]], x.a.args.arr[i_])), patterns=[na.arr[i_]]),
      sym.forall([s_], z3.And(
          nk.dom[s_] == z3.And(nk_dom(x, s_), z3.Not(reqname(x, s_))),
          z3.Implies(nk.dom[s_], nk.val[s_] == dc.val[s_])), patterns=[nk.dom[s_]]))


def _inv8(x, k):
  ms = x.env.missing_required_params
  srk = x.a.signature_required_kwargs
  return z3.And(
      _after7_facts(x), ms.len >= 0, _missing_ok(x, ms),
      (ms.len == 0) == z3.And(
          sym.forall([i_], z3.Implies(is_req_pos(x, i_), B(x).dom[P(x).arr[i_]])),
          sym.forall([t_], z3.Implies(z3.And(0 <= t_, t_ < k),
                                      z3.Not(_sig_missing(x, srk.arr[t_]))))))


c.loop(('signature_required_kwargs', None), [Clause('signature_required_checked', _inv8)])


# -- loop 9: keyword markers -----------------------------------------------------------------
def _inv9(x, k):
  ms = x.env.missing_required_params
  srk = x.a.signature_required_kwargs
  crk, cpos = x.env.caller_required_kwargs, x.env.ghost_cpos.val
  kw = x.env.kwargs
  return z3.And(
      _after7_facts(x), ms.len >= 0, _missing_ok(x, ms),
      sym.forall([s_], z3.And(
          kw.dom[s_] == z3.And(x.a.kwargs.dom[s_], z3.Not(z3.And(
              kwreq(x, s_), cpos[s_] < k, B(x).dom[s_]))),
          z3.Implies(kw.dom[s_], kw.val[s_] == x.a.kwargs.val[s_])), patterns=[kw.dom[s_]]),
      (ms.len == 0) == z3.And(
          sym.forall([i_], z3.Implies(is_req_pos(x, i_), B(x).dom[P(x).arr[i_]])),
          sym.forall([t_], z3.Implies(z3.And(0 <= t_, t_ < srk.len),
                                      z3.Not(_sig_missing(x, srk.arr[t_])))),
          sym.forall([s_], z3.Implies(z3.And(kwreq(x, s_), cpos[s_] < k), B(x).dom[s_]))))


c.loop(('caller_required_kwargs', None), [Clause('keyword_markers_checked', _inv9)])


# ---- the property-level clauses, at the CALL event ---------------------------------------------
def _A(x):
  return CALL(x)['args'][0][1]


def _K(x):
  return CALL(x)['kwargs']['**']


def _all_filled(x):
  srk = x.a.signature_required_kwargs
  return z3.And(
      sym.forall([i_], z3.Implies(is_req_pos(x, i_), B(x).dom[P(x).arr[i_]])),
      sym.forall([t_], z3.Implies(z3.And(0 <= t_, t_ < srk.len),
                                  z3.Not(_sig_missing(x, srk.arr[t_])))),
      sym.forall([s_], z3.Implies(kwreq(x, s_), B(x).dom[s_])))


def _at_call(label, fn, props):
  def clause(x):
    if CALL(x) is None:
      return z3.BoolVal(True)
    return fn(x)
  c.ensure(label, clause, props)
  c.exc_ensure(label, clause, props)


_at_call('positional_values_reach_the_function_unchanged', lambda x: z3.And(
    _A(x).len == x.a.args.len,
    sym.forall([i_], z3.Implies(
        z3.And(0 <= i_, i_ < x.a.args.len, z3.Not(is_req_pos(x, i_))),
        _A(x).arr[i_] == x.a.args.arr[i_]))), ['C01'])
_at_call('keyword_values_reach_the_function_unchanged', lambda x: sym.forall(
    [s_], z3.Implies(kwsup(x, s_), z3.And(_K(x).dom[s_],
                                          _K(x).val[s_] == x.a.kwargs.val[s_]))), ['C01'])
_at_call('other_parameters_get_the_applicable_binding', lambda x: sym.forall(
    [s_], z3.Implies(z3.And(z3.Not(x.a.kwargs.dom[s_]), z3.Not(posname(x, s_))), z3.And(
        _K(x).dom[s_] == B(x).dom[s_],
        z3.Implies(B(x).dom[s_], _K(x).val[s_] == DC(x).val[s_])))), ['C01'])
_at_call('nothing_else_is_passed', lambda x: sym.forall(
    [s_], z3.Implies(_K(x).dom[s_], z3.Or(
        x.a.kwargs.dom[s_], z3.And(B(x).dom[s_], z3.Not(posname(x, s_)))))), ['C01', 'C10'])
_at_call('positional_markers_filled_in_position', lambda x: sym.forall(
    [i_], z3.Implies(is_req_pos(x, i_), z3.And(
        B(x).dom[P(x).arr[i_]], _A(x).arr[i_] == DC(x).val[P(x).arr[i_]],
        z3.Not(_K(x).dom[P(x).arr[i_]])))), ['C10'])
_at_call('keyword_markers_filled', lambda x: sym.forall(
    [s_], z3.Implies(kwreq(x, s_), z3.And(
        B(x).dom[s_], _K(x).dom[s_], _K(x).val[s_] == DC(x).val[s_]))), ['C10'])
_at_call('called_only_if_every_required_parameter_is_filled', _all_filled, ['C10'])
_at_call('no_marker_passed_for_unnamed_positionals', lambda x: sym.forall(
    [i_], z3.Implies(z3.And(P(x).len <= i_, i_ < x.a.args.len),
                     x.a.args.arr[i_] != REQ)), ['C10'])
# C04: only values Gin actually supplies are deep-copied / evaluated
_dcl = lambda fn: (lambda x: z3.BoolVal(True) if not _tr(x, 'ext::copy.deepcopy') else fn(x))
c.ensure('evaluates_only_gin_supplied_parameters', _dcl(lambda x: sym.forall(
    [s_], DCarg(x).dom[s_] == nk_dom(x, s_))), ['C04'])
c.exc_ensure('evaluates_only_gin_supplied_parameters', _dcl(lambda x: sym.forall(
    [s_], DCarg(x).dom[s_] == nk_dom(x, s_))), ['C04'])
c.ensure('function_called_exactly_once', lambda x: z3.BoolVal(
    len([e for e in x.trace if 'fn' in e]) == 1), ['C01'])

# failing cleanly (C10)
c.raise_case('missing_required', 'RuntimeError',
             when=lambda x: z3.BoolVal(x.exc.origin == 'stmt'),
             ensures=[('function_not_called', lambda x: z3.BoolVal(CALL(x) is None)),
                      ('something_really_unfilled', lambda x: z3.Not(_all_filled(x)))])
c.raise_case('marker_for_vararg', 'ValueError',
             when=lambda x: z3.BoolVal(x.exc.origin == 'stmt'),
             ensures=[('function_not_called', lambda x: z3.BoolVal(CALL(x) is None)),
                      ('a_vararg_was_marked', lambda x: z3.Exists([i_], z3.And(
                          P(x).len <= i_, i_ < x.a.args.len, x.a.args.arr[i_] == REQ)))])
c.canary('MUSTFAIL_binding_beats_caller_keyword', lambda x: sym.forall(
    [s_], z3.Implies(z3.And(kwsup(x, s_), B(x).dom[s_]),
                     _K(x).val[s_] == DC(x).val[s_])) if CALL(x) else z3.BoolVal(False))
register(c)
