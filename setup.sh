#!/bin/sh
# Offline setup: tool presence and conformance of the library axioms the encoding assumes.
set -e
cd "$(dirname "$0")"
command -v z3-new >/dev/null
command -v cvc5 >/dev/null
test -x /opt/veriftools/pyvenv/bin/python
test -x /venv/bin/python
/opt/veriftools/pyvenv/bin/python -c "import z3; assert z3.get_version_string().startswith('5.')"
PYTHONPATH=/repo /venv/bin/python tools/axiom_conformance.py
echo "setup ok"
