#!/opt/veriftools/pyvenv/bin/python
"""vcheck -- decide one property:  ./vcheck C08 [--tier quick|thorough]
            replay a counterexample: ./vcheck replay <file>
            (dev) rewrite the lock file: ./vcheck --write-lock

Exit 0: the property held on everything explored (KNOWN-FINDING lines allowed).
Exit 1: `VIOLATION property=<id> replay=<path>` (see DESIGN.md section 3.3).
Exit 3: CHECK-ERROR (engine/solver/harness failure -- never a verdict on the code).
"""
import argparse
import collections
import hashlib
import json
import os
import subprocess
import sys
import time

HERE = os.path.dirname(os.path.abspath(__file__))
sys.path.insert(0, HERE)
os.chdir(HERE)

from pyvc import run, extract, solve, astchecks, replay    # noqa: E402
from pyvc import contract as C                         # noqa: E402

REPO = os.environ.get('PYVC_REPO', '/repo')
VENV_PY = '/venv/bin/python'
LOCK = os.path.join(HERE, 'obligations.lock.json')
FINDINGS = os.path.join(HERE, 'known_findings.json')
LEVELS = os.path.join(HERE, 'levels.json')


def load_json(path, default):
  try:
    with open(path) as fh:
      return json.load(fh)
  except FileNotFoundError:
    return default


def group_obligations(index, results, pid):
  """name -> {'kind', 'verdicts': [...], 'backends': Counter, 'time'}"""
  groups = collections.OrderedDict()
  for key, (ob, pi, q) in index.items():
    if pid not in ob.props:
      continue
    g = groups.setdefault(ob.name, {'kind': ob.kind, 'verdicts': [], 'time': 0.0,
                                    'backends': collections.Counter(), 'fn': q,
                                    'tried': [], 'meta': {k: v for k, v in ob.meta.items()
                                                          if k != 'args0'}, 'sat_obs': []})
    r = results[key]
    g['verdicts'].append(r['verdict'])
    g['time'] += r['time']
    g['backends'][r['backend'] or 'none'] += 1
    if r['verdict'] != 'unsat':
      g['tried'].append(r['tried'])
    if r['verdict'] == 'sat':
      g['sat_obs'].append(ob)
  return groups


def group_ok(g):
  if g['kind'] == 'canary':
    return any(v != 'unsat' for v in g['verdicts'])
  return all(v == 'unsat' for v in g['verdicts'])


def run_bounded(pid, tier, seed, replay=None):
  mod = os.path.join(HERE, 'bounded', f'b{pid}.py')
  if not os.path.exists(mod):
    return None
  env = dict(os.environ)
  env['PYTHONPATH'] = REPO
  env['PYVC_REPO'] = REPO
  env['PYTHONHASHSEED'] = '0'
  cmd = [VENV_PY, os.path.join(HERE, 'bounded', 'run.py'), pid, '--tier', tier,
         '--seed', str(seed)]
  if replay:
    cmd += ['--replay', replay]
  budget = 25 if tier == 'quick' else 480
  cmd += ['--budget', str(budget)]
  try:
    p = subprocess.run(cmd, capture_output=True, text=True, env=env,
                       timeout=budget * 2 + 120, cwd=HERE)
  except subprocess.TimeoutExpired:
    return {'crash': 'bounded tier timed out'}
  out = p.stdout.strip().splitlines()
  if p.returncode != 0 or not out:
    return {'crash': (p.stderr or p.stdout)[-1500:]}
  try:
    return json.loads(out[-1])
  except ValueError:
    return {'crash': 'unparseable output: ' + out[-1][:300]}


def write_replay(pid, payload):
  os.makedirs(os.path.join(HERE, 'replays'), exist_ok=True)
  h = hashlib.sha256(json.dumps(payload, sort_keys=True, default=str).encode()
                     ).hexdigest()[:10]
  path = os.path.join(HERE, 'replays', f'{pid}-{h}.json')
  with open(path, 'w') as fh:
    json.dump(payload, fh, indent=1, default=str)
  return path


def match_finding(findings, pid, obligation=None, clause=None, signature=None):
  for f in findings:
    if f.get('kind') != 'finding' or f.get('property') != pid:
      continue
    m = f.get('match', {})
    if obligation is not None and m.get('obligation') == obligation:
      return f
    if clause is not None and m.get('clause') == clause and (
        m.get('signature') == signature or signature in m.get('signatures', ())):
      return f
  return None


def check_property(pid, tier, seed, write_lock=False):
  t0 = time.time()
  out_lines = []
  reg = run.load_contracts()
  repo = extract.Repo(REPO)
  findings = load_json(FINDINGS, {'findings': []})['findings']
  lock = load_json(LOCK, {})
  levels = load_json(LEVELS, {})
  claimed = levels.get(pid, {}).get('category', 'exploration')

  quals = [q for q, c in reg.items() if pid in c.props]
  proved_quals = [q for q in quals if reg[q].kind == 'proved' and not reg[q].skip_proof]
  assumed = [q for q in quals if reg[q].kind != 'proved' or reg[q].skip_proof]
  fres, index, results, solve_wall = run.check_functions(
      repo, proved_quals, thorough=(tier == 'thorough'),
      all_backends=(tier == 'thorough'))
  groups = group_obligations(index, results, pid)

  # AST-level obligations
  ast_results = astchecks.run(repo, pid)
  for name, ok, detail in ast_results:
    groups[name] = {'kind': 'prove', 'verdicts': ['unsat' if ok else 'sat'],
                    'time': 0.0, 'backends': collections.Counter({'ast': 1}),
                    'fn': 'ast', 'tried': [[('ast', detail)]] if not ok else [],
                    'meta': {'detail': detail}}

  engine_errors = [(q, r) for q, r in fres.items() if r.status == 'engine-error']
  lost = [(q, r) for q, r in fres.items() if r.status in ('missing', 'out-of-subset')]

  failed = [(n, g) for n, g in groups.items() if not group_ok(g)]
  proved_names = [n for n, g in groups.items() if group_ok(g) and g['kind'] == 'prove']

  # obligations that the lock says discharge on the unchanged tree but that
  # were not even generated this time (their function fell out of the subset)
  locked = lock.get(pid, {}).get('proved', [])
  not_generated = [n for n in locked if n not in groups]

  if write_lock:
    return {'proved': sorted(proved_names), 'count': len(proved_names)}

  # bounded stand-in
  bounded = run_bounded(pid, tier, seed)
  violations = 0
  known_lines = []
  bounded_viol = []
  if bounded and 'crash' not in bounded:
    bounded_viol = bounded.get('violations', [])

  def report_violation(payload, no_input=False):
    nonlocal violations
    violations += 1
    path = write_replay(pid, payload)
    out_lines.append(f'VIOLATION property={pid} replay={path}' +
                     (' no-failing-input-found' if no_input else ''))

  # 1. bounded violations
  seen_sig = set()
  unmatched_bounded = []
  for v in bounded_viol:
    f = match_finding(findings, pid, clause=v.get('clause'), signature=v.get('signature'))
    sig = (v.get('clause'), v.get('signature'))
    if f is not None:
      line = f'KNOWN-FINDING: property={pid} {f["text"]}'
      if line not in known_lines:
        known_lines.append(line)
      seen_sig.add(sig)
      continue
    unmatched_bounded.append(v)

  # 2. failed obligations
  for name, g in failed:
    f = match_finding(findings, pid, obligation=name)
    if f is not None:
      line = f'KNOWN-FINDING: property={pid} {f["text"]}'
      if line not in known_lines:
        known_lines.append(line)
      continue
    what = ('must-fail canary became provable (vacuous hypotheses?)'
            if g['kind'] == 'canary' else 'obligation not discharged')
    payload = {'property': pid, 'obligation': name, 'function': g['fn'],
               'what': what, 'solver_output': g['tried'][:3], 'meta': g['meta'],
               'tier': tier}
    # the verifier's own counterexample, replayed on the real function
    rp = None
    for ob in g.get('sat_obs', [])[:3]:
      try:
        rp = replay.replay(reg[g['fn']], ob, REPO, VENV_PY)
      except Exception as e:        # replay machinery failed: not a verdict
        rp = None
      if rp and rp.get('clause_holds_on_real_behaviour') is False:
        break
    if rp and rp.get('clause_holds_on_real_behaviour') is False:
      payload.update({'model_replay': rp, 'inputs': rp['inputs'],
                      'expected': f'clause {rp["clause"]} of the contract',
                      'observed': rp['observed']})
      report_violation(payload)
      continue
    if unmatched_bounded:
      v = unmatched_bounded[0]
      payload.update({'case': v['case'], 'clause': v.get('clause'),
                      'expected': v.get('expected'), 'observed': v.get('observed'),
                      'replay_cmd': f'./vcheck replay <this file>'})
      report_violation(payload)
    else:
      payload['bounded_search'] = (
          {k: bounded.get(k) for k in ('evaluations', 'bounds', 'wall_s')}
          if bounded and 'crash' not in bounded else 'no bounded stand-in ran')
      report_violation(payload, no_input=True)

  # 3. bounded violations not already used as a replay for an obligation
  if unmatched_bounded and not any('VIOLATION' in l and 'no-failing' not in l
                                   for l in out_lines):
    reported = set()
    for v in unmatched_bounded:
      sig = (v.get('clause'), v.get('signature'))
      if sig in reported:
        continue
      reported.add(sig)
      report_violation({'property': pid, 'obligation': f'bounded/{pid}/{v.get("clause")}',
                        'function': 'run-time contract on the real code',
                        'case': v['case'], 'clause': v.get('clause'),
                        'signature': v.get('signature'),
                        'expected': v.get('expected'), 'observed': v.get('observed')})
      if len(reported) >= 5:
        break

  # proof lost?
  level = claimed
  proof_lost = []
  for q, r in lost:
    proof_lost.append({'function': q, 'status': r.status, 'reason': r.detail})
    out_lines.append(f'UNDECIDED-PROOF property={pid} function={q} reason={r.detail}')
  if (proof_lost or not_generated) and claimed == 'proof':
    level = 'exploration'

  errors = []
  for q, r in engine_errors:
    errors.append(f'CHECK-ERROR property={pid} function={q} {r.detail}')
  if bounded and 'crash' in bounded:
    errors.append(f'CHECK-ERROR property={pid} bounded tier crashed: {bounded["crash"][-300:]}')
  if bounded and bounded.get('errors'):
    errors.append(f'CHECK-ERROR property={pid} bounded harness error: '
                  f'{bounded["errors"][0]["error"][-300:]}')
  n_prove = len([g for g in groups.values() if g['kind'] == 'prove'])
  if claimed == 'proof' and n_prove == 0:
    errors.append(f'CHECK-ERROR property={pid} zero obligations generated')
  locked_count = lock.get(pid, {}).get('count')
  if locked_count and not proof_lost and n_prove < locked_count and not failed:
    # not an alarm: a harmless restructuring can legitimately merge obligations; it is
    # reported (and recorded in the evidence) so that a silent loss of coverage is visible
    out_lines.append(f'NOTE property={pid} fewer obligations than on the locked tree: '
                     f'{n_prove} < {locked_count}')

  # evidence ------------------------------------------------------------------------
  kf_obl = [n for n, g in failed if match_finding(findings, pid, obligation=n)]
  n_obl = len([n for n, g in groups.items() if g['kind'] == 'prove' and n not in kf_obl])
  n_dis = len([n for n in proved_names])
  backends = collections.Counter()
  for g in groups.values():
    backends.update(g['backends'])
  fn_table = []
  for q in proved_quals:
    r = fres.get(q)
    fn_table.append({'function': q, 'status': r.status if r else 'n/a',
                     'sha256_16': r.sha if r else None,
                     'lines': r.lines if r else None, 'paths': r.paths if r else 0,
                     'dropped_by_extraction': r.dropped if r else []})
  assumptions = list(GENERAL_ASSUMPTIONS)
  for q in quals:
    for a in reg[q].assumptions:
      if a not in assumptions:
        assumptions.append(a)
  trusted = [f'{q} ({"assumed contract" if reg[q].kind != "proved" else reg[q].skip_proof})'
             for q in assumed]
  samples = [{'obligation': n, 'verdict': 'discharged',
              'backends': dict(groups[n]['backends'])} for n in proved_names[:6]]
  coverage = {
      'obligations': n_obl, 'discharged': n_dis,
      'checker_cmd': f'./vcheck {pid} --tier {tier}',
      'trusted_base': trusted + ['pyvc symbolic executor (pyvc/exec.py, pyvc/world.py)',
                                 'z3 5.1.0 / cvc5 1.0.3'],
      'functions_under_contract': fn_table,
      'obligation_instances': len([1 for k, (ob, _, _) in index.items() if pid in ob.props]),
      'discharged_by_backend': dict(backends),
      'solver_wall_s': round(solve_wall, 2),
      'canaries_not_provable': len([1 for g in groups.values()
                                    if g['kind'] == 'canary' and group_ok(g)]),
      'canaries_total': len([1 for g in groups.values() if g['kind'] == 'canary']),
      'ast_obligations': [{'name': n, 'ok': ok, 'detail': d} for n, ok, d in ast_results],
      'known_finding_obligations': kf_obl,
      'proof_lost': proof_lost, 'locked_obligations_not_generated': not_generated,
      'failed_obligations': [n for n, g in failed],
      'rule': ('one obligation per contract clause / loop-invariant init+step / callee '
               'precondition / frame clause / AST-level clause; an obligation is distinct '
               'by its name; instances are per execution path'),
      'samples': samples,
  }
  if bounded and 'crash' not in bounded:
    coverage['bounded'] = {k: bounded.get(k) for k in (
        'evaluations', 'distinct_nontrivial', 'bounds', 'exhaustive', 'wall_s')}
    coverage['bounded']['violations'] = len(bounded_viol)
    coverage['bounded']['label'] = 'bounded stand-in: never counted as proved'
    coverage['evaluations'] = max(1, bounded.get('evaluations', 0))
    coverage['distinct_nontrivial'] = bounded.get('distinct_nontrivial', 0)
    coverage['samples'] = samples + [{'bounded_case': s} for s in bounded.get('samples', [])]
    coverage['exhaustive'] = bool(bounded.get('exhaustive'))
  else:
    coverage['evaluations'] = max(1, coverage['obligation_instances'])
    coverage['distinct_nontrivial'] = max(n_obl, 0)
  if level == 'other':
    coverage['explanation'] = levels.get(pid, {}).get('text', '')
  ev = {'property_id': pid, 'tier': tier, 'seed': seed, 'level': level,
        'coverage': coverage, 'assumptions': assumptions,
        'wall_s': round(time.time() - t0, 2), 'violations': violations}
  # evidence/ describes /repo; a run pointed at another tree (PYVC_REPO: seeded changes,
  # rewrites) writes its evidence next to the replays, never over the committed files
  evdir = os.path.join(HERE, 'evidence') if os.path.realpath(REPO) == '/repo' else \
      os.path.join(HERE, 'replays', 'evidence_of_other_trees')
  os.makedirs(evdir, exist_ok=True)
  with open(os.path.join(evdir, f'{pid}.json'), 'w') as fh:
    json.dump(ev, fh, indent=1, default=str)

  for l in known_lines:
    print(l)
  for l in out_lines:
    print(l)
  for l in errors:
    print(l)
  print(f'{pid}: obligations={n_obl} discharged={n_dis} failed={len(failed)} '
        f'bounded_evals={coverage.get("bounded", {}).get("evaluations", 0)} '
        f'violations={violations} wall={ev["wall_s"]}s level={level}')
  if violations:
    return 1
  if errors:
    return 3
  return 0


GENERAL_ASSUMPTIONS = [
    'Python semantics assumed by the encoding: integers are mathematical; dicts '
    'preserve insertion order; str is an uninterpreted sort with string library '
    'functions as uninterpreted functions (except in the native-string contracts); '
    'opaque objects have identity; attribute access on gin records/NamedTuples is '
    'field selection; arguments are evaluated left to right',
    'local mutable containers have reference semantics within one function and are '
    'snapshotted when stored into a symbolic container (mutation after escape is '
    'reported as out-of-subset, not approximated)',
    'termination is not proved except where a decreases clause is listed',
    'extraction drops docstrings, logging.* call statements and the text of error '
    'messages that no clause mentions (listed per function in functions_under_contract)',
    'abstract string concatenation is associative with the empty string as unit (a + b, '
    'f-strings and str.format over str pieces denote one canonical term); slicing, list/dict '
    'methods, dict(zip(..)), reversed, enumerate and comprehensions follow the CPython '
    'semantics checked by tools/axiom_conformance.py',
    'a module-level variable that some function rebinds (`global x`) and that is not part of '
    'the declared state is arbitrary at entry and after every call, with-body and loop cut; a '
    'local read before assignment raises UnboundLocalError; small generator context managers '
    '(pre; try: yield finally: fin) are executed from their source at the with-site',
    'solver budgets are CPU seconds per back end; `unknown`, timeouts and solver crashes are '
    '"not discharged", never "refuted"',
]


def do_replay(path):
  with open(path) as fh:
    rp = json.load(fh)
  pid = rp['property']
  if rp.get('model_replay'):
    reg = run.load_contracts()
    res = replay.rerun(reg[rp['function']], rp['model_replay']['clause'],
                       rp['model_replay']['inputs'], REPO, VENV_PY)
    print(json.dumps(res, indent=1, default=str))
    if res.get('clause_holds_on_real_behaviour') is False:
      print(f'VIOLATION property={pid} replay={path}')
      return 1
    return 0
  if 'case' not in rp:
    print(f'replay file names obligation {rp.get("obligation")} and carries no input '
          f'(no-failing-input-found); re-running the proof obligations of {pid}')
    return check_property(pid, 'quick', 0)
  res = run_bounded(pid, 'quick', 0, replay=path)
  print(json.dumps(res, indent=1, default=str))
  if res.get('violations'):
    print(f'VIOLATION property={pid} replay={path}')
    return 1
  return 0


def main():
  ap = argparse.ArgumentParser()
  ap.add_argument('prop')
  ap.add_argument('path', nargs='?')
  ap.add_argument('--tier', default=os.environ.get('VERIF_TIER', 'quick'))
  ap.add_argument('--write-lock', action='store_true')
  a = ap.parse_args()
  seed = int(os.environ.get('VERIF_SEED', '0') or 0)
  if a.prop == 'replay':
    sys.exit(do_replay(a.path))
  if a.write_lock:
    lock = load_json(LOCK, {})
    pids = [a.prop] if a.prop != 'all' else sorted(
        {p for c in run.load_contracts().values() for p in c.props})
    for pid in pids:
      lock[pid] = check_property(pid, 'quick', seed, write_lock=True)
      print(pid, lock[pid]['count'])
    with open(LOCK, 'w') as fh:
      json.dump(lock, fh, indent=1, sort_keys=True)
    return
  try:
    rc = check_property(a.prop, a.tier, seed)
  except Exception as e:     # never a verdict about the code
    import traceback
    traceback.print_exc()
    print(f'CHECK-ERROR property={a.prop} {type(e).__name__}: {e}')
    rc = 3
  sys.exit(rc)


if __name__ == '__main__':
  main()
