"""Dev tool: unique (clause, signature) pairs reported by a bounded module."""
import collections, json, subprocess, sys, os
pid, tier = sys.argv[1], sys.argv[2]
env = dict(os.environ, PYTHONPATH='/repo', PYVC_REPO='/repo', PYTHONHASHSEED='0')
seen = collections.OrderedDict()
for seed in (sys.argv[3:] or ['0']):
  p = subprocess.run(['/venv/bin/python', '/verif/bounded/run.py', pid, '--tier', tier, '--seed', seed,
                      '--budget', '25' if tier == 'quick' else '480'], capture_output=True, text=True, env=env)
  d = json.loads(p.stdout.strip().splitlines()[-1])
  for v in d['violations']:
    seen.setdefault((v.get('clause'), v.get('signature')), v['case'])
  print(pid, tier, seed, d['evaluations'], len(d['violations']), len(d['errors']), file=sys.stderr)
json.dump([{'clause': c, 'signature': s} for (c, s) in seen], sys.stdout, indent=1)
