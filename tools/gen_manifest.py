"""Dev tool: (re)generate MANIFEST.json and levels.json from the table below."""
import json

P = 'contract-based deductive verification: sidecar contracts on the real functions, VCs generated from the AST of /repo by pyvc (symbolic execution, loop invariants, modular calls), discharged by z3/cvc5'
B = 'bounded stand-in (run-time contracts on the real code), never counted as proved'
T = {
 'C01': ('proof', 'Every clause of the statement is a discharged postcondition of gin_wrapper (caller values unchanged, applicable binding for the rest, nothing else passed) over the discharged overlay contract of _get_bindings (longest prefix wins; bound iff some prefix binds) and the scope contracts; for all signatures lengths, scope depths and argument splits. Which (fn, signature) pair each callable shape hands to the wrapper is dynamic class construction: bounded over 14 shapes.', 'assumed: inspect.getfullargspec (functional, distinct names), copy.deepcopy contract, Python call binding of fn(*A, **K), a caller does not pass one parameter twice; ' + B + ' for callable shapes (bC01)', '4 C01'),
 'C02': ('exploration', 'No contract within reach can state "what CPython evaluates this text to" (the oracle is the interpreter, the tokenizer is external); differential bounded comparison against ast.literal_eval over the literal grammar and near-misses in 4 statement contexts.', 'tokenize / ast.literal_eval are the oracle; bounded: nesting depth 3, seeded sample (quick) / ~200k texts (thorough)', '4 C02'),
 'C03': ('exploration', 'Layout independence is a two-run relational property through an external tokenizer: bounded comparison of statement streams and config_str over 8 layouts of generated statement lists, plus malformed-name rejection.', 'bounded: <= 6 statements x 8 layouts; tokenizer external', '4 C03'),
 'C04': ('proof', 'Discharged on gin_wrapper: exactly the Gin-supplied parameters (bound, not supplied by the caller positionally or by keyword) go through the deep copy (so references of caller-supplied parameters are not evaluated), delivered values are the deep-copied ones (never the stored objects), _CONFIG is untouched by the wrapper itself; scope rules from config_scope. What deepcopy does to nested references is an assumed contract, exercised by the bounded tier.', 'assumed: copy.deepcopy contract (once per occurrence, fresh containers); ' + B + ' for nesting/scope/mutation histories (bC04)', '4 C04'),
 'C05': ('proof', 'constant / _retrieve_constant discharged (invalid or duplicate name raises and leaves the store unchanged; the very object stored is returned; suffix addressing via the SelectorMap contracts); late binding follows from gin_wrapper reading _CONFIG at call time (C01) and per-call evaluation (C04). Finalize rules and parse orders: bounded.', 'SelectorMap method contracts (tree proofs: see C08); ' + B + ' (bC05)', '4 C05'),
 'C06': ('exploration', 'Facts about repr / pprint / re-parsing are outside any contract within reach: bounded round-trip, canonical-order, always-parses and markdown checks over enumerated configurations, widths and binding orders, static and dynamic registration.', 'bounded: see evidence.bounds; 4 known findings recorded', '4 C06'),
 'C07': ('proof', 'Discharged checkpoint on gin_wrapper: after the critical section the operative record equals the old record with exactly key (scope, selector) updated by (defaults overlaid by bindings) minus what the caller supplied, nothing else touched, lock released; accessed only under its lock. Replay and text-level clauses: bounded.', 'assumed: _get_default_configurable_parameter_values filters representable defaults (repr/parse); ' + B + ' for sections/replay (bC07)', '4 C07'),
 'C08': ('exploration', 'ParsedBindingKey equality/hash obligations are discharged (every spelling of one parameter is one key); the suffix-tree proofs of SelectorMap are in progress, so the resolution clauses rest on the exhaustive-small-scope bounded model comparison for now.', 'bounded: histories of insert/pop/copy/clear over small name sets (bC08)', '4 C08'),
 'C09': ('proof', 'config_scope split at its yield: entry rules, and on EVERY exit path (normal, body raises, invalid name, argument whose truth value raises) the stack equals the stack before the with, given a stack-neutral body (nesting lemma); scope manager methods discharged; thread privacy reduced to ownership obligations read off the AST (state only in attributes of the threading.local instance, no class-level state).', 'assumed: threading.local gives each thread its own attribute namespace; list elements passed as a scope are strings; ' + B + ' (bC09)', '4 C09'),
 'C10': ('proof', 'Discharged on gin_wrapper: positional markers filled in position from the deep-copied binding and not passed twice, keyword markers filled, the function is called only if every marked / signature-required parameter is filled, RuntimeError/ValueError paths do not call the function, markers among unnamed varargs rejected. Message content and registration-time rejection: bounded.', 'assumed: _order_by_signature, _get_validated_required_kwargs (filter comprehensions / inspect); ' + B + ' (bC10)', '4 C10'),
 'C11': ('proof', 'ParsedBindingKey.parse returns only if the five acceptance conditions hold and modifies nothing but registration state; bind_parameter changes exactly one cell of _CONFIG and of _CONFIG_PROVENANCE, and on any exception leaves both unchanged; module-wide write-site obligation: only bind_parameter and clear_config write those stores.', 'assumed: ParseContext.get_configurable (functional, returns a registered Configurable or None), _might_have_parameter (inspect); 1 known finding (class without own constructor); ' + B + ' (bC11)', '4 C11'),
 'C12': ('proof', 'unlock_config restores the lock on normal and exceptional exit (discharged for an arbitrary body); finalize: locked => RuntimeError with no hook run; any rejection leaves _CONFIG and the lock state unchanged; success sets the lock last; bind_parameter/_make_configurable test the lock first (AST); lock flag written only through _set_config_is_locked. Conflict/macro/reference rejection rules: ParsedBindingKey eq/hash discharged, rest bounded.', 'assumed: hooks do not modify gin state; ' + B + ' exhaustive 9^4 operation sequences (bC12)', '4 C12'),
 'C13': ('exploration', 'Dynamic class / metaclass creation is outside any SMT encoding on offer: bounded run-time contracts over 19 callable kinds x 19 class shapes x 3 APIs; proved extras: interactive_mode resets the flag on every exit path, register.perform_decoration returns its argument (AST).', 'bounded; see evidence', '4 C13'),
 'C14': ('proof', 'parse_config_file parses exactly the candidate join(prefix_i, name) opened by reader_j for the lexicographically least readable (i, j) (nested loop invariants), an absolute name bypasses the prefixes, IOError raised here means nothing was opened or parsed and nothing was readable; search path appended last; signature defaults and skip_unknown pass-through read off the AST. Include splicing and package paths: bounded.', 'assumed: existence checks are pure predicates, os.path.join/isabs functional, readers do not touch gin state; ' + B + ' (bC14)', '4 C14'),
 'C15': ('proof', '_should_skip returns exactly (not known) and covered, with "known" defined as in the statement (resolvable through the file\'s imports under dynamic registration, else matched by a registered name); known names are never skipped; invalid skip_unknown forms rejected. Statement-level deletion equivalence: bounded.', 'assumed: ParseContext._resolve_selector contract (getattr chains on real modules); ' + B + ' (bC15)', '4 C15'),
 'C16': ('fault_enumeration', 'Fault injection at every statement position x 12 fault kinds (40 variants) at include depth <= 2: after the failure the configuration equals that of the prefix parsed alone; context/lock/scope restored; exception type and per-level location lines. Proved extras: bind_parameter writes the given location to the cell it binds and leaves both stores unchanged on failure.', 'bounded: <= 6 statements, include depth <= 2; 3 known findings recorded (parser look-ahead, block atomicity, continuation-line location)', '4 C16'),
 'C17': ('exploration', 'The proxy is a class created at run time: bounded run-time contract over all 67 builtin exception classes x argument variants + 13 user shapes x contexts; AST obligations: the handlers are exactly `except Exception`.', 'bounded; 1 known finding (proxy loses args / C-level attributes) recorded with its signatures', '4 C17'),
 'C18': ('other', 'Schedules are outside what contracts decide. Decided: every access to the operative record is inside `with _OPERATIVE_CONFIG_LOCK` and nothing reachable from a critical section re-acquires it (AST + ghost lock counter in gin_wrapper/clear_config); singleton_value: lookup-or-construct lies in one critical section of _SINGLETONS_LOCK (ghost counter), cached => same object and no constructor call, at most one constructor call, other keys untouched, lock released on every path. The step from lock discipline to "equals some sequential order" is the written meta-argument of DESIGN section 7 (not machine-checked). Forced two-thread schedules: bounded.', 'assumed: a mutex serialises its critical sections; DESIGN section 7; ' + B + ' (bC18)', '4 C18, 7'),
 'C19': ('exploration', 'Everything behind __import__/getattr on real modules is external: bounded over a generated package tree (import forms, aliases, include structure).', 'bounded', '4 C19'),
 'C20': ('proof', 'clear_config is total (raises nothing, for every reachable state incl. locked and interactive-mode constants), empties bindings/provenance/operative record/singletons/imports, unlocks, preserves the constants view (or leaves only gin.REQUIRED), touches nothing else (frame); store-inventory obligation: every module-level mutable store is reset by clear_config or is registration-lifetime.', 'SelectorMap clear/copy/__setitem__ contracts (tree proofs: see C08); ' + B + ' vs a fresh interpreter (bC20)', '4 C20'),
}
import os
levels = {}
checks = []
na = []
for pid in sorted(T):
  cat, text, note, ref = T[pid]
  if not os.path.exists(f'/verif/bounded/b{pid}.py') and cat in ('exploration', 'fault_enumeration'):
    na.append({'property_id': pid, 'reason': 'check not built yet (bounded module pending)'})
    continue
  levels[pid] = {'category': cat, 'text': text}
  tech = {'proof': 'deductive: VC generation from the real AST + SMT discharge (z3/cvc5); bounded stand-in for unreachable parts',
          'other': 'deductive lock-ownership obligations + sequential contracts + written meta-argument',
          'exploration': 'bounded run-time contracts on the real code (stand-in where no contract can decide); AST/proved extras reported separately',
          'fault_enumeration': 'bounded fault injection against run-time contracts; proved extras reported separately'}[cat]
  checks.append({
      'property_id': pid, 'quick_cmd': f'./vcheck {pid} --tier quick',
      'thorough_cmd': f'./vcheck {pid} --tier thorough',
      'evidence_file': f'evidence/{pid}.json',
      'replay_cmd_template': './vcheck replay {path}', 'engine': 'pyvc',
      'level_claimed': {'category': cat, 'text': text, 'design_ref': 'DESIGN.md section ' + ref},
      'level_note': note, 'technique': tech})
m = {
 'version': 1,
 'setup_cmd': './setup.sh',
 'hooks': {'guard': 'GIN_CONFIG_VERIF', 'enable': 'no hooks in /repo: contracts are sidecar files under /verif/contracts, run-time contracts wrap gin from outside',
           'baseline_off_cmd': 'cd /repo && /venv/bin/python -m pytest -ra -q -p no:cacheprovider --timeout=900 --continue-on-collection-errors',
           'source_commits': [], 'add_only': True},
 'engines': [{'name': 'pyvc', 'path': 'pyvc/', 'serves_properties': sorted(T),
              'kind_free_text': 'VC generator for a Python subset (symbolic execution of the real AST, contracts, loop invariants, ghost state) + z3/cvc5 portfolio'},
             {'name': 'bounded', 'path': 'bounded/', 'serves_properties': sorted(T),
              'kind_free_text': 'run-time contracts on the real gin over enumerated bounded spaces (stand-in, refuter and replayer)'}],
 'checks': checks,
 'not_applicable': na,
 'notes': 'Every check regenerates its obligations from /repo\'s working tree on every run. known_findings.json lists recorded genuine defects (KNOWN-FINDING lines) and fixed ones.',
}
json.dump(m, open('/verif/MANIFEST.json', 'w'), indent=1)
json.dump(levels, open('/verif/levels.json', 'w'), indent=1)
print(len(checks), 'checks;', [n['property_id'] for n in na])
