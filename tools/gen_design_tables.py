"""Dev tool: print the as-built per-property table for DESIGN.md from the registry + lock."""
import json, os, sys, collections
sys.path.insert(0, os.path.dirname(os.path.dirname(os.path.abspath(__file__))))
from pyvc import run
reg = run.load_contracts()
lock = json.load(open('obligations.lock.json'))
levels = json.load(open('levels.json'))
for pid in sorted(lock):
  qs = [q for q, c in reg.items() if pid in c.props]
  proved = [q for q in qs if reg[q].kind == 'proved' and not reg[q].skip_proof]
  assumed = [q for q in qs if q not in proved]
  names = lock[pid]['proved']
  per = collections.Counter()
  for n in names:
    parts = n.split('/')
    fn = parts[1] if parts[0] == pid and len(parts) > 1 else parts[0]
    per[fn] += 1
  short = lambda q: q.split('::')[1] + ('' if q.startswith('config.py') else f' ({q.split("::")[0]})')
  print(f'**{pid}** ({levels[pid]["category"]}; {lock[pid]["count"]} obligations) — proved: ' +
        ', '.join(f'`{short(q)}`' for q in proved) + '. Assumed contracts: ' +
        (', '.join(f'`{short(q)}`' for q in assumed) or 'none') + '.')
  print()
