"""Dev tool: apply each semantics-preserving refactoring /tmp/refactor/patchNN.diff to a scratch
worktree and run the checks of every property that has a contract on a touched function.
Expected: no VIOLATION, exit 0 (UNDECIDED-PROOF lines are fine).  Results are written to
selftest/refactorings/ (patches + results.json)."""
import ast, glob, json, os, re, shutil, subprocess, sys
sys.path.insert(0, os.path.dirname(os.path.dirname(os.path.abspath(__file__))))

scratch = sys.argv[1]
only = sys.argv[2:]
OUT = '/verif/selftest/refactorings'
SRC = os.environ.get('REFACTOR_DIR', '/tmp/refactor')
BATCH = os.environ.get('REFACTOR_BATCH', 'a')
os.makedirs(OUT, exist_ok=True)


def sh(cmd, cwd=None, env=None):
  p = subprocess.run(cmd, shell=True, cwd=cwd, env=env, capture_output=True, text=True)
  return p.returncode, p.stdout + p.stderr


def touched_functions(scratch):
  """Qualified names (file::A.b.c) of the functions containing changed lines."""
  rc, diff = sh('git diff -U0', cwd=scratch)
  out = set()
  cur = None
  for line in diff.splitlines():
    if line.startswith('+++ b/'):
      cur = line[6:]
    m = re.match(r'@@ -\d+(?:,\d+)? \+(\d+)(?:,(\d+))? @@', line)
    if m and cur and cur.endswith('.py'):
      lo = int(m.group(1)); n = int(m.group(2) or 1)
      tree = ast.parse(open(os.path.join(scratch, cur)).read())

      def walk(node, prefix):
        for ch in ast.iter_child_nodes(node):
          if isinstance(ch, (ast.FunctionDef, ast.AsyncFunctionDef, ast.ClassDef)):
            q = prefix + [ch.name]
            if ch.lineno <= lo + max(n - 1, 0) and lo <= ch.end_lineno:
              if not isinstance(ch, ast.ClassDef):
                out.add(os.path.basename(cur) + '::' + '.'.join(q))
            walk(ch, q)
          else:
            walk(ch, prefix)
      walk(tree, [])
  return out


from pyvc import run
reg = run.load_contracts()
res_path = OUT + f'/results_{BATCH}.json'
results = json.load(open(res_path)) if os.path.exists(res_path) else {}
readme = {}
if os.path.exists(SRC + '/README.md'):
  for l in open(SRC + '/README.md'):
    m = re.match(r'\W*(\d\d)\W+(.*)', l)
    if m:
      readme[m.group(1)] = m.group(2).strip()
for patch in sorted(glob.glob(SRC + '/patch*.diff')):
  nn = BATCH + re.search(r'patch(\d+)', patch).group(1)
  if only and nn not in only and nn[1:] not in only:
    continue
  sh('git reset -q --hard; git checkout -q --detach main && git reset -q --hard && git clean -fdq', cwd=scratch)
  rc, o = sh(f'git apply {patch}', cwd=scratch)
  if rc != 0:
    results[nn] = {'status': 'does not apply: ' + o[-200:]}
    continue
  fns = touched_functions(scratch)
  props = set()
  for q, c in reg.items():
    base = (c.target or q).split('#')[0]
    if any(base == f or base.startswith(f + '.') or f.startswith(base + '.') for f in fns):
      props |= set(c.props)
  entry = {'what': readme.get(nn[1:], ''), 'functions': sorted(fns), 'properties': sorted(props),
           'checks': {}}
  for p in sorted(props):
    rc, o = sh(f'./vcheck {p} --tier quick', cwd='/verif', env=dict(os.environ, PYVC_REPO=scratch))
    lines = [l[:260] for l in o.splitlines()
             if l.startswith(('VIOLATION', 'UNDECIDED', 'CHECK-ERROR', 'NOTE'))]
    failed = []
    for l in lines:
      if l.startswith('VIOLATION'):
        try:
          failed.append(json.load(open(l.split('replay=')[1].split()[0])).get('obligation'))
        except Exception:
          pass
    entry['checks'][p] = {'exit': rc, 'lines': lines[:6], 'failed': failed[:4]}
  entry['false_alarm'] = [p for p, c in entry['checks'].items() if c['exit'] != 0]
  results[nn] = entry
  shutil.copy(patch, f'{OUT}/refactor{nn}.diff')
  print(nn, entry['what'][:70], '| props', entry['properties'], '| FALSE-ALARM' if entry['false_alarm'] else '| ok',
        {p: c['failed'] or c['lines'][:1] for p, c in entry['checks'].items() if c['exit'] != 0 or c['lines']})
  sh('git reset -q --hard && git clean -fdq', cwd=scratch)
  json.dump(results, open(res_path, 'w'), indent=1, sort_keys=True)
