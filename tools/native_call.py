"""Run one real gin function on concrete inputs (JSON on stdin) and print what happened."""
import json
import sys

req = json.load(sys.stdin)
from gin import config_parser, config   # noqa: E402

mods = {'config_parser.py': config_parser, 'config.py': config}
fname, path = req['qual'].split('#')[0].split('::')
obj = mods[fname]
parts = path.split('.')
out = {}
try:
  if req.get('self') is not None:
    cls = getattr(obj, parts[0])
    inst = cls(**req['self'])
    attr = getattr(inst, parts[1])
    res = attr(*req['args']) if callable(attr) else attr
  else:
    fn = obj
    for p in parts:
      fn = getattr(fn, p)
    res = fn(*req['args'])
  out['result'] = list(res) if isinstance(res, tuple) else res
except Exception as e:     # the real function raised
  out['exception'] = type(e).__name__
  out['message'] = str(e)[:200]
print(json.dumps(out))
