"""Dev selftest: the text of every VC must not depend on which other functions were processed
in the same run.  Generates every function (a) in one process together with all others and
(b) alone after a registry reset, and compares the digests of the obligations."""
import sys, os
sys.path.insert(0, os.path.dirname(os.path.dirname(os.path.abspath(__file__))))
from pyvc import run, extract, solve


TEXTS = {}


def digests(reg, repo, quals, want):
  out = {}
  for q in quals:
    c = reg[q]
    if c.kind != 'proved' or c.skip_proof:
      continue
    r = run.generate(repo, c)
    if q in want:
      out[q] = sorted((ob.name, pi, solve.digest(solve.to_smt2(ob.hyps, ob.goal)))
                      for ob, pi in r.obligations)
      TEXTS[q, len(TEXTS.get('n' + q, []))] = {(ob.name, pi): solve.to_smt2(ob.hyps, ob.goal)
                                                for ob, pi in r.obligations}
      TEXTS.setdefault('n' + q, []).append(1)
  return out


reg = run.load_contracts()
repo = extract.Repo(None)
allq = list(reg)
sel = [q for q in allq if not sys.argv[1:] or any(a in q for a in sys.argv[1:])]
full = digests(reg, repo, allq, set(sel))
bad = 0
for q in sel:
  if q not in full:
    continue
  reg = run.load_contracts()
  alone = digests(reg, repo, [q], {q})
  if alone[q] != full[q]:
    bad += 1
    diff = [a for a, b in zip(alone[q], full[q]) if a != b][:2]
    print('CONTEXT-DEPENDENT', q, len(alone[q]), len(full[q]), diff)
    if os.environ.get('CTX_DUMP'):
      a, b = TEXTS[q, 0], TEXTS[q, 1]
      for k in a:
        if a[k] != b.get(k):
          open('/tmp/ctx_full.smt2', 'w').write(a[k])
          open('/tmp/ctx_alone.smt2', 'w').write(b.get(k) or '')
          print('   texts of', k, 'written to /tmp/ctx_full.smt2 /tmp/ctx_alone.smt2')
          sys.exit(1)
print('functions compared:', len(full), 'context-dependent:', bad)
sys.exit(1 if bad else 0)
