"""Dev tool: confirm a seeded change (tests pass, demo fails with / passes without),
run our check(s) against it, and record everything under /verif/seeded/<id>/.

usage: python3 tools/seed_eval.py <scratch-worktree> <PID> <n> [extra PIDs to also run]
"""
import json
import os
import shutil
import subprocess
import sys

scratch, pid, n = sys.argv[1], sys.argv[2], sys.argv[3]
extra = sys.argv[4:]
src = os.environ.get('SEED_SRC', '/tmp/seedout') + f'/{pid}'
name = f"{pid}-{int(n) + int(os.environ.get('SEED_OFFSET', '0'))}"
out = f'/verif/seeded/{name}'
TESTS = ('/venv/bin/python -m pytest -q -p no:cacheprovider tests/config_test.py '
         'tests/config_parser_test.py tests/selector_map_test.py tests/resource_reader_test.py')


def sh(cmd, cwd=None, env=None, timeout=1800):
  p = subprocess.run(cmd, shell=True, cwd=cwd, env=env, capture_output=True, text=True,
                     timeout=timeout)
  return p.returncode, (p.stdout + p.stderr)


meta = {'id': name, 'property': pid, 'source': 'independent sub-agent given only the property text',
        'round': 1 + int(os.environ.get('SEED_OFFSET', '0')) // 2 if int(os.environ.get('SEED_OFFSET', '0')) <= 2 else int(os.environ.get('SEED_ROUND', '3'))}
if name in ('C07-2', 'C05-2'):
  meta['ported'] = 'the original patch conflicted with a later fix: commit; re-applied by hand to the current tree, same change'
patch = f'{src}/patch{n}.diff'
demo = f'{src}/demo{n}.py'
notes = f'{src}/notes{n}.md'
if not os.path.exists(patch):
  print(name, 'no patch')
  sys.exit(0)
sh('git reset -q --hard; git checkout -q --detach main && git reset -q --hard && git clean -fdq', cwd=scratch)
rc, o = sh(f'git apply {patch}', cwd=scratch)
if rc != 0:
  rc, o = sh(f'git apply --3way {patch}', cwd=scratch)
  meta['applied_with'] = '--3way'
  if 'conflict' in o.lower():
    rc = 1
if rc != 0:
  meta['status'] = 'patch does not apply to the current tree: ' + o[-300:]
  print(name, meta['status'])
  os.makedirs(out, exist_ok=True)
  json.dump(meta, open(f'{out}/meta.json', 'w'), indent=1)
  sys.exit(0)
sh('git reset -q', cwd=scratch)
rc, diff = sh('git diff', cwd=scratch)
env = dict(os.environ, PYTHONPATH=scratch)
rc, o = sh(TESTS, cwd=scratch, env=env)
meta['tests_with_patch'] = o.strip().splitlines()[-1]
tests_ok = '6 failed, 128 passed' in meta['tests_with_patch']
rc_p, o_p = sh(f'/venv/bin/python {demo}', cwd=scratch, env=env, timeout=300)
meta['demo_with_patch'] = {'exit': rc_p, 'tail': o_p.strip()[-400:]}
rc_c, o_c = sh(f'/venv/bin/python {demo}', cwd='/repo', env=dict(os.environ, PYTHONPATH='/repo'),
               timeout=300)
meta['demo_on_unchanged_tree'] = {'exit': rc_c, 'tail': o_c.strip()[-200:]}
meta['confirmed'] = bool(tests_ok and rc_p != 0 and rc_c == 0)
checks = {}
for p in [pid] + extra:
  rc, o = sh(f'./vcheck {p} --tier quick', cwd='/verif',
             env=dict(os.environ, PYVC_REPO=scratch))
  lines = [l for l in o.splitlines() if l.startswith(('VIOLATION', 'UNDECIDED', 'CHECK-ERROR', p + ':'))]
  obl = []
  for l in lines:
    if l.startswith('VIOLATION'):
      rp = l.split('replay=')[1].split()[0]
      try:
        obl.append(json.load(open(rp)).get('obligation'))
      except Exception:
        pass
  checks[p] = {'exit': rc, 'lines': [l[:300] for l in lines][:8], 'failed': sorted(set(obl))[:8]}
meta['checks'] = checks
meta['detected_by'] = [p for p, c in checks.items() if c['exit'] == 1]
meta['what_it_needs'] = open(notes).read()[:1500] if os.path.exists(notes) else ''
meta['ran'] = ['git apply patch.diff (scratch worktree of /repo)', TESTS,
               f'/venv/bin/python demo.py (with and without the patch)',
               'PYVC_REPO=<scratch> ./vcheck <property> --tier quick']
os.makedirs(out, exist_ok=True)
open(f'{out}/patch.diff', 'w').write(diff)
shutil.copy(demo, f'{out}/demo.py')
if os.path.exists(notes):
  shutil.copy(notes, f'{out}/notes.md')
json.dump(meta, open(f'{out}/meta.json', 'w'), indent=1)
sh('git reset -q --hard && git clean -fdq', cwd=scratch)
print(name, 'confirmed' if meta['confirmed'] else 'NOT-CONFIRMED', 'detected_by', meta['detected_by'],
      {p: c['failed'][:2] for p, c in checks.items()})
