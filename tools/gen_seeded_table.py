"""Dev tool: markdown tables for DESIGN.md section 10 from seeded/*/meta.json and
selftest/regressions/results.json."""
import glob, json, os, re

print('| id | what the change does (first line of the author\'s note) | confirmed | detected by | failing obligations (first two) |')
print('|---|---|---|---|---|')
for d in sorted(glob.glob('/verif/seeded/*/')):
  m = json.load(open(d + 'meta.json'))
  note = ''
  if os.path.exists(d + 'notes.md'):
    first = open(d + 'notes.md').read().strip().splitlines()[0]
    note = re.sub(r'^#+\s*', '', first)
    note = re.sub(r'^C\d\d\s*(patch|mutant)?\s*\d*\s*[—:-]*\s*', '', note)
  chk = m.get('checks', {})
  failed = []
  for p, c in chk.items():
    failed += c.get('failed', [])
  kinds = 'proof obligation' if any(not f.startswith('bounded/') for f in failed) else 'bounded oracle'
  if any('/ast::' in f for f in failed):
    kinds = 'AST obligation'
  print(f"| {m['id']} | {note[:110]} | {'yes' if m.get('confirmed') else 'NO'} | "
        f"{', '.join(m.get('detected_by', [])) or 'MISSED'} ({kinds}) | "
        f"{'; '.join('`' + f.split('::')[-1] + '`' for f in failed[:2])} |")
print()
print('| regression (reverse patch of fix) | properties | detected by | failing obligations (first two per property) |')
print('|---|---|---|---|')
res = json.load(open('/verif/selftest/regressions/results.json'))
for name, e in sorted(res.items()):
  if 'status' in e:
    print(f'| {name} | - | {e["status"][:60]} | |')
    continue
  fl = []
  for p, c in e['checks'].items():
    fl += ['`' + f.split('::')[-1] + '`' for f in c['failed'][:2]]
  print(f"| {name} | {', '.join(e['properties'])} | {', '.join(e['detected_by']) or 'MISSED'} | {'; '.join(fl[:4])} |")
