"""Dev tool: markdown tables for DESIGN.md section 10 from seeded/*/meta.json and
selftest/regressions/results.json."""
import glob, json, os, re

print('| id | what the change does (first line of the author\'s note) | confirmed | detected by | failing obligations (first two) |')
print('|---|---|---|---|---|')
for d in sorted(glob.glob('/verif/seeded/*/')):
  m = json.load(open(d + 'meta.json'))
  note = ''
  if os.path.exists(d + 'notes.md'):
    first = open(d + 'notes.md').read().strip().splitlines()[0]
    note = re.sub(r'^#+\s*', '', first)
    note = re.sub(r'^C\d\d\s*(patch|mutant)?\s*\d*\s*[—:-]*\s*', '', note)
  chk = m.get('checks', {})
  failed = []
  for p, c in chk.items():
    failed += c.get('failed', [])
  kinds = 'proof obligation' if any(not f.startswith('bounded/') for f in failed) else 'bounded oracle'
  if any('/ast::' in f for f in failed):
    kinds = 'AST obligation'
  print(f"| {m['id']} | {note[:110]} | {'yes' if m.get('confirmed') else 'NO'} | "
        f"{', '.join(m.get('detected_by', [])) or 'MISSED'} ({kinds}) | "
        f"{'; '.join('`' + f.split('::')[-1] + '`' for f in failed[:2])} |")
print()
print('| regression (reverse patch of fix) | properties | detected by | failing obligations (first two per property) |')
print('|---|---|---|---|')
res = json.load(open('/verif/selftest/regressions/results.json'))
for name, e in sorted(res.items()):
  if 'status' in e:
    print(f'| {name} | - | {e["status"][:60]} | |')
    continue
  fl = []
  for p, c in e['checks'].items():
    fl += ['`' + f.split('::')[-1] + '`' for f in c['failed'][:2]]
  print(f"| {name} | {', '.join(e['properties'])} | {', '.join(e['detected_by']) or 'MISSED'} | {'; '.join(fl[:4])} |")

# ---- section 11: harmless rewrites
print()
print('| id | function | rewrite | properties checked | result |')
print('|---|---|---|---|---|')
tot = fa = lost = 0
for f in sorted(glob.glob('/verif/selftest/refactorings/results_*.json')):
  for k, e in sorted(json.load(open(f)).items()):
    if 'status' in e:
      continue
    tot += 1
    und = sorted({l.split('function=')[1].split()[0].split('::')[-1]
                  for c in e['checks'].values() for l in c['lines'] if l.startswith('UNDECIDED')})
    res = 'FALSE ALARM: ' + ', '.join(e['false_alarm']) if e['false_alarm'] else (
        'quiet; proof lost for ' + ', '.join(und) if und else 'quiet, all proofs kept')
    fa += bool(e['false_alarm'])
    lost += bool(und) and not e['false_alarm']
    what = e['what'].split('|')
    fn = what[1].strip() if len(what) > 2 else ', '.join(x.split('::')[-1] for x in e['functions'])
    desc = what[-1].strip() if what else ''
    print(f"| {k} | `{fn}` | {desc[:90]} | {', '.join(e['properties'])} | {res} |")
print()
print(f'Total {tot} rewrites: {fa} false alarms, {lost} quiet with a lost proof, '
      f'{tot - fa - lost} quiet with every proof kept.')
