"""Dev tool: proof-tier-only re-evaluation of the kept harmless rewrites
(selftest/refactorings/refactor*.diff): apply each to a scratch worktree and re-prove the contracts
of the touched functions.  A `NOT PROVED` obligation is a false alarm of the proof tier, an
out-of-subset function a lost proof.  Results: selftest/refactorings/proof_results.json.

usage: python3-vt tools/refactor_proof_eval.py <scratch-worktree> [ids...]
"""
import glob, json, os, re, subprocess, sys, ast
sys.path.insert(0, os.path.dirname(os.path.dirname(os.path.abspath(__file__))))
scratch = sys.argv[1]
only = sys.argv[2:]
OUT = '/verif/selftest/refactorings'


def sh(cmd, cwd=None, env=None):
  p = subprocess.run(cmd, shell=True, cwd=cwd, env=env, capture_output=True, text=True)
  return p.returncode, p.stdout + p.stderr


def touched_functions(scratch):
  rc, diff = sh('git diff -U0', cwd=scratch)
  out, cur = set(), None
  for line in diff.splitlines():
    if line.startswith('+++ b/'):
      cur = line[6:]
    m = re.match(r'@@ -\d+(?:,\d+)? \+(\d+)(?:,(\d+))? @@', line)
    if m and cur and cur.endswith('.py'):
      lo = int(m.group(1)); n = int(m.group(2) or 1)
      tree = ast.parse(open(os.path.join(scratch, cur)).read())

      def walk(node, prefix):
        for ch in ast.iter_child_nodes(node):
          if isinstance(ch, (ast.FunctionDef, ast.AsyncFunctionDef, ast.ClassDef)):
            q = prefix + [ch.name]
            if ch.lineno <= lo + max(n - 1, 0) and lo <= ch.end_lineno:
              if not isinstance(ch, ast.ClassDef):
                out.add(os.path.basename(cur) + '::' + '.'.join(q))
            walk(ch, q)
          else:
            walk(ch, prefix)
      walk(tree, [])
  return out


from pyvc import run, extract
from pyvc import contract as C
reg = run.load_contracts()
res_path = OUT + '/proof_results.json'
results = json.load(open(res_path)) if os.path.exists(res_path) else {}
for patch in sorted(glob.glob(OUT + '/refactor*.diff')):
  nn = re.search(r'refactor(\w+)\.diff', patch).group(1)
  if only and nn not in only:
    continue
  sh('git reset -q --hard; git checkout -q --detach main && git reset -q --hard && git clean -fdq', cwd=scratch)
  rc, o = sh(f'git apply {patch}', cwd=scratch)
  if rc != 0:
    results[nn] = {'status': 'does not apply'}
    continue
  fns = touched_functions(scratch)
  quals = []
  for q, c in reg.items():
    base = (c.target or q).split('#')[0]
    if any(base == f or base.startswith(f + '.') or f.startswith(base + '.') for f in fns):
      if c.kind == 'proved' and not c.skip_proof:
        quals.append(q)
  repo = extract.Repo(scratch)
  fres, index, res, wall = run.check_functions(repo, quals)
  lost = {q: r.detail[:160] for q, r in fres.items() if r.status != 'ok'}
  by = {}
  for key, (ob, pi, q) in index.items():
    by.setdefault((ob.name, ob.kind), []).append(res[key]['verdict'])
  bad = []
  for (name, kind), vs in by.items():
    ok = any(v != 'unsat' for v in vs) if kind == 'canary' else all(v == 'unsat' for v in vs)
    if not ok:
      bad.append(name)
  results[nn] = {'functions': sorted(fns), 'contracts': quals, 'not_proved': bad, 'lost_proof': lost}
  print(nn, sorted(fns), 'NOT-PROVED ' + str(bad[:3]) if bad else 'ok', 'LOST ' + str(lost) if lost else '',
        flush=True)
  sh('git reset -q --hard && git clean -fdq', cwd=scratch)
  json.dump(results, open(res_path, 'w'), indent=1, sort_keys=True)
