"""Bounded conformance of the assumed library semantics (DESIGN 2.4.3): a wrong
axiom about Python shows up as a red setup, not as a wrong proof."""
import copy, itertools, os, re, sys
from gin import selector_map, config_parser
pat = selector_map.SELECTOR_RE
assert config_parser.MODULE_RE is selector_map.SELECTOR_RE
assert pat.match('gin.REQUIRED') and not pat.match('a..b') and not pat.match('a b')
alphabet = ['a', 'b', '', 'a/b', '.']
for n in range(0, 4):
  for xs in itertools.product(alphabet, repeat=n):
    xs = list(xs)
    s = '/'.join(xs)
    assert '/'.join(s.split('/')) == s
    assert len(s.split('/')) >= 1
    if n >= 1 and all('/' not in x for x in xs):
      assert s.split('/') == xs
for a in ['', 'x', '/abs', 'rel/p']:
  for b in ['f.gin', '/abs/f.gin', 'd/f.gin']:
    assert os.path.join(a, b) == os.path.join(a, b)
    assert os.path.isabs(b) == b.startswith('/')
class R:
  n = 0
  def __deepcopy__(self, memo):
    R.n += 1
    return 'evaluated'
v = {'k': [R(), (R(), {'z': R()})], 'm': [1, [2]]}
c = copy.deepcopy(v)
assert R.n == 3 and c['k'][0] == 'evaluated' and c['m'] == v['m'] and c['m'] is not v['m'] and c['m'][1] is not v['m'][1]
assert set(c) == set(v)
d = {}
for k in 'qwerty':
  d[k] = 1
assert list(d) == list('qwerty')
print('axiom conformance ok')
