"""Bounded conformance of the assumed library semantics (DESIGN 2.4.3): a wrong
axiom about Python shows up as a red setup, not as a wrong proof."""
import copy, itertools, os, re, sys
from gin import selector_map, config_parser
pat = selector_map.SELECTOR_RE
assert config_parser.MODULE_RE is selector_map.SELECTOR_RE
assert pat.match('gin.REQUIRED') and not pat.match('a..b') and not pat.match('a b')
alphabet = ['a', 'b', '', 'a/b', '.']
for n in range(0, 4):
  for xs in itertools.product(alphabet, repeat=n):
    xs = list(xs)
    s = '/'.join(xs)
    assert '/'.join(s.split('/')) == s
    assert len(s.split('/')) >= 1
    if n >= 1 and all('/' not in x for x in xs):
      assert s.split('/') == xs
for a in ['', 'x', '/abs', 'rel/p']:
  for b in ['f.gin', '/abs/f.gin', 'd/f.gin']:
    assert os.path.join(a, b) == os.path.join(a, b)
    assert os.path.isabs(b) == b.startswith('/')
class R:
  n = 0
  def __deepcopy__(self, memo):
    R.n += 1
    return 'evaluated'
v = {'k': [R(), (R(), {'z': R()})], 'm': [1, [2]]}
c = copy.deepcopy(v)
assert R.n == 3 and c['k'][0] == 'evaluated' and c['m'] == v['m'] and c['m'] is not v['m'] and c['m'][1] is not v['m'][1]
assert set(c) == set(v)
d = {}
for k in 'qwerty':
  d[k] = 1
assert list(d) == list('qwerty')
print('axiom conformance ok')

# ---- the list / dict / str semantics pyvc/world.py and pyvc/sym.py assume, on random instances ----
import random
rng = random.Random(0)


def clamp_lo(k, n):      # VList.suffix / prefix index normalisation as encoded in pyvc/sym.py
  return (max(n + k, 0) if k < 0 else min(k, n))


N = 0
for _ in range(4000):
  n = rng.randrange(0, 6)
  xs = [rng.choice('abc') for _ in range(n)]
  k = rng.randrange(-7, 8)
  s = clamp_lo(k, n)
  assert xs[k:] == [xs[i + s] for i in range(n - s)], (xs, k)          # suffix view
  assert xs[:k] == xs[:clamp_lo(k, n)] and len(xs[:k]) == clamp_lo(k, n)   # prefix view
  assert xs[::-1] == [xs[n - 1 - i] for i in range(n)] == list(reversed(xs))
  if n:
    ys = list(xs); assert ys.pop(-1) == xs[-1] and ys == xs[:-1]       # pop(-1) is pop()
    zs = list(xs); assert zs.pop() == xs[n - 1] and zs == xs[:n - 1]
    *init, last = xs
    assert init == xs[:-1] and last == xs[-1]                          # starred unpacking
  # dict(zip(keys, vals)): present iff some pair has the key; the LAST such pair wins
  m = rng.randrange(0, 6)
  vs = [rng.randrange(10) for _ in range(m)]
  d = dict(zip(xs, vs))
  L = min(n, m)
  for key in 'abc':
    idx = [i for i in range(L) if xs[i] == key]
    assert (key in d) == bool(idx)
    if idx:
      assert d[key] == vs[idx[-1]]
  # update: right operand wins, keys are the union
  e = {rng.choice('abc'): rng.randrange(10) for _ in range(rng.randrange(3))}
  u = dict(d); u.update(e)
  assert set(u) == set(d) | set(e) and all(u[k] == (e[k] if k in e else d[k]) for k in u)
  # enumerate / zip lengths, comprehension = pointwise map, filter keeps order
  assert [(i, x) for i, x in enumerate(xs)] == list(zip(range(n), xs))
  assert [x + '!' for x in xs] == [xs[i] + '!' for i in range(n)]
  flt = [x for x in xs if x != 'a']
  assert flt == [xs[i] for i in range(n) if xs[i] != 'a']
  # strings: concatenation is associative with unit ''; split/join round trips
  a, b, c3 = (''.join(rng.choice('ab.') for _ in range(rng.randrange(3))) for _ in range(3))
  assert (a + b) + c3 == a + (b + c3) == f'{a}{b}{c3}' == '{}{}{}'.format(a, b, c3)
  assert a + '' == a == '' + a
  assert '.'.join(a.split('.')) == a and len(a.split('.')) >= 1
  comps = [rng.choice(['x', 'yy', 'z1']) for _ in range(rng.randrange(1, 5))]
  assert '.'.join(comps).split('.') == comps                            # dot-free components
  j = rng.randrange(1, len(comps) + 1)
  assert '.'.join(comps[-j:]).split('.') == comps[len(comps) - j:]      # suffix of the components
  t = a + '/' + b
  assert t.rsplit('/', 1) == [t[:t.rindex('/')], t[t.rindex('/') + 1:]]
  assert (a + b == '') == (a == '' and b == '')
  N += 1
# object() is a fresh object; getattr with default; UnboundLocalError is a NameError
sentinel = object()
assert all(sentinel is not v for v in (None, 0, '', (), sentinel.__class__))
assert getattr(sentinel, 'nope', 7) == 7
assert issubclass(UnboundLocalError, NameError)
# a generator context manager of the inlined shape runs `fin` on both exits
import contextlib
log = []


@contextlib.contextmanager
def cm():
  log.append('pre')
  try:
    yield
  finally:
    log.append('fin')


with cm():
  pass
try:
  with cm():
    raise KeyError
except KeyError:
  pass
assert log == ['pre', 'fin', 'pre', 'fin']
print('library semantics conformance ok on', N, 'random instances')
