"""Dev tool: re-introduce each repaired defect (reverse patch of a fix: commit) in a scratch
worktree and run the checks of the properties the fix is recorded under.

usage: python3 tools/regress_eval.py <scratch-worktree>   -> selftest/regressions/results.json
"""
import glob, json, os, subprocess, sys

scratch = sys.argv[1]
only = sys.argv[2:]
fixed = [f for f in json.load(open('/verif/known_findings.json'))['findings'] if f['kind'] == 'fixed']


def sh(cmd, cwd=None, env=None):
  p = subprocess.run(cmd, shell=True, cwd=cwd, env=env, capture_output=True, text=True)
  return p.returncode, p.stdout + p.stderr


res_path = os.environ.get('REGRESS_OUT', '/verif/selftest/regressions/results.json')
results = json.load(open(res_path)) if os.path.exists(res_path) and only else {}
for patch in sorted(glob.glob('/verif/selftest/regressions/rev*.diff')):
  name = os.path.basename(patch)[:-5]
  if only and not any(o in name for o in only):
    continue
  commit = name.split('-')[1]
  props = sorted({f['property'] for f in fixed if f['commit'].startswith(commit[:7])})
  sh('git reset -q --hard; git checkout -q --detach main && git reset -q --hard && git clean -fdq', cwd=scratch)
  rc, o = sh(f'git apply {patch}', cwd=scratch)
  if rc != 0:
    rc, o = sh(f'git apply --3way {patch}', cwd=scratch)
    if rc != 0 or 'conflict' in o.lower():
      results[name] = {'status': 'reverse patch does not apply: ' + o[-200:]}
      print(name, results[name])
      continue
  entry = {'properties': props, 'checks': {}}
  for p in props:
    rc, o = sh(f'./vcheck {p} --tier quick', cwd='/verif', env=dict(os.environ, PYVC_REPO=scratch))
    failed = []
    for l in o.splitlines():
      if l.startswith('VIOLATION'):
        try:
          failed.append(json.load(open(l.split('replay=')[1].split()[0])).get('obligation'))
        except Exception:
          pass
    entry['checks'][p] = {'exit': rc, 'failed': sorted(set(failed))[:6],
                          'no_input': sum('no-failing-input-found' in l for l in o.splitlines()
                                          if l.startswith('VIOLATION'))}
  entry['detected_by'] = [p for p, c in entry['checks'].items() if c['exit'] == 1]
  results[name] = entry
  print(name, 'detected_by', entry['detected_by'], {p: c['failed'][:2] for p, c in entry['checks'].items()})
  sh('git reset -q --hard && git clean -fdq', cwd=scratch)
json.dump(results, open(res_path, 'w'), indent=1, sort_keys=True)
