#!/bin/sh
# dev tool: run every check once (quick tier), print one line per property
cd "$(dirname "$0")/.."
for p in C01 C02 C03 C04 C05 C06 C07 C08 C09 C10 C11 C12 C13 C14 C15 C16 C17 C18 C19 C20; do
  ./vcheck $p --tier ${1:-quick} > /tmp/vcheck_$p.out 2>&1
  echo "exit=$? $(grep -c KNOWN-FINDING /tmp/vcheck_$p.out) known  $(tail -n 1 /tmp/vcheck_$p.out)"
done
