"""Dev tool (never run by a check): assemble known_findings.json from reviewed inputs."""
import json, subprocess

def sigs(pid):
  out = []
  for f in (f'/tmp/sigs_{pid}.json', f'/tmp/sigsT_{pid}.json'):
    try:
      for e in json.load(open(f)):
        if e not in out:
          out.append(e)
    except Exception:
      pass
  return out

def by_clause(pid, pred):
  d = {}
  for e in sigs(pid):
    if pred(e):
      d.setdefault(e['clause'], []).append(e['signature'])
  return d

F = []
def finding(pid, clause, signatures, text):
  F.append({'property': pid, 'kind': 'finding',
            'match': {'clause': clause, 'signatures': sorted(set(signatures))}, 'text': text})

# ---- C06
for cl, ss in by_clause('C06', lambda e: 'class_ref_in_statement_that_registers_its_method' in e['signature']).items():
  finding('C06', cl, ss, 'dynamic registration: a reference to a class written in the statement that first '
          'registers one of its methods stays bound to the class\'s previous registration, so config_str() '
          'drops/reorders that binding (input: `dr.Class.method.arg = @dr.Class()` as first use)')
for cl, ss in by_clause('C06', lambda e: 'configurable_with_only_nonliteral_values' in e['signature']).items():
  finding('C06', cl, ss, 'a configurable whose only bindings have no literal form is emitted as an empty '
          '"# None." section, which is not reproduced after re-parsing (bind_parameter(\'f.x\', object()))')
for cl, ss in by_clause('C06', lambda e: 'late_registration' in e['signature']).items():
  finding('C06', cl, ss, 'a reference written with a selector that a LATER registration made ambiguous '
          '(`f.x = @foo`, then registering other.mod.foo) is omitted from config_str() although a longer '
          'selector would represent it')
# ---- C16
for cl, ss in by_clause('C16', lambda e: 'bad_block_member' in e['signature']).items():
  finding('C16', cl, ss, 'a syntactic fault in a later member of an indented block discards the block\'s '
          'earlier members (the whole block is parsed before its first member is applied)')
for cl, ss in by_clause('C16', lambda e: 'starts_with_quote' in e['signature'] or 'lookahead' in e['signature']).items():
  finding('C16', cl, ss, 'a tokenizer fault in the first token of the statement following a complete statement '
          'loses that preceding statement (one-token lookahead after NEWLINE), e.g. "f.x = 1\\n\'abc = 2"')
for cl, ss in by_clause('C16', lambda e: 'continuation_line' in e['signature']).items():
  finding('C16', cl, ss, 'an unknown reference on a continuation line of a multi-line value is reported on the '
          'reference\'s line, not on the line where the offending statement begins')
# ---- C17
for cl, ss in by_clause('C17', lambda e: True).items():
  finding('C17', cl, ss, 'the exception proxy carrying the augmented message has args == () and C-level / '
          'class-shadowed attributes (errno, filename, value, name, msg, lineno, ...) read as defaults; '
          'classes with required __new__ arguments and exception groups are masked by TypeError')

# ---- C19
for cl, ss in by_clause('C19', lambda e: 'selector-collision' in e['signature']).items():
  finding('C19', cl, ss, 'dynamic registration: an import alias equal to a sibling module\'s name puts two '
          'different objects on one selector (ImportStatement.partial_path substitutes the alias into the '
          'module path): `import pkg.beta.other as util` then `from pkg.beta import util` -> ValueError')
for cl, ss in by_clause('C19', lambda e: 'root-not-imported' in e['signature'] or 'attribute-not-found' in e['signature']
                        or 'holder_receives=other_class' in e['signature']).items():
  finding('C19', cl, ss, 'dynamic registration: registering a method re-initialises EXISTING references through '
          'the CURRENT file\'s parse context, so a reference written in an earlier file is re-pointed to '
          'another module or the later parse fails with NameError/AttributeError')
for cl, ss in by_clause('C19', lambda e: ('spellings=many' in e['signature'] and 'other_class' not in e['signature'])
                        or 'method-module-mismatch' in e['signature'] or 'raises LookupError' in e['signature']).items():
  finding('C19', cl, ss, 'dynamic registration: configuring a method through a second import spelling of its class '
          're-registers the class under a selector built from that spelling, orphaning the bindings made '
          'through the first spelling (`u.K.a = 1` then `util.K.meth.m = 2` -> K().a == 0)')

fixed = [
 ('C12', '37937d6', 'unlock_config did not restore the lock when its body raised'),
 ('C08', '1489b30', 'ParsedBindingKey.__equal__ typo: two hooks spelling one parameter differently were not a conflict'),
 ('C12', '1489b30', 'same defect as seen from finalize: conflicting hook updates spelled differently were accepted'),
 ('C08', 'a09a7c8', 'SelectorMap.copy shared tree nodes with its original'),
 ('C20', 'a09a7c8', 'same defect as seen from clear_config (constants restored from a shallow copy)'),
 ('C08', '8f23cfe', 'minimal_selector returned the full name for a single-chain tree'),
 ('C09', '2683856', 'config_scope popped the enclosing scope when evaluating its argument raised before the push'),
 ('C02', '0084e35', "adjacent string literals with an empty piece ('' 'a') were glued into an unparseable/other literal"),
 ('C02', 'ff84b52', "a leading '-' before a reference or macro was silently dropped"),
 ('C04', '25be1b8', 'a bound @ref() was still evaluated when the caller supplied that parameter by keyword'),
 ('C06', '2451342', 'macros without a literally representable value were emitted unparseably'),
 ('C07', '2451342', 'operative_config_str raised KeyError after a failed use of an unbound macro'),
 ('C06', '1507e78', 'config_str order depended on binding order for names differing only in case'),
 ('C20', '60db4bd', 'clear_config raised on constants defined in interactive mode'),
 ('C18', '8141013', 'singleton_value could construct twice under concurrent first use'),
 ('C13', 'f14100e', "names ending in a newline were accepted ('$' instead of '\\Z' in the patterns); rejection was not atomic for classes with registered methods"),
 ('C05', 'f14100e', "constant names ending in a newline were accepted"),
 ('C12', '8970e84', 'finalize inside an active config_scope did not reject unbound/unevaluated macros'),
 ('C05', '8970e84', 'same defect as seen from the macro rules of finalize'),
 ('C05', 'a1acd8e', 'macros used only as dict keys were not validated by finalize'),
 ('C03', '98cc789', 'config_str depended on blank lines when one module was imported under two aliases (set order)'),
 ('C06', '98cc789', 'same defect as seen from the canonical-text clause'),
 ('C14', '8275931', 'a namespace package on sys.path made the package reader raise TypeError instead of moving on / IOError'),
 ('C06', 'ecf8852', 'config_str raised for values whose repr tokenizes badly or names unknown/ambiguous references'),
 ('C19', '4a00414', "config_str() put the dynamic-registration import after modules whose names sort before '__gin__', so the text did not parse"),
 ('C11', '88efae2', 'a class without a constructor of its own accepted a binding for any parameter name (object.__init__ has **kwargs)'),
 ('C06', 'f525abe', "a macro with a dotted name bound through bind_parameter('%pkg.name', v) was emitted as `pkg.name = v`, which does not parse back"),
 ('C15', '60af78b', 'under dynamic registration skip_unknown consulted only the registry (dropped importable-but-unregistered targets, kept registered-but-unimportable ones)'),
]
for pid, commit, text in fixed:
  F.append({'property': pid, 'kind': 'fixed', 'commit': commit,
            'text': f'fixed: property={pid} {commit} {text}'})
json.dump({'findings': F}, open('/verif/known_findings.json', 'w'), indent=1)
print(len(F), 'entries;', sum(1 for f in F if f['kind']=='finding'), 'open findings')
