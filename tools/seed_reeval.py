"""Dev tool: re-run the check of its property against kept seeded changes (seeded/<id>/patch.diff)
and refresh meta.json's `checks` / `detected_by`.

usage: python3 tools/seed_reeval.py <scratch-worktree> <id> [<id> ...]
"""
import json
import os
import subprocess
import sys

scratch = sys.argv[1]


def sh(cmd, cwd=None, env=None, timeout=3600):
  p = subprocess.run(cmd, shell=True, cwd=cwd, env=env, capture_output=True, text=True,
                     timeout=timeout)
  return p.returncode, (p.stdout + p.stderr)


for name in sys.argv[2:]:
  d = f'/verif/seeded/{name}'
  meta = json.load(open(f'{d}/meta.json'))
  pid = meta['property']
  sh('git reset -q --hard; git checkout -q --detach main && git reset -q --hard && git clean -fdq',
     cwd=scratch)
  rc, o = sh(f'git apply {d}/patch.diff', cwd=scratch)
  if rc != 0:
    print(name, 'patch does not apply', o[-200:])
    continue
  rc, o = sh(f'./vcheck {pid} --tier quick', cwd='/verif', env=dict(os.environ, PYVC_REPO=scratch))
  lines = [l for l in o.splitlines()
           if l.startswith(('VIOLATION', 'UNDECIDED', 'CHECK-ERROR', pid + ':'))]
  obl = []
  for l in lines:
    if l.startswith('VIOLATION'):
      rp = l.split('replay=')[1].split()[0]
      try:
        obl.append(json.load(open(rp)).get('obligation'))
      except Exception:
        pass
  und = [l[:300] for l in lines if l.startswith('UNDECIDED')]
  meta['checks'] = {pid: {'exit': rc, 'lines': ([l[:300] for l in lines if not l.startswith('UNDECIDED')][:6]
                                                + und[:3] + [l[:300] for l in lines[-1:]]),
                          'failed': sorted(set(x for x in obl if x))[:8]}}
  meta['detected_by'] = [pid] if rc == 1 else []
  json.dump(meta, open(f'{d}/meta.json', 'w'), indent=1)
  sh('git reset -q --hard && git clean -fdq', cwd=scratch)
  print(name, 'exit', rc, meta['checks'][pid]['failed'][:2], und[:1], flush=True)
