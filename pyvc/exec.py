"""pyvc.exec -- symbolic executor for the Python subset used by gin's functions.

Path enumeration is by *replay*: one execution follows one path from the entry
of the function under verification to an end point; every symbolic decision is
recorded, and unexplored alternatives are queued and re-executed from scratch.
Loops are cut at the invariants supplied by the contract (init / step / exit),
calls to functions under contract are replaced by the callee's contract.
"""
import ast
import re
import z3

from pyvc import sym
from pyvc.sym import (OutOfSubset, PyRaise, VBool, VInt, VStr, VNone, NONE,
                      VObj, VList, VDict, VTuple, VOpt, VRecord, VExc, VPy,
                      KBool, KInt, KStr, KVal, KList, KDict, KSet, KTuple, KOpt,
                      KRecord, coerce, kind_of)
from pyvc import extract
from pyvc import contract as C


class ReturnSig(Exception):

  def __init__(self, value):
    self.value = value


class BreakSig(Exception):
  pass


class ContinueSig(Exception):
  pass


class PathEnd(Exception):
  """Path finished early (e.g. after a loop-step check, or infeasible)."""


class Obligation:

  def __init__(self, name, hyps, goal, props, kind='prove', meta=None):
    self.name = name
    self.hyps = hyps
    self.goal = goal
    self.props = props
    self.kind = kind        # 'prove' | 'canary' (must not be provable)
    self.meta = meta or {}


class Ns:
  """Attribute-style access to a dict of wrappers."""

  def __init__(self, d):
    object.__setattr__(self, '_d', d)

  def __getattr__(self, k):
    try:
      return self._d[k]
    except KeyError:
      raise OutOfSubset(f'the contract refers to `{k}`, which the code no longer '
                        f'has (renamed or restructured)')

  def __getitem__(self, k):
    try:
      return self._d[k]
    except KeyError:
      raise OutOfSubset(f'the contract refers to `{k}`, which the code no longer '
                        f'has (renamed or restructured)')

  def __contains__(self, k):
    return k in self._d

  def get(self, k, d=None):
    return self._d.get(k, d)


class Ctx:
  """Evaluation context handed to contract clauses."""

  def __init__(self, path, a, old, new, result=None, exc=None, env=None,
               ghost=None, trace=None, mid=None):
    self.path = path
    self.a = Ns(a)
    self.old = Ns(old)
    self.new = Ns(new)
    self.result = result
    self.exc = exc
    self.env = Ns(env or {})
    self.ghost = ghost if ghost is not None else {}
    self.trace = trace if trace is not None else []
    self.mid = Ns(mid or {})     # state at the yield of a context manager

  def fresh(self, name, sort):
    return self.path.fresh_const(name, sort)


def snapshot(w):
  """An immutable copy of a wrapper (for `old` values)."""
  if isinstance(w, VList):
    c = VList(w.kind, w.len, w.arr)
    c.escaped = True
    return c
  if isinstance(w, VDict):
    c = VDict(w.kind, w.dom, w.val)
    c.escaped = True
    return c
  if isinstance(w, VRecord):
    c = VRecord(w.kind, {k: snapshot(v) for k, v in w.fields.items()})
    return c
  if isinstance(w, VTuple):
    return VTuple([snapshot(i) for i in w.items], w._kind)
  if isinstance(w, VOpt):
    return VOpt(w.kind, w.is_none, snapshot(w.inner))
  return w


def working_copy(w):
  """A mutable copy with the same value (for state fields)."""
  if isinstance(w, VList):
    return VList(w.kind, w.len, w.arr)
  if isinstance(w, VDict):
    return VDict(w.kind, w.dom, w.val)
  if isinstance(w, VRecord):
    return VRecord(w.kind, {k: working_copy(v) for k, v in w.fields.items()})
  return w


class Path:

  def __init__(self, decisions, qual, props):
    self.decisions = list(decisions)
    self.pos = 0
    self.taken = []
    self.hyps = []
    self.obls = []
    self.n = 0
    self.qual = qual
    self.props = props
    self.new_alternatives = []
    self.facts = {}
    self.fact_refs = []
    self.args0 = None
    self.trace = []          # ghost events (calls to opaque callables, ...)
    self.ghost = {}
    self.notes = []

  def fresh_name(self, prefix):
    self.n += 1
    return f'{prefix}!{self.n}'

  def fresh_const(self, prefix, sort):
    return z3.Const(self.fresh_name(prefix), sort)

  def assume(self, e):
    if z3.is_true(e):
      return
    self.hyps.append(e)
    # quantifier-free literals / conjunctions are also remembered as decided facts, so that a
    # branch a precondition rules out is not explored (it would only produce obligations with
    # contradictory hypotheses, or fall out of the subset for no reason)
    if not z3.is_quantifier(e):
      s = z3.simplify(e)
      if not z3.is_quantifier(s) and (z3.is_not(s) or z3.is_and(s) or
                                      (z3.is_app(s) and s.num_args() <= 2)):
        if self._known(s) is None:
          self._learn(s, True)

  def _known(self, e):
    """Syntactic lookup of e among the facts decided so far: True/False/None."""
    i = e.get_id()
    if i in self.facts:
      return self.facts[i]
    if z3.is_not(e):
      k = self._known(e.arg(0))
      return None if k is None else (not k)
    if z3.is_and(e):
      ks = [self._known(c) for c in e.children()]
      if all(k is True for k in ks):
        return True
      if any(k is False for k in ks):
        return False
    if z3.is_or(e):
      ks = [self._known(c) for c in e.children()]
      if any(k is True for k in ks):
        return True
      if all(k is False for k in ks):
        return False
    return None

  def _learn(self, e, val):
    self.facts[e.get_id()] = val
    self.fact_refs.append(e)
    if val and z3.is_and(e):
      for c in e.children():
        self._learn(c, True)
    if (not val) and z3.is_or(e):
      for c in e.children():
        self._learn(c, False)
    if z3.is_not(e):
      self._learn(e.arg(0), not val)

  def decide(self, cond, label=''):
    orig = cond
    cond = z3.simplify(cond)
    if z3.is_true(cond):
      return True
    if z3.is_false(cond):
      return False
    k = self._known(cond)
    if k is not None:
      return k
    if self.pos < len(self.decisions):
      choice = self.decisions[self.pos]
    else:
      choice = True
      self.new_alternatives.append(self.taken + [False])
    self.pos += 1
    self.taken.append(choice)
    # the hypothesis keeps the term structure the code produced (triggers match the terms
    # that later updates are built from); the simplified form is only used for look-ups
    self.hyps.append(orig if choice else z3.Not(orig))
    self._learn(cond, choice)
    return choice

  def choose(self, n, label=''):
    if n == 1:
      return 0
    if self.pos < len(self.decisions):
      choice = self.decisions[self.pos]
    else:
      choice = 0
      for alt in range(1, n):
        self.new_alternatives.append(self.taken + [alt])
    self.pos += 1
    self.taken.append(choice)
    return choice

  def feasible(self, timeout_ms=1500):
    """False only if the path condition is PROVABLY contradictory (quick in-process check);
    unknown counts as feasible."""
    s = z3.Solver()
    s.set('timeout', timeout_ms)
    s.set('smt.mbqi', False)
    s.set('auto_config', False)
    for a in sym.background_axioms(list(self.hyps)):
      s.add(a)
    for h in self.hyps:
      s.add(h)
    return s.check() != z3.unsat

  def define(self, name, vars_, body):
    """A fresh function symbol with a definitional axiom (conservative)."""
    f = z3.Function(self.fresh_name('def_' + name),
                    *([v.sort() for v in vars_] + [body.sort()]))
    app = f(*vars_)
    self.hyps.append(z3.ForAll(list(vars_), app == body, patterns=[app]))
    return f

  def oblige(self, name, goal, props=None, kind='prove', meta=None):
    meta = dict(meta or {})
    if self.args0 is not None:
      meta.setdefault('args0', self.args0)
    self.obls.append(Obligation(name, list(self.hyps), goal,
                                props or self.props, kind, meta))


# -----------------------------------------------------------------------------


class Frame:
  """Local environment of one (possibly inlined) function activation."""

  def __init__(self, qual, fdef, env, globals_declared=None, closure=None):
    self.qual = qual
    self.fdef = fdef
    self.env = env
    self.globals_declared = globals_declared or set()
    self.closure = closure or {}
    self.fname = qual.split('::')[0]


def _is_lambda(e):
  return z3.is_quantifier(e) and e.is_lambda()


_REV = re.compile(r'([A-Za-z_][\w.]*)\[::-1\]')
_LEN_POS = re.compile(r'^len\(([A-Za-z_][\w.]*)\) (?:> 0|!= 0|>= 1)$')


_NEG = {ast.Eq: ast.NotEq, ast.NotEq: ast.Eq, ast.Lt: ast.GtE, ast.GtE: ast.Lt, ast.Gt: ast.LtE,
        ast.LtE: ast.Gt, ast.Is: ast.IsNot, ast.IsNot: ast.Is, ast.In: ast.NotIn, ast.NotIn: ast.In}


def _nnf(e, neg=False):
  """Negation normal form of a boolean expression (De Morgan, negated comparisons), as an AST."""
  if isinstance(e, ast.UnaryOp) and isinstance(e.op, ast.Not):
    return _nnf(e.operand, not neg)
  if isinstance(e, ast.BoolOp):
    op = e.op
    if neg:
      op = ast.Or() if isinstance(e.op, ast.And) else ast.And()
    return ast.BoolOp(op=op, values=[_nnf(v, neg) for v in e.values])
  if neg and isinstance(e, ast.Compare) and len(e.ops) == 1 and type(e.ops[0]) in _NEG:
    return ast.Compare(left=e.left, ops=[_NEG[type(e.ops[0])]()], comparators=e.comparators)
  return ast.UnaryOp(op=ast.Not(), operand=e) if neg else e


def _canon_while(s):
  """`while True: if not C: break; BODY` is `while C: BODY` (no else clause): the second form is
  the canonical one, so that both spellings find the same invariant."""
  if not (isinstance(s.test, ast.Constant) and s.test.value is True and not s.orelse and s.body):
    return s
  g = s.body[0]
  if not (isinstance(g, ast.If) and not g.orelse and len(g.body) == 1 and
          isinstance(g.body[0], ast.Break)):
    return s
  cond = _nnf(g.test, neg=True)
  new = ast.While(test=cond, body=s.body[1:] or [ast.Pass()], orelse=[])
  return ast.fix_missing_locations(ast.copy_location(new, s))


def _loop_key(text):
  """Normal form of a loop header used to find its invariant: spellings that denote the same
  iteration are identified (x[::-1] / reversed(x); `while xs` / `while len(xs) > 0`; De Morgan
  and negated comparisons in a while condition)."""
  text = _REV.sub(r'reversed(\1)', text)
  try:
    tree = ast.parse(text, mode='eval').body
    if isinstance(tree, (ast.BoolOp, ast.UnaryOp, ast.Compare)):
      text = ast.unparse(ast.fix_missing_locations(_nnf(tree)))
  except SyntaxError:
    pass
  m = _LEN_POS.match(text)
  if m:
    text = m.group(1)
  return text


class Executor:
  """Executes one path of one function."""

  def __init__(self, repo, contract, path, state_spec, world):
    self.repo = repo
    self.contract = contract
    self.path = path
    self.state_spec = state_spec      # name -> kind (module-level state)
    self.world = world                # contracts.world module (tables)
    self.G = {}
    self.frames = []
    self.loop_ordinals = {}
    self.with_ordinals = {}
    self.call_counter = {}
    self.depth = 0
    self.adhoc = {}        # module-level variables that are not declared state fields (see lookup)
    self.cur_stmt = None
    sym.DOWNCAST_HOOK = self._downcast_obligation

  # -- small helpers -----------------------------------------------------------
  @property
  def frame(self):
    return self.frames[-1]

  def oos(self, why, node=None):
    raise OutOfSubset(why, node)

  def _downcast_obligation(self, v, kind, unless):
    """Executed code uses the opaque value `v` where the contract declared the record kind
    `kind` (a local with a declared kind, a key or element of a declared collection, an argument
    of a callee whose contract takes that record): prove that it is an instance."""
    goal = sym.ufun('isinst_' + kind.rname, sym.Val, sym.BoolS)(v)
    if unless is not None:
      goal = z3.Or(unless, goal)
    self.path.oblige(f'{self.contract.qual}/safety/opaque_value_used_as_{kind.rname}'
                     f'#{self.at(self.cur_stmt)}', goal)
    self.path.assume(goal)

  def at(self, node):
    """Position tag for obligation names: line offset inside the function being executed (not
    the absolute line, which would rename obligations whenever code elsewhere in the file moves)."""
    ln = getattr(node, 'lineno', None)
    if ln is None or not self.frames:
      return 'L?'
    return f'L+{ln - self.frame.fdef.lineno}'

  def py_raise(self, cls, node=None, args=None, note=None):
    raise PyRaise(VExc(cls, args=args or [], note=note))

  def fresh(self, kind, prefix):
    w = kind.fresh(self.path.fresh_name(prefix))
    self.assume_wf(w)
    return w

  def assume_wf(self, w):
    """Well-formedness of a symbolic value: list lengths are non-negative."""
    if isinstance(w, VList):
      self.path.assume(w.len >= 0)
    elif isinstance(w, VOpt):
      self.assume_wf(w.inner)
    elif isinstance(w, VTuple):
      for i in w.items:
        self.assume_wf(i)
    elif isinstance(w, VRecord):
      for i in w.fields.values():
        self.assume_wf(i)
    return w

  def assume_state_wf(self, names):
    for n in names:
      if n.startswith('HELD_'):
        self.path.assume(self.G[n].e >= 0)

  def truth(self, w, node=None):
    """z3 Bool of Python truthiness (may fork for 'may raise' policy)."""
    if isinstance(w, VObj) and self.contract.val_ops_may_raise:
      self.opaque_op_may_raise('bool', node)
    return w.truthy()

  def opaque_op_may_raise(self, what, node):
    if self.path.choose(2, f'opaque-{what}-raises') == 1:
      cls = self.path.fresh_const('exccls', sym.ExcCls)
      raise PyRaise(VExc(cls, note=f'raised by {what}() of an opaque value'))

  def decide_truth(self, w, node=None):
    return self.path.decide(self.truth(w, node))

  # -- state ------------------------------------------------------------------
  def init_state(self):
    for name, kind in self.state_spec.items():
      self.G[name] = self.assume_wf(working_copy(kind.fresh('G0_' + name)))
    self.assume_state_wf(self.G)

  def snapshot_state(self):
    return {k: snapshot(v) for k, v in self.G.items()}

  def havoc_adhoc(self):
    """Other code may have run: forget what is known about undeclared module variables."""
    self.adhoc.clear()

  def havoc_state(self, names, tag='hv'):
    self.havoc_adhoc()
    for n in names:
      self.G[n] = self.assume_wf(working_copy(self.state_spec[n].fresh(
          self.path.fresh_name(f'{tag}_{n}'))))
    self.assume_state_wf(names)

  # -- name resolution --------------------------------------------------------------
  def lookup(self, name, node=None):
    fr = self.frame
    if name in fr.env and name not in fr.globals_declared:
      return fr.env[name]
    if name in fr.closure:
      return fr.closure[name]
    if name in self.G:
      lockf = self.contract.guarded.get(name)
      if lockf is not None:
        self.path.oblige(f'{self.contract.qual}/lock/{name}/accessed_under_lock',
                         self.G[lockf].e > 0)
      return self.G[name]
    if name in self.adhoc:
      return self.adhoc[name]
    k = self.world.adhoc_global_kind(self, fr.fname, name)
    if k is not None:
      # a mutable module-level variable outside the declared state: arbitrary on first read,
      # stable until the next point at which other code may run (havoc_adhoc)
      self.adhoc[name] = self.assume_wf(working_copy(k.fresh(self.path.fresh_name('g_' + name))))
      return self.adhoc[name]
    w = self.world.resolve_global(self, fr.fname, name)
    if w is not None:
      return w
    if name in self.local_names(fr):
      # a local read before any assignment on this path: Python raises UnboundLocalError
      self.py_raise('UnboundLocalError', node, note=f'local `{name}` read before assignment')
    self.oos(f'unresolved name {name}', node)

  def local_names(self, fr):
    if not hasattr(fr, '_local_names'):
      fr._local_names = extract.bound_names(fr.fdef.body) - fr.globals_declared
    return fr._local_names

  def assign_name(self, name, w, node=None):
    fr = self.frame
    if name in fr.globals_declared:
      if name not in self.G:
        k = self.world.adhoc_global_kind(self, fr.fname, name)
        if k is None:
          self.oos(f'global {name} is not a declared state field', node)
        self.adhoc[name] = coerce(self.world.materialize(self, w, k), k)
        return
      self.G[name] = coerce(self.world.materialize(self, w, self.state_spec[name]),
                            self.state_spec[name])
      return
    if isinstance(w, VRecord) and w.kind.rname == 'SelTree':
      from pyvc import tree as _tree
      w = _tree.root_of(w)       # a local bound to the tree is a cursor at its root
    lk = self.contract.local_kinds.get(name)
    if lk is None:
      lk = self.contract.local_kinds.get(fr.qual.split('::')[-1] + ':' + name)
    if lk is not None and not isinstance(w, VNone):
      if isinstance(w, VOpt) and not isinstance(lk, KOpt):
        self.path.oblige(f'{self.contract.qual}/safety/{name}_not_none'
                         f'#{self.at(node)}', z3.Not(w.is_none))
        self.path.assume(z3.Not(w.is_none))
        w = w.inner
      w = coerce(self.world.materialize(self, w, lk), lk)
    fr.env[name] = w

  # -- running the function under verification ------------------------------------
  def run_entry(self, fdef):
    c = self.contract
    self.init_state()
    env = {}
    closure = {}
    for name, spec in c.free.items():
      closure[name] = spec(self) if callable(spec) and not isinstance(spec, sym.Kind) \
          else self.fresh(spec, 'free_' + name)
    args = {}
    if c.cls_param:
      env[fdef.args.args[0].arg] = VPy('recclass', c.cls_param)
    if c.self_kind is not None:
      sname = fdef.args.args[0].arg
      env[sname] = working_copy(self.fresh(c.self_kind, 'self'))
      args[sname] = env[sname]
    self.check_signature(fdef, c)
    for name, (kind, default) in c.params.items():
      env[name] = working_copy(self.fresh(kind, 'arg_' + name))
      args[name] = env[name]
    if c.vararg:
      env[c.vararg[0]] = self.fresh(c.vararg[1], 'varargs')
      args[c.vararg[0]] = env[c.vararg[0]]
    if c.kwarg:
      env[c.kwarg[0]] = working_copy(self.fresh(c.kwarg[1], 'kwargs'))
      args[c.kwarg[0]] = env[c.kwarg[0]]
    self.args0 = {k: snapshot(v) for k, v in args.items()}
    self.path.args0 = self.args0
    self.closure0 = closure
    self.old = self.snapshot_state()
    fr = Frame(c.target or c.qual, fdef, env, closure=closure)
    self.frames.append(fr)
    ctx = self.ctx()
    if c.ghost_init:
      c.ghost_init(ctx)
    if c.setup:
      c.setup(self, ctx)
    for gname, init in c.ghost_vars.items():
      fr.env['ghost_' + gname] = init(self.ctx())
    for cl in c.requires:
      self.path.assume(cl.fn(ctx))
    for cl in c.assumes:         # class invariants / global definitions: not checked at call sites
      self.path.assume(cl.fn(ctx))
    self.entry_hyps = len(self.path.hyps)
    self.path.oblige(f'{c.qual}/vacuity/requires', z3.BoolVal(False),
                     kind='canary', meta={'why': 'precondition must be satisfiable'})
    outcome = None
    try:
      if c.is_cm:
        outcome = self.run_cm_body(fdef)
      else:
        try:
          self.exec_block(fdef.body)
          outcome = ('return', NONE)
        except ReturnSig as r:
          outcome = ('return', r.value)
        except PyRaise as r:
          outcome = ('raise', r.exc)
    except PathEnd:
      return
    self.check_exit(outcome)

  def check_signature(self, fdef, c):
    """The contract's parameter list must match the real signature."""
    a = fdef.args
    real = [x.arg for x in a.posonlyargs + a.args + a.kwonlyargs]
    if c.self_kind is not None or c.cls_param:
      real = real[1:]
    declared = list(c.params)
    if real != declared:
      self.oos(f'signature changed: real parameters {real}, contract '
               f'declares {declared}', fdef)
    if bool(a.vararg) != bool(c.vararg) or bool(a.kwarg) != bool(c.kwarg):
      self.oos('signature changed: *args/**kwargs differ from contract', fdef)

  def ctx(self, result=None, exc=None, mid=None):
    env = dict(self.frames[0].env) if self.frames else {}
    a = dict(self.args0)
    a.update(self.closure0)
    ctx = Ctx(self.path, a, self.old, self.snapshot_state(), result, exc,
              env, self.path.ghost, self.path.trace, mid)
    be = getattr(self, 'cm_body_end', None)
    if be is not None:
      ctx.body_end = Ns(be)
    if self.contract.self_kind is not None and self.frames:
      sname = self.frames[0].fdef.args.args[0].arg
      ctx.self_new = self.frames[0].env.get(sname)
      ctx.self_old = self.args0.get(sname)
    return ctx

  def check_exit(self, outcome):
    c = self.contract
    kind, payload = outcome
    q = c.qual
    if kind == 'return':
      res = payload
      if isinstance(res, VOpt) and c.result is not None and not isinstance(c.result, KOpt):
        self.path.oblige(f'{q}/safety/result_not_none', z3.Not(res.is_none))
        self.path.assume(z3.Not(res.is_none))
        res = res.inner
      if c.result is not None and (not isinstance(res, VNone) or isinstance(c.result, KOpt)):
        res = coerce(self.world.materialize(self, res, c.result), c.result)
      ctx = self.ctx(result=res, mid=getattr(self, 'cm_mid', None))
      if c.at_return:
        c.at_return(self, ctx)      # ghost code: lemmas/hints (proved, then assumed)
      clauses = c.cm_exit if c.is_cm else c.ensures
      for cl in clauses:
        self.path.oblige(f'{q}/ensures/{cl.label}', cl.fn(ctx), cl.props)
      self.check_frame(ctx, 'return')
      for cl in c.canaries:
        self.path.oblige(f'{q}/canary/{cl.label}', cl.fn(ctx), kind='canary')
      self.path.oblige(f'{q}/vacuity/return-path', z3.BoolVal(False), kind='canary',
                       meta={'why': 'some normal-return path must be feasible',
                             'group': 'return'})
    else:
      exc = payload
      ctx = self.ctx(exc=exc)
      for cl in c.exc_ensures:
        self.path.oblige(f'{q}/raises/{cl.label}', cl.fn(ctx), cl.props,
                         meta={'exc': repr(exc), 'note': exc.note})
      matched = []
      for case in c.raises:
        is_case = sym.exc_sub(exc.cls, sym.exc_const(case.exc))
        cond = is_case
        if case.when is not None:
          cond = z3.And(is_case, case.when(ctx))
        matched.append(cond)
        for cl in case.ensures:
          self.path.oblige(f'{q}/raises/{case.label}/{cl.label}',
                           z3.Implies(cond, cl.fn(ctx)), cl.props)
      if c.raises_only_listed:
        self.path.oblige(f'{q}/raises/only_listed',
                         z3.Or(*matched) if matched else z3.BoolVal(False),
                         meta={'exc': repr(exc), 'note': exc.note})
      self.check_frame(ctx, 'raise')

  def check_frame(self, ctx, how):
    c = self.contract
    for name, kind in self.state_spec.items():
      if name in c.modifies:
        continue
      base = getattr(self, 'frame_base', None) or self.old
      old, new = base[name], self.G[name]
      if _same(old, new):
        continue
      self.path.oblige(f'{c.qual}/frame/{how}/{name}', kind.eq(old, new))

  # -- context managers (generator based) -------------------------------------------
  def run_cm_body(self, fdef):
    self.cm_yielded = False
    self.cm_mid = None
    try:
      self.exec_block(fdef.body)
    except ReturnSig:
      pass
    except PyRaise as r:
      if not self.cm_yielded:
        return ('raise', r.exc)      # failed while entering
      self.check_cm_exit_exc(r.exc, swallowed=False)
      raise PathEnd()
    if not self.cm_yielded:
      self.oos('context manager returned without yielding', fdef)
    if self.cm_body_exc is not None:
      self.check_cm_exit_exc(self.cm_body_exc, swallowed=True)
      raise PathEnd()
    return ('return', NONE)

  def do_yield(self, node, value):
    c = self.contract
    if not c.is_cm or self.depth > 0:
      self.oos('yield outside a context-manager contract', node)
    if self.cm_yielded:
      self.oos('second yield in a context manager', node)
    self.cm_yielded = True
    self.cm_mid = self.snapshot_state()
    ctx = self.ctx(result=value, mid=self.cm_mid)
    for cl in c.cm_enter:
      self.path.oblige(f'{c.qual}/enter/{cl.label}', cl.fn(ctx), cl.props)
    self.check_frame(ctx, 'enter')
    self.cm_body_exc = None
    # the body of the client's `with` runs here: arbitrary but bounded by body_frame
    self.havoc_adhoc()
    if c.cm_body_havoc:
      self.havoc_state(sorted(c.cm_body_havoc), 'body')
    ctxb = self.ctx(mid=self.cm_mid)
    for cl in c.cm_body_assume:
      self.path.assume(cl.fn(ctxb))
    self.cm_body_end = self.snapshot_state()
    self.frame_base = self.cm_body_end    # the exit part is framed against this
    if self.path.choose(2, 'with-body-raises') == 1:
      cls = self.path.fresh_const('bodyexc', sym.ExcCls)
      ident = self.path.fresh_const('bodyexc_id', sym.Val)
      self.cm_body_exc = VExc(cls, ident=ident, note='raised by the with-body')
      raise PyRaise(self.cm_body_exc)
    return NONE

  def check_cm_exit_exc(self, exc, swallowed):
    c = self.contract
    ctx = self.ctx(exc=exc, mid=self.cm_mid)
    ctx.swallowed = swallowed
    ctx.body_exc = self.cm_body_exc
    for cl in c.cm_exit_exc:
      self.path.oblige(f'{c.qual}/exit_exc/{cl.label}', cl.fn(ctx), cl.props)
    if swallowed and not c.cm_swallows:
      self.path.oblige(f'{c.qual}/exit_exc/does_not_swallow', z3.BoolVal(False))
    self.check_frame(ctx, 'exit_exc')

  # -- statements ---------------------------------------------------------------
  def exec_block(self, stmts):
    for s in stmts:
      self.exec_stmt(s)

  def exec_stmt(self, s):
    for pred, why in self.contract.abstract_stmts:
      if self.depth == 0 and pred(s):
        # statement-level abstraction: the variables it assigns become arbitrary
        names = extract.assigned_names([s])
        for nm in names:
          lk = self.contract.local_kinds.get(nm)
          if lk is not None and nm not in self.frame.env:
            self.frame.env[nm] = working_copy(self.fresh(lk, 'abs_' + nm))
        self.havoc_locals(names, 'abs')
        return
    m = getattr(self, 'st_' + type(s).__name__, None)
    if m is None:
      self.oos(f'statement {type(s).__name__}', s)
    if self.depth == 0:
      self.cur_stmt = s
    m(s)
    if self.depth == 0 and self.contract.hints:
      for pred, cl in self.contract.hints:
        if pred(s):
          try:
            g = cl.fn(self.ctx())
          except OutOfSubset:
            continue          # the code no longer has that shape: no hint
          self.path.oblige(f'{self.contract.qual}/hint/{cl.label}', g, cl.props)
          self.path.assume(g)

  def st_Pass(self, s):
    pass

  def st_Global(self, s):
    self.frame.globals_declared.update(s.names)

  def st_Expr(self, s):
    if isinstance(s.value, ast.Constant):
      return  # docstring
    if (isinstance(s.value, ast.Call) and isinstance(s.value.func, ast.Attribute)
        and isinstance(s.value.func.value, ast.Name)
        and s.value.func.value.id == 'logging'):
      return  # dropped (reported by extract.dropped_items)
    self.ev(s.value)

  def st_Assign(self, s):
    v = self.ev(s.value)
    for t in s.targets:
      self.assign(t, v)

  def st_AnnAssign(self, s):
    if s.value is not None:
      self.assign(s.target, self.ev(s.value))

  def st_AugAssign(self, s):
    cur = self.ev(_load(s.target))
    rhs = self.ev(s.value)
    self.assign(s.target, self.binop(type(s.op).__name__, cur, rhs, s))

  def assign(self, t, v):
    if isinstance(t, ast.Name):
      self.assign_name(t.id, v, t)
    elif isinstance(t, (ast.Tuple, ast.List)):
      star = [i for i, e in enumerate(t.elts) if isinstance(e, ast.Starred)]
      if star:
        self.assign_starred(t, v)
        return
      items = self.unpack(v, t)
      if len(items) != len(t.elts):
        self.oos('unpack arity mismatch', t)
      for e, it in zip(t.elts, items):
        self.assign(e, it)
    elif isinstance(t, ast.Attribute):
      obj = self.ev(t.value)
      self.set_attr(obj, t.attr, v, t)
    elif isinstance(t, ast.Subscript):
      obj = self.ev(t.value)
      self.set_item(obj, self.ev_index(t.slice), v, t)
    else:
      self.oos(f'assignment target {type(t).__name__}', t)

  def assign_starred(self, t, v):
    """`*a, b = lst` / `a, *b, c = lst` on a symbolic list."""
    if isinstance(v, VTuple):
      v = v.kind_list() if hasattr(v, 'kind_list') else None
    if not isinstance(v, VList):
      self.oos('starred unpacking of a non-list', t)
    si = [i for i, e in enumerate(t.elts) if isinstance(e, ast.Starred)][0]
    before = t.elts[:si]
    after = t.elts[si + 1:]
    need = len(before) + len(after)
    if not self.path.decide(v.len >= need):
      self.py_raise('ValueError', t, note='not enough values to unpack')
    for i, e in enumerate(before):
      self.assign(e, v.get(i))
    for j, e in enumerate(after):
      self.assign(e, v.get(v.len - len(after) + j))
    mid = v.suffix(len(before)).prefix(v.len - need)
    self.assign(t.elts[si].value, VList(v.kind, z3.simplify(v.len - need), mid.arr))

  def unpack(self, v, node):
    if isinstance(v, VTuple):
      return v.items
    if isinstance(v, VRecord) and getattr(v.kind, 'tuple_order', None):
      return [v.fields[f] for f in v.kind.tuple_order]
    if isinstance(v, VList) and isinstance(node, (ast.Tuple, ast.List)):
      ln = z3.simplify(v.len)
      if z3.is_int_value(ln):
        if ln.as_long() != len(node.elts):
          self.py_raise('ValueError', node, note='wrong number of values to unpack')
        return [v.get(i) for i in range(ln.as_long())]
      if not self.path.decide(v.len == len(node.elts)):
        self.py_raise('ValueError', node, note='wrong number of values to unpack')
      return [v.get(i) for i in range(len(node.elts))]
    if isinstance(v, VObj) and isinstance(node, (ast.Tuple, ast.List)):
      n = len(node.elts)
      vlen = sym.ufun('val_len', sym.Val, sym.IntS)(v.e)
      if not self.path.decide(vlen == n):
        self.py_raise('ValueError', node, note='wrong number of values to unpack')
      item = sym.ufun('val_item', sym.Val, sym.IntS, sym.Val)
      return [VObj(item(v.e, z3.IntVal(i))) for i in range(n)]
    self.oos(f'unpacking of {v!r}', node)

  def st_Return(self, s):
    raise ReturnSig(self.ev(s.value) if s.value is not None else NONE)

  def st_Break(self, s):
    raise BreakSig()

  def st_Continue(self, s):
    raise ContinueSig()

  def narrow(self, test, truth):
    """After `x is None` / `x is not None` on a local optional was decided, the local is
    known not to be None on the corresponding branch: it is replaced by its inner value."""
    if isinstance(test, ast.UnaryOp) and isinstance(test.op, ast.Not):
      return self.narrow(test.operand, not truth)
    if isinstance(test, ast.Compare) and len(test.ops) == 1:
      left, right = test.left, test.comparators[0]
      if isinstance(left, ast.Constant) and left.value is None and isinstance(right, ast.Name):
        left, right = right, left                     # `None is x`
      if not (isinstance(left, ast.Name) and isinstance(right, ast.Constant) and
              right.value is None):
        return
      not_none = (isinstance(test.ops[0], ast.IsNot) and truth) or \
                 (isinstance(test.ops[0], ast.Is) and not truth)
      name = left.id
      v = self.frame.env.get(name)
      if not_none and isinstance(v, VOpt) and name not in self.contract.local_kinds:
        self.frame.env[name] = v.inner

  def st_If(self, s):
    t = self.decide_truth(self.ev(s.test), s.test)
    self.narrow(s.test, t)
    if t:
      self.exec_block(s.body)
    else:
      self.exec_block(s.orelse)

  def st_Assert(self, s):
    if not self.decide_truth(self.ev(s.test), s.test):
      self.py_raise('AssertionError', s)

  def st_Raise(self, s):
    if s.exc is None:
      if not getattr(self, 'handling', None):
        self.oos('bare raise outside handler', s)
      raise PyRaise(self.handling[-1])
    v = self.ev(s.exc)
    if isinstance(v, VPy) and v.what == 'excclass':
      v = VExc(v.payload)
    if not isinstance(v, VExc):
      self.oos('raise of a non-exception value', s)
    raise PyRaise(v)

  def st_Delete(self, s):
    for t in s.targets:
      if isinstance(t, ast.Subscript):
        obj = self.ev(t.value)
        k = self.ev_index(t.slice)
        if self.world._treeish(obj):
          from pyvc import tree as _tree
          _tree.node_method(self, obj, 'pop', [k], {}, s)
          continue
        if isinstance(obj, VDict):
          if not self.path.decide(obj.has(k)):
            self.py_raise('KeyError', s)
          obj.delete(k)
          continue
      self.oos('del of this target', s)

  def st_FunctionDef(self, s):
    self.frame.env[s.name] = VPy('closure', (s, self.frame))

  def st_Try(self, s):
    pending = None
    try:
      try:
        self.exec_block(s.body)
      except PyRaise as r:
        handled = False
        for h in s.handlers:
          if self.handler_matches(h, r.exc):
            handled = True
            if h.name:
              self.frame.env[h.name] = r.exc
            self.handling = getattr(self, 'handling', []) + [r.exc]
            try:
              self.exec_block(h.body)
            finally:
              self.handling = self.handling[:-1]
            break
        if not handled:
          raise
      else:
        self.exec_block(s.orelse)
    except (PyRaise, ReturnSig, BreakSig, ContinueSig) as sig:
      pending = sig
    if s.finalbody:
      self.exec_block(s.finalbody)
    if pending is not None:
      raise pending

  def handler_matches(self, h, exc):
    if h.type is None:
      return True
    names = []
    t = h.type
    elts = t.elts if isinstance(t, ast.Tuple) else [t]
    for e in elts:
      if isinstance(e, ast.Name):
        names.append(e.id)
      elif isinstance(e, ast.Attribute):
        names.append(e.attr)
      else:
        self.oos('exception class expression', h)
    cond = z3.Or(*[sym.exc_sub(exc.cls, sym.exc_const(n)) for n in names])
    return self.path.decide(cond, 'except')

  # -- with -----------------------------------------------------------------------
  def st_With(self, s):
    if len(s.items) != 1:
      self.oos('with with several items', s)
    item = s.items[0]
    n = self.ordinal('with', s)
    cmv = self.ev_cm(item.context_expr)
    cmv.enter(self, item, s)
    pending = None
    try:
      self.exec_block(s.body)
    except (PyRaise, ReturnSig, BreakSig, ContinueSig) as sig:
      pending = sig
    if isinstance(pending, PyRaise):
      swallowed = cmv.exit_exc(self, pending.exc, s)
      if not swallowed:
        self.run_checkpoints(f'with#{n}:exit')
        raise pending
    else:
      cmv.exit_ok(self, s)
      self.run_checkpoints(f'with#{n}:exit')
      if pending is not None:
        raise pending

  def ev_cm(self, node):
    """Evaluates a context-manager expression to a CM driver object."""
    if isinstance(node, ast.Name) and node.id in self.world.LOCKS:
      return LockCM(node.id, self.world.LOCKS[node.id])
    if isinstance(node, ast.Call):
      fn = self.ev(node.func)
      args, kwargs = self.ev_args(node)
      if isinstance(fn, VPy) and fn.what in ('func', 'method'):
        qual = self.world.qual_of(self, fn)
        c = C.REGISTRY.get(qual)
        if c is not None and c.is_cm:
          return ContractCM(c, args, kwargs, node)
        if qual in getattr(self.world, 'INLINE_CMS', ()):
          selfw = fn.payload[0] if fn.what == 'method' else None
          return InlineCM(qual, args, kwargs, selfw, node)
      if isinstance(fn, VObj) or (isinstance(fn, VPy) and fn.what == 'opaque'):
        return OpaqueCM(fn, args, kwargs, node)
    self.oos('unsupported context manager expression', node)

  def ordinal(self, kind, node):
    table = self.loop_ordinals if kind == 'loop' else self.with_ordinals
    key = (id(self.frame.fdef), kind)
    if key not in table:
      if kind == 'loop':
        nodes = extract.loops_of(self.frame.fdef)
      else:
        nodes = [n for n in _walk_no_defs(self.frame.fdef) if isinstance(n, ast.With)]
      table[key] = {id(n): i for i, n in enumerate(nodes)}
    return table[key][id(node)]

  def run_checkpoints(self, anchor):
    if self.depth > 0:
      return
    for cl in self.contract.checkpoints.get(anchor, []):
      ctx = self.ctx()
      self.path.oblige(f'{self.contract.qual}/at/{anchor}/{cl.label}', cl.fn(ctx),
                       cl.props)

  # -- loops ------------------------------------------------------------------------
  def loop_spec(self, s, n):
    """The contract's spec for this loop: matched by the loop's source shape
    (iterable text [+ a body fragment]) where given, else by ordinal."""
    if self.depth != 0:
      return None
    for key, spec in self.contract.loops.items():
      if isinstance(key, tuple):
        it_text, frag = key
        src = ast.unparse(s.iter) if isinstance(s, ast.For) else ast.unparse(s.test)
        if _loop_key(src) == _loop_key(it_text) and (frag is None or
                               any(frag in ast.unparse(b) for b in s.body)):
          return spec
    return self.contract.loops.get(n)

  def st_While(self, s):
    n = self.ordinal('loop', s)
    s = _canon_while(s)
    spec = self.loop_spec(s, n)
    if spec is None:
      self.oos(f'while loop #{n} has no invariant', s)
    self.cut_loop(s, n, spec, None)

  def st_For(self, s):
    n = self.ordinal('loop', s) if self.depth == 0 else None
    s = self.canon_for(s)
    spec = self.loop_spec(s, n)
    it = self.ev_iter(s.iter)
    if isinstance(it, list):          # concrete sequence: unroll
      self.unrolled_for(s, it)
      return
    if spec is None:
      self.oos(f'for loop #{n} over a symbolic collection has no invariant', s)
    self.cut_loop(s, n, spec, it)

  def canon_for(self, s):
    """`for k in d: v = d[k]; ...` over a dict is the same iteration as
    `for k, v in d.items(): ...` (d is not rebound or mutated by the first statement); the
    second spelling is the canonical one, so that both find the same invariant."""
    if not (isinstance(s.target, ast.Name) and isinstance(s.iter, ast.Name) and s.body):
      return s
    st = s.body[0]
    if not (isinstance(st, ast.Assign) and len(st.targets) == 1 and
            isinstance(st.targets[0], ast.Name) and isinstance(st.value, ast.Subscript) and
            isinstance(st.value.value, ast.Name) and st.value.value.id == s.iter.id and
            isinstance(st.value.slice, ast.Name) and st.value.slice.id == s.target.id and
            st.targets[0].id not in (s.target.id, s.iter.id)):
      return s
    d = self.frame.env.get(s.iter.id, self.G.get(s.iter.id))
    if not isinstance(d, VDict):
      return s
    new = ast.For(
        target=ast.Tuple(elts=[s.target, st.targets[0]], ctx=ast.Store()),
        iter=ast.Call(func=ast.Attribute(value=s.iter, attr='items', ctx=ast.Load()),
                      args=[], keywords=[]),
        body=s.body[1:] or [ast.Pass()], orelse=s.orelse)
    return ast.fix_missing_locations(ast.copy_location(new, s))

  def unrolled_for(self, s, items):
    broke = False
    for it in items:
      self.assign(s.target, it)
      try:
        self.exec_block(s.body)
      except BreakSig:
        broke = True
        break
      except ContinueSig:
        continue
    if not broke:
      self.exec_block(s.orelse)

  def ev_iter(self, node):
    """Evaluates the iterable of a `for`: a Python list of wrappers (concrete
    length) or an `Iter` object (symbolic length)."""
    v = self.ev(node)
    return self.as_iter(v, node)

  def as_iter(self, v, node):
    if isinstance(v, VPy) and v.what in ('emptylist', 'emptydict', 'emptyset'):
      return []
    if isinstance(v, VTuple):
      return list(v.items)
    if isinstance(v, VList):
      n = z3.simplify(v.len)
      if z3.is_int_value(n) and n.as_long() <= 8:
        return [v.get(i) for i in range(n.as_long())]
      it = Iter(v.len, lambda i: v.get(i))
      it.lst = v                      # the list iterated over (for invariants: no local name needed)
      for a in ('keys', 'idx', 'dict'):          # a list made from a dict keeps its key index
        if hasattr(v, 'dict_' + a):
          setattr(it, a, getattr(v, 'dict_' + a))
      return it
    if isinstance(v, Iter):
      return v
    if isinstance(v, VDict):
      return self.dict_iter(v, 'keys')
    if isinstance(v, VObj):
      # an opaque iterable: some finite sequence of opaque items; producing the
      # next item may raise (e.g. a parser hitting a syntax error)
      n = self.path.fresh_const('itlen', sym.IntS)
      self.path.assume(n >= 0)
      item = sym.ufun('iter_item', sym.Val, sym.IntS, sym.Val)
      it = Iter(n, lambda j, v=v: VObj(item(v.e, j)))
      it.may_raise = True
      it.source = v
      return it
    if isinstance(v, VOpt):
      self.path.oblige(f'{self.contract.qual}/safety/iter_not_none#{self.at(node)}',
                       z3.Not(v.is_none))
      self.path.assume(z3.Not(v.is_none))
      return self.as_iter(v.inner, node)
    self.oos(f'iteration over {v!r}', node)

  def dict_iter(self, d, what):
    """Iteration order of a dict: a duplicate-free list of exactly its keys."""
    kk = d.kind.key
    n = self.path.fresh_const('dlen', sym.IntS)
    keys = self.path.fresh_const('dkeys', z3.ArraySort(sym.IntS, kk.sort()))
    idx = z3.Function(self.path.fresh_name('didx'), kk.sort(), sym.IntS)
    i = z3.Int('i!di')
    k = z3.Const('k!di', kk.sort())
    self.path.assume(n >= 0)
    self.path.assume(z3.ForAll([i], z3.Implies(
        z3.And(0 <= i, i < n), z3.And(d.dom[keys[i]], idx(keys[i]) == i)),
        patterns=[keys[i]]))
    self.path.assume(z3.ForAll([k], z3.Implies(
        d.dom[k], z3.And(0 <= idx(k), idx(k) < n, keys[idx(k)] == k)),
        patterns=[idx(k)]))
    dom, val = d.dom, d.val
    it = Iter(n, None)
    it.keys, it.idx, it.dict = keys, idx, d
    if what == 'keys':
      it.at = lambda j: kk.unbox(keys[j])
    elif what == 'values':
      it.at = lambda j: d.kind.val.unbox(z3.Select(val, keys[j]))
    else:
      it.at = lambda j: VTuple([kk.unbox(keys[j]),
                                d.kind.val.unbox(z3.Select(val, keys[j]))])
    return it

  def cut_loop(self, s, n, spec, it):
    c = self.contract
    q = c.qual
    path = self.path
    is_for = it is not None
    names = extract.assigned_names(s.body)
    if is_for:
      names |= extract.assigned_names([ast.Assign(targets=[s.target], value=ast.Constant(0))])
    if spec.havoc:
      names |= set(spec.havoc)
    if spec.ghost:
      names |= set('ghost_' + g for g in spec.ghost)
    names |= self.callee_modifies(s.body + list(getattr(s, 'orelse', [])))
    if spec.keep:
      names -= set(spec.keep)
    fr = self.frame
    if spec.before:
      spec.before(self, self.loop_ctx(it))
    ctx0 = self.loop_ctx(it)
    for cl in spec.invariants:
      path.oblige(f'{q}/inv#{n}/init/{cl.label}', cl.fn(ctx0, z3.IntVal(0)), cl.props)
    choice = path.choose(2, f'loop#{n}')
    # havoc everything the body may change
    self.havoc_locals(names, n)
    self.havoc_adhoc()
    ghost_names = getattr(spec, 'ghost_havoc', None)
    k = path.fresh_const(f'k{n}', sym.IntS)
    if choice == 0:
      # ---- arbitrary iteration
      if is_for:
        path.assume(z3.And(0 <= k, k < it.len))
      else:
        path.assume(k >= 0)
      ctx = self.loop_ctx(it)
      for cl in spec.invariants:
        path.assume(cl.fn(ctx, k))
      if is_for and getattr(it, 'may_raise', False) and \
          path.choose(2, 'iterator-raises') == 1:
        cls = path.fresh_const('exccls', sym.ExcCls)
        raise PyRaise(VExc(cls, ident=path.fresh_const('exc', sym.Val),
                           note='raised while fetching the next item of an opaque iterator'))
      if is_for:
        self.assign(s.target, self.assume_wf(it.at(k)))
      else:
        if not self.decide_truth(self.ev(s.test), s.test):
          raise PathEnd()    # covered by the exit alternative
      if spec.body_start:
        spec.body_start(self, self.loop_ctx(it), k)
      try:
        self.exec_block(s.body)
      except ContinueSig:
        pass
      except BreakSig:
        return               # continue after the loop, skipping orelse
      if spec.ghost_step:
        spec.ghost_step(self, self.loop_ctx(it), k)
      ctx2 = self.loop_ctx(it)
      for cl in spec.invariants:
        path.oblige(f'{q}/inv#{n}/step/{cl.label}', cl.fn(ctx2, k + 1), cl.props)
      if spec.decreases is not None:
        pass
      raise PathEnd()
    else:
      # ---- loop exit
      if is_for:
        path.assume(k == it.len)
      else:
        path.assume(k >= 0)
      ctx = self.loop_ctx(it)
      for cl in spec.invariants:
        path.assume(cl.fn(ctx, k))
      if is_for and getattr(it, 'may_raise', False) and \
          path.choose(2, 'iterator-raises-at-end') == 1:
        cls = path.fresh_const('exccls', sym.ExcCls)
        raise PyRaise(VExc(cls, ident=path.fresh_const('exc', sym.Val),
                           note='raised while fetching the next item of an opaque iterator'))
      if not is_for:
        if self.decide_truth(self.ev(s.test), s.test):
          raise PathEnd()
      if spec.after:
        spec.after(self, self.loop_ctx(it))
      self.exec_block(s.orelse)

  CONTAINER_METHODS = extract.NON_MUTATING_METHODS | {
      'append', 'extend', 'pop', 'update', 'clear', 'setdefault', 'add', 'remove',
      'insert', 'discard', 'popitem', 'sort', 'reverse', 'popleft', 'appendleft'}

  def callee_modifies(self, stmts, depth=0):
    """State fields that calls made (syntactically) inside `stmts` may modify:
    the union of the `modifies` of every contract a call could resolve to;
    opaque calls contribute the contract's opaque policy; inlinable helpers
    are scanned recursively; anything unresolved counts as 'everything this
    function may modify'."""
    c = self.contract
    out = set()
    fname = self.frame.fname
    everything = set(c.modifies)
    for st in stmts:
      for n in ast.walk(st):
        if isinstance(n, ast.With):
          for it in n.items:
            ce = it.context_expr
            if isinstance(ce, ast.Name) and ce.id in self.world.LOCKS:
              out.add(self.world.LOCKS[ce.id])
        if not isinstance(n, ast.Call):
          continue
        f = n.func
        cands = []
        if isinstance(f, ast.Name):
          q = f'{fname}::{f.id}'
          if q in C.REGISTRY:
            cands.append(C.REGISTRY[q])
          elif q in self.world.INLINE and depth < 3:
            fd = self.repo.find(q)
            if fd is not None:
              out |= self.callee_modifies(fd.body, depth + 1)
              gl = [g for x in ast.walk(fd) if isinstance(x, ast.Global) for g in x.names]
              out |= set(g for g in gl if g in self.G)
            continue
          elif f.id in self.world.BUILTINS or f.id in self.world.RECORD_CLASSES or \
              f.id in sym._EXC_PARENT or f.id in sym._EXC_ALIASES:
            continue
          else:
            # a local / closure variable holding a callable: opaque policy
            if c.opaque_havoc is not None:
              out |= set(c.opaque_havoc)
            elif not c.opaque_pure:
              out |= everything
            continue
        elif isinstance(f, ast.Attribute):
          if f.attr in self.CONTAINER_METHODS:
            continue
          dotted = ast.unparse(f)
          if dotted in self.world.EXTERNALS:
            cands.append(C.REGISTRY[self.world.EXTERNALS[dotted]])
          else:
            is_module = isinstance(f.value, ast.Name) and f.value.id in self.world.MODULES
            for q, cc in C.REGISTRY.items():
              q0 = q.split('#')[0]
              if (not is_module and q0.endswith('.' + f.attr)) or \
                  (is_module and q0.endswith('::' + f.attr)):
                cands.append(cc)
            if f.attr in self.world.VAL_METHOD_CONTRACTS:
              cands.append(C.REGISTRY[self.world.VAL_METHOD_CONTRACTS[f.attr]])
          if not cands:
            if isinstance(f.value, ast.Name) and f.value.id == 'logging':
              continue
            out |= everything
            continue
        else:
          out |= everything
          continue
        for cc in cands:
          out |= set(cc.modifies)
          for case in cc.raises:
            if case.modifies:
              out |= set(case.modifies)
    return set(x for x in out if x in self.G)

  def loop_ctx(self, it):
    ctx = self.ctx()
    ctx.it = it
    return ctx

  def havoc_locals(self, names, n):
    fr = self.frame
    for name in sorted(names):
      if name in fr.env and isinstance(fr.env[name], VPy) and \
          fr.env[name].what in ('emptylist', 'emptydict', 'listlit'):
        self.oos(f'local `{name}` needs a declared kind (contract.local_kinds)')
      if name.startswith('self.'):
        selfw = fr.env.get('self')
        attr = name[5:]
        if selfw is not None and attr in selfw.fields:
          old = selfw.fields[attr]
          new = working_copy(kind_of(old).fresh(self.path.fresh_name(f'lp{n}_{attr}')))
          if isinstance(old, VRecord) and old.kind.mutable:
            # keep the record's identity (cursors into it stay valid): havoc in place
            for f in old.fields:
              old.fields[f] = new.fields[f]
          else:
            selfw.fields[attr] = new
        continue
      if name in fr.globals_declared or (name not in fr.env and name in self.G):
        if name in self.G:
          self.havoc_state([name], f'lp{n}')
        continue
      if name not in fr.env and name in self.contract.local_kinds:
        # assigned in the loop for the first time: an arbitrary value of its declared kind
        fr.env[name] = self.assume_wf(working_copy(self.contract.local_kinds[name].fresh(
            self.path.fresh_name(f'lp{n}_{name}'))))
        continue
      if name in fr.env:
        old = fr.env[name]
        if isinstance(old, (VPy, VExc)):
          continue
        if isinstance(old, VNone):
          # None before the loop, assigned inside it: an arbitrary value of the declared
          # (optional) kind -- leaving it None would be unsound
          lk = self.contract.local_kinds.get(name)
          if lk is None:
            self.oos(f'local `{name}` is None before the loop and assigned inside it: '
                     'needs a declared kind (contract.local_kinds)')
          fr.env[name] = self.assume_wf(working_copy(lk.fresh(
              self.path.fresh_name(f'lp{n}_{name}'))))
          continue
        fr.env[name] = self.assume_wf(working_copy(kind_of(old).fresh(
            self.path.fresh_name(f'lp{n}_{name}'))))

  # -- expressions ----------------------------------------------------------------
  def ev(self, node):
    m = getattr(self, 'ex_' + type(node).__name__, None)
    if m is None:
      self.oos(f'expression {type(node).__name__}', node)
    return m(node)

  def ex_Constant(self, node):
    v = node.value
    if v is None:
      return NONE
    if isinstance(v, bool):
      return VBool(v)
    if isinstance(v, int):
      return VInt(v)
    if isinstance(v, str):
      if self.contract.strings == 'native':
        return VStr(z3.StringVal(v))
      return VStr(v)
    self.oos(f'constant {v!r}', node)

  def ex_Name(self, node):
    return self.lookup(node.id, node)

  def ex_Tuple(self, node):
    return VTuple([self.ev(e) for e in node.elts])

  def ex_List(self, node):
    from pyvc import tree as _tree
    items = [_tree.as_node(self.ev(e)) for e in node.elts]
    if any(isinstance(e, ast.Starred) for e in node.elts):
      self.oos('starred list display', node)
    if not items:
      return VPy('emptylist')
    if any(isinstance(i, VPy) and i.what in ('emptylist', 'emptydict', 'listlit')
           for i in items):
      return VPy('listlit', items)
    if all(isinstance(i, VPy) for i in items):
      return VTuple(items)          # a literal list of functions / methods: concrete
    k = KList(kind_of(items[0]))
    return k.from_items(items)

  def ex_Dict(self, node):
    if not node.keys:
      return VPy('emptydict')
    if all(isinstance(k, ast.Constant) and isinstance(k.value, str) for k in node.keys):
      # a literal dispatch table: concrete keys, arbitrary values
      return VPy('dictlit', {k.value: self.ev(v) for k, v in zip(node.keys, node.values)})
    # a display with computed keys: a fresh dict, items inserted left to right
    ks = [self.ev(k) for k in node.keys if k is not None]
    if len(ks) != len(node.keys):
      self.oos('dict display with ** unpacking', node)
    vs = [self.ev(v) for v in node.values]
    kk, vk = kind_of(ks[0]), kind_of(vs[0])
    if isinstance(ks[0], (VPy, VNone)) or isinstance(vs[0], (VPy, VNone)):
      self.oos('non-empty dict display', node)
    d = KDict(kk, vk).empty()
    for k, v in zip(ks, vs):
      d.set(coerce(k, kk), coerce(v, vk))
    return d

  def ex_JoinedStr(self, node):
    parts = []
    for v in node.values:
      if isinstance(v, ast.Constant):
        parts.append(self.ex_Constant(v))
      else:
        parts.append(self.to_str(self.ev(v.value), v))
    return self.str_build('fstr', parts, node)

  def str_build(self, tag, parts, node):
    if self.contract.strings == 'native':
      es = [p.e if p.native else None for p in parts]
      if any(e is None for e in es):
        self.oos('mixing native and abstract strings', node)
      return VStr(z3.Concat(*es) if len(es) > 1 else es[0])
    pat = tag + ':' + '|'.join(
        ('L' + (p.concrete() or '?')) if p.concrete() is not None else '{}'
        for p in parts)
    args = [p.e for p in parts if p.concrete() is None]
    if not args:
      return VStr(''.join(p.concrete() for p in parts))
    # the canonical concatenation of the pieces (same term as the equivalent `+` chain)
    return VStr(self.world.str_cat([p.e for p in parts]))

  def to_str(self, w, node=None):
    if isinstance(w, VOpt) and isinstance(w.inner, VStr):
      if self.path.decide(w.is_none):
        return self.ex_Constant(ast.Constant(value='None'))
      return w.inner
    if isinstance(w, VStr):
      return w
    if isinstance(w, VObj):
      return VStr(sym.ufun('str_of_val', sym.Val, sym.Str)(w.e))
    if isinstance(w, VInt):
      return VStr(sym.ufun('str_of_int', sym.IntS, sym.Str)(w.e))
    if isinstance(w, VNone):
      return VStr('None')
    try:
      return VStr(sym.ufun('str_of_val', sym.Val, sym.Str)(sym.to_val(w)))
    except OutOfSubset:
      return VStr(self.path.fresh_const('somestr', sym.Str))

  def ex_Lambda(self, node):
    return VPy('lambda', (node, self.frame))

  def ex_IfExp(self, node):
    if self.decide_truth(self.ev(node.test), node.test):
      return self.ev(node.body)
    return self.ev(node.orelse)

  def ex_UnaryOp(self, node):
    v = self.ev(node.operand)
    if isinstance(node.op, ast.Not):
      return VBool(z3.Not(self.truth(v, node)))
    if isinstance(node.op, ast.USub) and isinstance(v, VInt):
      return VInt(-v.e)
    self.oos('unary operator', node)

  def ex_BoolOp(self, node):
    is_and = isinstance(node.op, ast.And)
    if all(_pure_bool(v) for v in node.values):
      vals = [self.ev(v) for v in node.values]
      if all(isinstance(v, VBool) for v in vals):
        es = [v.e for v in vals]
        return VBool(z3.And(*es) if is_and else z3.Or(*es))
      cur = vals[0]
      for nxt in vals[1:]:
        t = self.path.decide(self.truth(cur, node))
        if (is_and and not t) or (not is_and and t):
          return cur
        cur = nxt
      return cur
    cur = self.ev(node.values[0])
    for nxt in node.values[1:]:
      t = self.decide_truth(cur, node)
      if (is_and and not t) or (not is_and and t):
        return cur
      cur = self.ev(nxt)
    return cur

  def ex_BinOp(self, node):
    return self.binop(type(node.op).__name__, self.ev(node.left),
                      self.ev(node.right), node)

  def binop(self, op, a, b, node):
    if isinstance(a, VOpt):
      self.path.oblige(f'{self.contract.qual}/safety/operand_not_none#{self.at(node)}',
                       z3.Not(a.is_none))
      self.path.assume(z3.Not(a.is_none))
      a = a.inner
    if isinstance(b, VOpt):
      self.path.oblige(f'{self.contract.qual}/safety/operand_not_none#{self.at(node)}',
                       z3.Not(b.is_none))
      self.path.assume(z3.Not(b.is_none))
      b = b.inner
    if isinstance(a, VInt) and isinstance(b, VInt):
      if op == 'Add':
        return VInt(a.e + b.e)
      if op == 'Sub':
        return VInt(a.e - b.e)
      if op == 'Mult':
        return VInt(a.e * b.e)
    if op == 'Add' and isinstance(a, VStr) and isinstance(b, VStr) and a.native:
      return VStr(z3.Concat(a.e, b.e))
    if op == 'Add' and isinstance(a, VStr) and isinstance(b, VStr):
      ca, cb = a.concrete(), b.concrete()
      if ca == '':
        return b
      if cb == '':
        return a
      if ca is not None and cb is not None:
        return VStr(ca + cb)
      return VStr(self.world.str_cat([a.e, b.e]))
    if op == 'Add' and isinstance(a, VList) and isinstance(b, VList):
      r = a.copy()
      r.extend(b)
      return r
    if op == 'Mult' and isinstance(a, VStr) and isinstance(b, VInt):
      return VStr(sym.ufun('str_repeat', sym.Str, sym.IntS, sym.Str)(a.e, b.e))
    if op == 'Mod' and isinstance(a, VStr):
      return VStr(self.path.fresh_const('fmtstr', sym.Str))
    if op == 'BitAnd' and isinstance(a, VBool) and isinstance(b, VBool):
      return VBool(z3.And(a.e, b.e))
    if op == 'Sub' and isinstance(a, VDict) and isinstance(b, VDict) and \
        getattr(a.kind, 'is_set', False):
      k = z3.Const('k!sub', a.kind.key.sort())
      r = a.copy()
      r.dom = z3.Lambda([k], z3.And(a.dom[k], z3.Not(b.dom[k])))
      return r
    self.oos(f'binary operator {op} on {a!r}, {b!r}', node)

  def ex_Compare(self, node):
    left = self.ev(node.left)
    res = []
    for op, rn in zip(node.ops, node.comparators):
      right = self.ev(rn)
      res.append(self.compare(type(op).__name__, left, right, node))
      left = right
    return VBool(z3.And(*res) if len(res) > 1 else res[0])

  def compare(self, op, a, b, node):
    if op in ('Is', 'IsNot'):
      e = self.identical(a, b, node)
      return e if op == 'Is' else z3.Not(e)
    if op in ('Eq', 'NotEq'):
      e = self.equal(a, b, node)
      return e if op == 'Eq' else z3.Not(e)
    if op in ('In', 'NotIn'):
      e = self.contains(b, a, node)
      return e if op == 'In' else z3.Not(e)
    if isinstance(a, VInt) and isinstance(b, VInt):
      return {'Lt': a.e < b.e, 'LtE': a.e <= b.e, 'Gt': a.e > b.e,
              'GtE': a.e >= b.e}[op]
    self.oos(f'comparison {op}', node)

  def identical(self, a, b, node):
    if isinstance(a, VNone) and isinstance(b, VNone):
      return z3.BoolVal(True)
    if isinstance(b, VNone):
      a, b = b, a
    if isinstance(a, VNone):
      if isinstance(b, VOpt):
        return b.is_none
      if isinstance(b, VObj):
        sym.val_axioms()
        return b.e == sym.VAL_NONE
      return z3.BoolVal(False)
    if isinstance(a, VObj) and isinstance(b, VObj):
      return a.e == b.e
    if isinstance(a, VPy) and isinstance(b, VPy):
      return z3.BoolVal(a.what == b.what and a.payload == b.payload)
    if isinstance(a, VObj) or isinstance(b, VObj):
      return sym.to_val(a) == sym.to_val(b)
    if isinstance(a, VOpt) or isinstance(b, VOpt):
      ka = kind_of(a) if isinstance(a, VOpt) else kind_of(b)
      return ka.box(coerce(a, ka)) == ka.box(coerce(b, ka))
    self.oos(f'identity comparison of {a!r} and {b!r}', node)

  def equal(self, a, b, node):
    if isinstance(a, VNone) or isinstance(b, VNone):
      return self.identical(a, b, node)
    if isinstance(a, VObj) or isinstance(b, VObj):
      if self.contract.val_ops_may_raise:
        self.opaque_op_may_raise('__eq__', node)
      if isinstance(a, VObj) and isinstance(b, VObj):
        return sym.ufun('val_eq', sym.Val, sym.Val, sym.BoolS)(a.e, b.e)
      return sym.ufun('val_eq', sym.Val, sym.Val, sym.BoolS)(
          sym.to_val(a), sym.to_val(b))
    if isinstance(a, VPy) and isinstance(b, VPy):
      return z3.BoolVal(a.what == b.what and a.payload == b.payload)
    if isinstance(a, VBool) and isinstance(b, VInt):
      a = coerce(a, KInt)
    if isinstance(a, VInt) and isinstance(b, VBool):
      b = coerce(b, KInt)
    if isinstance(a, VTuple) and isinstance(b, VTuple):
      if len(a.items) != len(b.items):
        return z3.BoolVal(False)
      return z3.And(*[self.equal(x, y, node) for x, y in zip(a.items, b.items)]) \
          if a.items else z3.BoolVal(True)
    if isinstance(a, VRecord) and isinstance(b, VRecord):
      return self.world.record_eq(self, a, b, node)
    if isinstance(a, VOpt) and not isinstance(b, VOpt):
      return z3.And(z3.Not(a.is_none), self.equal(a.inner, b, node))
    if isinstance(b, VOpt) and not isinstance(a, VOpt):
      return z3.And(z3.Not(b.is_none), self.equal(a, b.inner, node))
    ka, kb = kind_of(a), kind_of(b)
    if ka.name != kb.name:
      self.oos(f'equality between {ka.name} and {kb.name}', node)
    if isinstance(a, (VList, VDict)):
      return self.container_eq(a, b, ka)
    return ka.box(a) == kb.box(b)

  def container_eq(self, a, b, kind):
    """Python's `==` on two lists / dicts: same shape and pairwise `==` of the elements --
    which for opaque elements is the elements' own __eq__ (1 == True, two references to the
    same configurable under different scopes, ...), NOT identity.  Identical elements are equal
    (the container comparison short-cuts on `is`)."""
    ek = kind.val if isinstance(a, VDict) else kind.elem

    def has_val(k):
      if k is KVal:
        return True
      for attr in ('elem', 'val', 'key', 'inner'):
        sub = getattr(k, attr, None)
        if sub is not None and sub is not k and has_val(sub):
          return True
      for sub in getattr(k, 'items', None) or []:
        if has_val(sub):
          return True
      for sub in (getattr(k, 'fields', None) or {}).values():
        if has_val(sub):
          return True
      return False
    if not has_val(ek):
      return kind.eq(a, b)                   # elements compare by value: extensional equality
    if ek is KVal:
      pyeq = lambda x, y: z3.Or(x == y, sym.ufun('val_eq', sym.Val, sym.Val, sym.BoolS)(x, y))
    else:
      rel = sym.ufun('py_eq_' + sym._sort_name(ek.name), ek.sort(), ek.sort(), sym.BoolS)
      pyeq = lambda x, y: z3.Or(x == y, rel(x, y))
    if isinstance(a, VDict):
      k = z3.Const('k!ceq', kind.key.sort())
      return z3.And(a.dom == b.dom, sym.forall(
          [k], z3.Implies(z3.Select(a.dom, k), pyeq(z3.Select(a.val, k), z3.Select(b.val, k))),
          patterns=[z3.Select(a.val, k), z3.Select(b.val, k)]))
    i = z3.Int('i!ceq')
    return z3.And(a.len == b.len, sym.forall(
        [i], z3.Implies(z3.And(0 <= i, i < a.len), pyeq(z3.Select(a.arr, i), z3.Select(b.arr, i))),
        patterns=[z3.Select(a.arr, i), z3.Select(b.arr, i)]))

  def contains(self, coll, x, node):
    if isinstance(coll, VTuple):
      return z3.Or(*[self.equal(x, it, node) for it in coll.items]) \
          if coll.items else z3.BoolVal(False)
    if isinstance(coll, VList):
      return coll.contains(x)
    if isinstance(coll, VDict):
      return coll.has(x)
    if isinstance(coll, VOpt):
      self.path.oblige(f'{self.contract.qual}/safety/in_not_none#{self.at(node)}',
                       z3.Not(coll.is_none))
      self.path.assume(z3.Not(coll.is_none))
      return self.contains(coll.inner, x, node)
    if isinstance(coll, VStr) and isinstance(x, VStr):
      return sym.ufun('str_contains', sym.Str, sym.Str, sym.BoolS)(coll.e, x.e)
    if isinstance(coll, VPy) and coll.what == 'dictlit' and isinstance(x, VStr):
      return z3.Or(*[x.e == sym.str_lit(k) for k in coll.payload])
    r = self.world.contains(self, coll, x, node)
    if r is not None:
      return r
    self.oos(f'`in` on {coll!r}', node)

  def ex_Attribute(self, node):
    obj = self.ev(node.value)
    return self.get_attr(obj, node.attr, node)

  def get_attr(self, obj, attr, node):
    if self.world._treeish(obj):
      return VPy('nodemethod', (obj, attr))
    if isinstance(obj, VRecord):
      if attr in obj.fields:
        return obj.fields[attr]
      r = self.world.record_attr(self, obj, attr, node)
      if r is not None:
        return r
      self.oos(f'attribute {attr} of record {obj.kind.rname}', node)
    if isinstance(obj, VPy) and obj.what == 'module':
      r = self.world.module_attr(self, obj.payload, attr, node)
      if r is not None:
        return r
      self.oos(f'{obj.payload}.{attr}', node)
    if isinstance(obj, (VList, VDict, VStr, VTuple)):
      return VPy('method', (obj, attr))
    if isinstance(obj, VOpt):
      self.path.oblige(f'{self.contract.qual}/safety/attr_not_none#{self.at(node)}',
                       z3.Not(obj.is_none))
      self.path.assume(z3.Not(obj.is_none))
      return self.get_attr(obj.inner, attr, node)
    if isinstance(obj, VExc):
      r = self.world.exc_attr(self, obj, attr, node)
      if r is not None:
        return r
    if isinstance(obj, VObj):
      if attr in self.world.VAL_METHOD_CONTRACTS:
        return VPy('valmethod', (obj, self.world.VAL_METHOD_CONTRACTS[attr]))
      if attr in self.world.STR_METHODS:
        sym.val_axioms()
        self.path.oblige(
            f'{self.contract.qual}/safety/is_str_for_{attr}#{self.at(node)}',
            sym.tag_of(obj.e) == sym.TAG['str'])
        return VPy('method', (coerce(obj, KStr), attr))
      r = self.world.val_attr(self, obj, attr, node)
      if r is not None:
        return r
    if isinstance(obj, VPy):
      r = self.world.py_attr(self, obj, attr, node)
      if r is not None:
        return r
    self.oos(f'attribute {attr} of {obj!r}', node)

  def set_attr(self, obj, attr, v, node):
    if isinstance(obj, VRecord) and obj.kind.mutable:
      if attr not in obj.kind.fields:
        self.oos(f'new attribute {attr} on {obj.kind.rname}', node)
      fk = obj.kind.fields[attr]
      obj.fields[attr] = coerce(self.world.materialize(self, v, fk), fk)
      return
    self.oos(f'attribute store {attr} on {obj!r}', node)

  def ev_index(self, sl):
    if isinstance(sl, ast.Slice):
      return ('slice', self.ev(sl.lower) if sl.lower else None,
              self.ev(sl.upper) if sl.upper else None,
              self.ev(sl.step) if sl.step else None)
    return self.ev(sl)

  def ex_Subscript(self, node):
    obj = self.ev(node.value)
    idx = self.ev_index(node.slice)
    return self.get_item(obj, idx, node)

  def get_item(self, obj, idx, node):
    if isinstance(obj, VOpt):
      self.path.oblige(f'{self.contract.qual}/safety/subscript_not_none#{self.at(node)}',
                       z3.Not(obj.is_none))
      self.path.assume(z3.Not(obj.is_none))
      obj = obj.inner
    if isinstance(obj, VStr) and obj.native:
      n = z3.Length(obj.e)
      if isinstance(idx, tuple):
        _, lo, hi, step = idx
        if step is None and hi is None and isinstance(lo, VInt) and (lo.concrete() or 0) >= 0:
          k = lo.e
          return VStr(z3.SubString(obj.e, k, n - k))
        self.oos('slice of a native string', node)
      if isinstance(idx, VInt) and idx.concrete() is not None and idx.concrete() >= 0:
        if not self.path.decide(n > idx.e):
          self.py_raise('IndexError', node)
        return VStr(z3.SubString(obj.e, idx.e, 1))
      self.oos('index of a native string', node)
    if isinstance(idx, tuple) and idx and idx[0] == 'slice':
      _, lo, hi, step = idx
      if isinstance(obj, VTuple):
        if all(x is None or (isinstance(x, VInt) and x.concrete() is not None)
               for x in (lo, hi, step)):
          sl = slice(*[None if x is None else x.concrete() for x in (lo, hi, step)])
          return VTuple(obj.items[sl])
        self.oos('symbolic slice of a tuple', node)
      if not isinstance(obj, VList):
        r = self.world.get_slice(self, obj, lo, hi, step, node)
        if r is not None:
          return r
        self.oos(f'slice of {obj!r}', node)
      if step is not None:
        if step.concrete() == -1 and lo is None and hi is None:
          out = obj.reversed()
          if _is_lambda(out.arr):
            out = VList(out.kind, out.len, self.world.name_array(self, out.arr, 'rev'))
          return out
        self.oos('slice step', node)
      r = obj
      if hi is not None:
        if isinstance(hi, VNone):
          pass
        elif isinstance(hi, VOpt):
          if not self.path.decide(hi.is_none):
            r = r.prefix(coerce(hi.inner, KInt).e)
        else:
          r = r.prefix(hi.e)
      if lo is not None:
        if isinstance(lo, VNone):
          pass
        elif isinstance(lo, VOpt):
          if not self.path.decide(lo.is_none):
            r = self.list_suffix(r, lo.inner.e, obj)
        else:
          r = self.list_suffix(r, lo.e, obj)
      if r is obj:
        r = obj.copy()
      return r
    if isinstance(obj, VList):
      if not isinstance(idx, VInt):
        self.oos('list index of non-int', node)
      i = idx.e
      ci = idx.concrete()
      if ci is not None and ci < 0:
        i = obj.len + ci
      elif ci is None:
        i = z3.If(i < 0, obj.len + i, i)
      if not self.path.decide(z3.And(0 <= i, i < obj.len)):
        self.py_raise('IndexError', node)
      return self.assume_wf(obj.get(z3.simplify(i)))
    if isinstance(obj, VTuple):
      ci = idx.concrete() if isinstance(idx, VInt) else None
      if ci is None:
        self.oos('symbolic tuple index', node)
      return obj.items[ci]
    if isinstance(obj, VDict):
      if not self.path.decide(obj.has(idx)):
        self.py_raise('KeyError', node)
      return self.dict_read(obj, idx)
    if isinstance(obj, VPy) and obj.what == 'dictlit' and isinstance(idx, VStr):
      for k, v in obj.payload.items():
        if self.path.decide(idx.e == sym.str_lit(k)):
          return v
      self.py_raise('KeyError', node)
    r = self.world.get_item(self, obj, idx, node)
    if r is not None:
      return r
    self.oos(f'subscript of {obj!r}', node)

  def list_suffix(self, r, lo, orig):
    """r[lo:] where r is a prefix view of orig (same array).  A symbolic suffix is an index-
    shifted view; it is given a name (constant + pointwise definition) because lambda terms
    inside other terms leave nothing to trigger on and have crashed z3."""
    out = r.suffix(lo)
    if _is_lambda(out.arr):
      out = VList(out.kind, out.len, self.world.name_array(self, out.arr, 'suffix'))
    return out

  def dict_read(self, d, key):
    """Reads d[key]; for dict-valued dicts the result is a write-through borrow."""
    v = self.assume_wf(d.get(key))
    if isinstance(v, (VDict, VList)):
      kexpr = d.key(key)
      v.escaped = True

      def writeback(d=d, kexpr=kexpr, v=v):
        d._mutate()
        d.val = z3.Store(d.val, kexpr, v.kind.box(v))
        d._wb()
      v.owner = writeback
    return v

  def set_item(self, obj, idx, v, node):
    if isinstance(obj, VDict):
      sym.escape(v)
      obj.set(idx, v)
      return
    if isinstance(obj, VList) and isinstance(idx, VInt):
      i = idx.e
      ci = idx.concrete()
      if ci is not None and ci < 0:
        i = obj.len + ci
      if not self.path.decide(z3.And(0 <= i, i < obj.len)):
        self.py_raise('IndexError', node)
      if isinstance(v, VOpt) and not isinstance(obj.kind.elem, KOpt):
        self.path.oblige(f'{self.contract.qual}/safety/stored_value_not_none#{self.at(node)}',
                         z3.Not(v.is_none))
        self.path.assume(z3.Not(v.is_none))
        v = v.inner
      sym.escape(v)
      obj.set(i, v)
      return
    if self.world.set_item(self, obj, idx, v, node):
      return
    self.oos(f'item store on {obj!r}', node)

  def ex_ListComp(self, node):
    return self.comprehension(node, node.elt)

  def ex_GeneratorExp(self, node):
    return self.comprehension(node, node.elt)

  def comprehension(self, node, elt):
    if len(node.generators) != 1:
      self.oos('nested comprehension', node)
    g = node.generators[0]
    it = self.ev_iter(g.iter)
    if isinstance(it, list):
      out = []
      saved = dict(self.frame.env)
      for x in it:
        self.assign(g.target, x)
        if all(self.decide_truth(self.ev(c), c) for c in g.ifs):
          out.append(self.ev(elt))
      self.frame.env = saved
      if not out:
        return VPy('emptylist')
      return KList(kind_of(out[0])).from_items(out)
    # symbolic map (no filter): element j is elt[target := it.at(j)]
    saved = dict(self.frame.env)
    j = z3.Int(self.path.fresh_name('j!cmp'))
    self.assign(g.target, it.at(j))
    if g.ifs:
      self.frame.env = saved
      return self.world.filter_comprehension(self, node, g, it, elt)
    try:
      ew = self.ev(elt)
    except PyRaise:
      # the comprehension raises iff the element expression raises for SOME index in range
      # (on the normal path nothing is assumed about j: the list may be empty)
      self.path.assume(z3.And(0 <= j, j < it.len))
      raise
    self.frame.env = saved
    ek = kind_of(ew)
    # the result array is a named constant characterised pointwise (a lambda
    # would be beta-reduced away and leave the solver no term to trigger on)
    arr = self.path.fresh_const('cmp', z3.ArraySort(sym.IntS, ek.sort()))
    self.path.assume(z3.ForAll([j], z3.Select(arr, j) == ek.box(ew),
                               patterns=[z3.Select(arr, j)]))
    return VList(KList(ek), it.len, arr)

  def ex_Yield(self, node):
    v = self.ev(node.value) if node.value is not None else NONE
    return self.do_yield(node, v)

  def ex_Starred(self, node):
    self.oos('starred expression', node)

  # -- calls ------------------------------------------------------------------------
  def ev_args(self, node):
    args = []
    for a in node.args:
      if isinstance(a, ast.Starred):
        v = self.ev(a.value)
        if isinstance(v, VTuple):
          args.extend(v.items)
        else:
          args.append(('*', v))
      else:
        args.append(self.ev(a))
    kwargs = {}
    for k in node.keywords:
      if k.arg is None:
        kwargs['**'] = self.ev(k.value)
      else:
        kwargs[k.arg] = self.ev(k.value)
    return args, kwargs

  def ex_Call(self, node):
    fn = self.ev(node.func)
    args, kwargs = self.ev_args(node)
    return self.call(fn, args, kwargs, node)

  def call(self, fn, args, kwargs, node):
    if isinstance(fn, VPy):
      if fn.what == 'builtin':
        return self.world.call_builtin(self, fn.payload, args, kwargs, node)
      if fn.what == 'method':
        obj, name = fn.payload
        if isinstance(obj, (VList, VDict, VStr, VTuple)):
          return self.world.call_value_method(self, obj, name, args, kwargs, node)
        if isinstance(obj, VRecord) and name == '_replace' and not args:
          flds = dict(obj.fields)          # NamedTuple._replace: a copy with some fields set
          for k, v in kwargs.items():
            if k not in obj.kind.fields:
              self.py_raise('ValueError', node)
            flds[k] = coerce(v, obj.kind.fields[k])
          return VRecord(obj.kind, flds)
        return self.call_repo_function(fn, args, kwargs, node)
      if fn.what == 'func':
        return self.call_repo_function(fn, args, kwargs, node)
      if fn.what in ('closure', 'lambda'):
        return self.inline_closure(fn, args, kwargs, node)
      if fn.what == 'excclass':
        e = VExc(fn.payload, args=args)
        e.origin = 'stmt' if self.depth == 0 else 'inlined:' + self.frame.qual
        return e
      if fn.what == 'recclass':
        q = f'{self.world.RECORD_CLASSES[fn.payload][0]}::{fn.payload}'
        if q in C.REGISTRY:      # the constructor has a contract of its own
          return self.call_contract(C.REGISTRY[q], args, kwargs, node, None)
        return self.world.make_record(self, fn.payload, args, kwargs, node)
      if fn.what == 'opaque':
        return self.opaque_call(fn, args, kwargs, node)
      if fn.what == 'external':
        c = C.REGISTRY[fn.payload]
        if c.dispatch is not None:
          c = c.dispatch(args) or c
        return self.call_contract(c, args, kwargs, node, None)
      if fn.what == 'nodemethod':
        from pyvc import tree
        return tree.node_method(self, fn.payload[0], fn.payload[1], args, kwargs, node)
      if fn.what == 'valmethod':
        obj, qual = fn.payload
        return self.call_contract(C.REGISTRY[qual], [obj] + list(args), kwargs, node, None)
      if fn.what == 'regex_match':
        a0 = args[0]
        if isinstance(a0, VOpt):
          self.path.oblige(f'{self.contract.qual}/safety/match_arg_not_none#{self.at(node)}',
                           z3.Not(a0.is_none))
          self.path.assume(z3.Not(a0.is_none))
          a0 = a0.inner
        if isinstance(a0, VObj):
          if self.contract.val_ops_may_raise:
            self.opaque_op_may_raise('re.match', node)
          a0 = coerce(a0, KStr)
        # RE.match(s) is None or a (truthy) match object: an optional, so that both
        # `if not RE.match(s)` and `if RE.match(s) is None` mean what they mean in Python
        pred = self.world.re_match(fn.payload, a0.e)
        mo = sym.ufun('re_match_object$' + sym.san(fn.payload), sym.Str, sym.Val)(a0.e)
        self.path.assume(z3.Implies(pred, sym.val_truthy(mo)))
        return sym.VOpt(KOpt(KVal), z3.Not(pred), VObj(mo))
      if fn.what == 'type':
        return self.world.call_builtin(self, fn.payload, args, kwargs, node)
    if isinstance(fn, VObj):
      return self.opaque_call(fn, args, kwargs, node)
    if isinstance(fn, VOpt):
      self.path.assume(z3.Not(fn.is_none))
      return self.call(fn.inner, args, kwargs, node)
    self.oos(f'call of {fn!r}', node)

  def call_repo_function(self, fn, args, kwargs, node):
    qual = self.world.qual_of(self, fn)
    selfw = None
    if fn.what == 'method':
      selfw = fn.payload[0]
    c = C.REGISTRY.get(qual)
    if c is not None and not (qual in self.contract.inline_ok):
      if qual.endswith('#abstract'):
        return self.call_contract(c, [selfw] + list(args), kwargs, node, None)
      return self.call_contract(c, args, kwargs, node, selfw)
    if qual in self.world.INLINE or qual in self.contract.inline_ok:
      return self.inline_call(qual, args, kwargs, node, selfw)
    self.oos(f'call to {qual}: no contract and not inlinable', node)

  def bind_params(self, fdef, args, kwargs, node, selfw=None, defaults_env=None):
    a = fdef.args
    names = [x.arg for x in a.args]
    env = {}
    pos = list(args)
    if selfw is not None:
      pos = [selfw] + pos
    if any(isinstance(p, tuple) for p in pos):
      self.oos('symbolic *args into an inlined function', node)
    if len(pos) > len(names) and not a.vararg:
      self.oos('too many positional arguments', node)
    for n, v in zip(names, pos):
      env[n] = v
    if a.vararg:
      env[a.vararg.arg] = VTuple(pos[len(names):])
    for k, v in kwargs.items():
      if k == '**':
        self.oos('**kwargs into an inlined function', node)
      env[k] = v
    ndef = len(a.defaults)
    for i, d in enumerate(a.defaults):
      n = names[len(names) - ndef + i]
      if n not in env:
        env[n] = self.ev(d)
    for kw, d in zip(a.kwonlyargs, a.kw_defaults):
      if kw.arg not in env:
        if d is None:
          self.oos('missing kw-only argument', node)
        env[kw.arg] = self.ev(d)
    for n in names:
      if n not in env:
        self.oos(f'missing argument {n}', node)
    return env

  def inline_call(self, qual, args, kwargs, node, selfw=None):
    fdef = self.repo.find(qual)
    if fdef is None:
      self.oos(f'inlined function {qual} not found', node)
    if self.depth > 6:
      self.oos('inline depth', node)
    env = self.bind_params(fdef, args, kwargs, node, selfw)
    fr = Frame(qual, fdef, env)
    self.frames.append(fr)
    self.depth += 1
    try:
      self.exec_block(fdef.body)
      return NONE
    except ReturnSig as r:
      return r.value
    finally:
      self.depth -= 1
      self.frames.pop()

  def inline_closure(self, fn, args, kwargs, node):
    fnode, defframe = fn.payload
    if isinstance(fnode, ast.Lambda):
      env = self.bind_params(fnode, args, kwargs, node)
      fr = Frame(defframe.qual, defframe.fdef, env, closure=_merged(defframe))
      self.frames.append(fr)
      self.depth += 1
      try:
        return self.ev(fnode.body)
      finally:
        self.depth -= 1
        self.frames.pop()
    env = self.bind_params(fnode, args, kwargs, node)
    fr = Frame(defframe.qual + '.' + fnode.name, fnode, env, closure=_merged(defframe))
    self.frames.append(fr)
    self.depth += 1
    try:
      self.exec_block(fnode.body)
      return NONE
    except ReturnSig as r:
      return r.value
    finally:
      self.depth -= 1
      self.frames.pop()

  # -- modular call: use the callee's contract -----------------------------------------
  def call_contract(self, c, args, kwargs, node, selfw):
    q = self.contract.qual
    cn = self.call_counter.get(c.qual, 0)
    self.call_counter[c.qual] = cn + 1
    site = f'{q}/call:{c.qual.split("::")[-1]}#{cn}'
    self.havoc_adhoc()
    a = {}
    names = list(c.params)
    pos = list(args)
    if any(isinstance(p, tuple) for p in pos):
      self.oos('symbolic *args at a contracted call', node)
    if c.self_kind is not None:
      a['self'] = selfw
    extra = pos[len(names):]
    for n, v in zip(names, pos):
      a[n] = v
    if extra:
      if not c.vararg:
        self.oos(f'too many arguments for {c.qual}', node)
      a[c.vararg[0]] = VTuple(extra)
    for k, v in kwargs.items():
      if k in c.params:
        a[k] = v
      else:
        self.oos(f'unexpected keyword {k} for {c.qual}', node)
    for n, (kind, default) in c.params.items():
      if n not in a:
        if default is None:
          self.oos(f'missing argument {n} for {c.qual}', node)
        a[n] = default(self)
      if kind is None:
        continue
      a[n] = self.world.materialize(self, a[n], kind)
      if isinstance(a[n], VNone) and kind is KVal:
        a[n] = VObj(sym.VAL_NONE)
      a[n] = coerce(a[n], kind) if not isinstance(a[n], VNone) or isinstance(kind, KOpt) \
          else a[n]
    args_snap = {k: snapshot(v) for k, v in a.items()}
    old = self.snapshot_state()
    tr = {'call': c.qual, 'args': args_snap, 'state': old, 'node': node}
    self.path.trace.append(tr)
    if c.custom is not None:
      return c.custom(self, args_snap, node)
    ctx = Ctx(self.path, args_snap, old, old, ghost=self.path.ghost,
              trace=self.path.trace)
    if selfw is not None:
      ctx.self_old = ctx.self_new = args_snap['self']
    for cl in c.requires:
      self.path.oblige(f'{site}/requires/{cl.label}', cl.fn(ctx))
      self.path.assume(cl.fn(ctx))
    n_out = 1 + len(c.raises) + (1 if (c.exc_ensures and not c.raises_only_listed) or
                                 getattr(c, 'may_raise_other', False) else 0)
    choice = self.path.choose(n_out, f'outcome:{c.qual}')
    mods = c.modifies
    if choice == 0:
      self.havoc_state(sorted(mods), 'post')
      self.havoc_self(c, selfw)
      result = NONE
      if c.result is not None:
        result = working_copy(self.fresh(c.result, 'res'))
      ctx2 = Ctx(self.path, args_snap, old, self.snapshot_state(), result=result,
                 ghost=self.path.ghost, trace=self.path.trace)
      if selfw is not None:
        ctx2.self_new = selfw
        ctx2.self_old = args_snap['self']
      for cl in (c.cm_exit if c.is_cm else c.ensures):
        self.path.assume(cl.fn(ctx2))
      hook = getattr(c, 'on_call', None)
      if hook:
        hook(self, ctx2)
      tr['result'] = result
      tr['state_after'] = ctx2.new._d
      return result
    if choice <= len(c.raises):
      case = c.raises[choice - 1]
      m = case.modifies if case.modifies is not None else mods
      self.havoc_state(sorted(m), 'xpost')
      self.havoc_self(c, selfw)
      exc = VExc(case.exc, ident=self.path.fresh_const('exc', sym.Val),
                 note=f'raised by {c.qual} ({case.label})')
      exc.raised_by = c.target or c.qual
      ctx2 = Ctx(self.path, args_snap, old, self.snapshot_state(), exc=exc,
                 ghost=self.path.ghost, trace=self.path.trace)
      if selfw is not None:
        ctx2.self_new = selfw
        ctx2.self_old = args_snap['self']
      if case.when is not None:
        self.path.assume(case.when(ctx2))
      for cl in case.ensures + c.exc_ensures:
        self.path.assume(cl.fn(ctx2))
      raise PyRaise(exc)
    # any other exception
    self.havoc_state(sorted(mods), 'xpost')
    self.havoc_self(c, selfw)
    cls = self.path.fresh_const('exccls', sym.ExcCls)
    exc = VExc(cls, ident=self.path.fresh_const('exc', sym.Val),
               note=f'raised by {c.qual} (unlisted)')
    exc.raised_by = c.target or c.qual
    ctx2 = Ctx(self.path, args_snap, old, self.snapshot_state(), exc=exc,
               ghost=self.path.ghost, trace=self.path.trace)
    if selfw is not None:
      ctx2.self_new = selfw
      ctx2.self_old = args_snap['self']
    for cl in c.exc_ensures:
      self.path.assume(cl.fn(ctx2))
    raise PyRaise(exc)

  def havoc_self(self, c, selfw):
    mf = getattr(c, 'modifies_self', None)
    if selfw is None or not mf:
      return
    for f in mf:
      selfw.fields[f] = working_copy(kind_of(selfw.fields[f]).fresh(
          self.path.fresh_name('self_' + f)))

  # -- opaque calls ------------------------------------------------------------------
  def opaque_call(self, fn, args, kwargs, node):
    c = self.contract
    name = fn.payload if isinstance(fn, VPy) else str(fn.e)
    if c.opaque_model is not None:
      r = c.opaque_model(self, fn, args, kwargs, node)
      if r is not None:
        return r
    self.havoc_adhoc()
    ev = {'fn': fn, 'args': args, 'kwargs': kwargs,
          'state': self.snapshot_state(), 'node': node}
    self.path.trace.append(ev)
    for a in args:
      sym.escape(a[1] if isinstance(a, tuple) else a)
    for v in kwargs.values():
      sym.escape(v)
    if c.opaque_havoc is not None:
      self.havoc_state(sorted(c.opaque_havoc), 'opq')
    elif not c.opaque_pure:
      self.havoc_state(sorted(self.state_spec), 'opq')
    hook = getattr(c, 'on_opaque', None)
    if c.opaque_may_raise and self.path.choose(2, 'opaque-raises') == 1:
      cls = self.path.fresh_const('exccls', sym.ExcCls)
      exc = VExc(cls, ident=self.path.fresh_const('exc', sym.Val),
                 note=f'raised by opaque callable {name}')
      ev['raised'] = exc
      raise PyRaise(exc)
    res = VObj(self.path.fresh_const('opq_res', sym.Val))
    ev['result'] = res
    if hook:
      hook(self, ev)
    return res


class Iter:
  """A symbolic iteration sequence: length and element function."""

  def __init__(self, n, at):
    self.len = n
    self.at = at


class LockCM:

  def __init__(self, name, ghost_field):
    self.name = name
    self.field = ghost_field

  def enter(self, ex, item, node):
    held = ex.G[self.field]
    reentrant = ex.world.LOCK_REENTRANT.get(self.name, False)
    if not reentrant:
      ex.path.oblige(f'{ex.contract.qual}/lock/{self.name}/not_reacquired',
                     held.e == 0)
    self.before = held
    ex.G[self.field] = VInt(held.e + 1)

  def exit_ok(self, ex, node):
    ex.G[self.field] = VInt(ex.G[self.field].e - 1)

  def exit_exc(self, ex, exc, node):
    ex.G[self.field] = VInt(ex.G[self.field].e - 1)
    return False


class OpaqueCM:

  def __init__(self, fn, args, kwargs, node):
    self.fn, self.args, self.kwargs, self.node = fn, args, kwargs, node

  def enter(self, ex, item, node):
    v = ex.opaque_call(self.fn, self.args, self.kwargs, self.node)
    if item.optional_vars is not None:
      ex.assign(item.optional_vars, v)

  def exit_ok(self, ex, node):
    pass

  def exit_exc(self, ex, exc, node):
    return False


class InlineCM:
  """A small generator-based context manager executed from its real source at the with-site.
  Accepted shapes:  <pre>; try: yield  finally: <fin>    and    <pre>; yield; <post>
  (no handlers, nothing yielded): <pre> runs on entry, <fin> on every exit, <post> only on a
  normal exit -- exactly what contextlib.contextmanager does for these shapes."""

  def __init__(self, qual, args, kwargs, selfw, node):
    self.qual, self.args, self.kwargs, self.selfw, self.node = qual, args, kwargs, selfw, node

  @staticmethod
  def _is_yield(st):
    return isinstance(st, ast.Expr) and isinstance(st.value, ast.Yield) and st.value.value is None

  def _shape(self, ex, fdef):
    body = [s for s in fdef.body
            if not (isinstance(s, ast.Expr) and isinstance(s.value, ast.Constant))]
    for i, st in enumerate(body):
      if self._is_yield(st):
        return body[:i], [], body[i + 1:]
      if isinstance(st, ast.Try) and not st.handlers and not st.orelse and \
          len(st.body) == 1 and self._is_yield(st.body[0]) and i == len(body) - 1:
        return body[:i], st.finalbody, []
    ex.oos(f'context manager {self.qual} has a shape that is not inlined', self.node)

  def _run(self, ex, stmts):
    if self.selfw is not None and isinstance(self.node.func, ast.Attribute):
      # the receiver may have been replaced since entry (e.g. havoced at a loop cut)
      cur = ex.ev(self.node.func.value)
      params = [a.arg for a in self.fr.fdef.args.args]
      if params:
        self.fr.env[params[0]] = cur
    ex.frames.append(self.fr)
    ex.depth += 1
    try:
      ex.exec_block(stmts)
    finally:
      ex.depth -= 1
      ex.frames.pop()

  def enter(self, ex, item, node):
    fdef = ex.repo.find(self.qual)
    if fdef is None:
      ex.oos(f'inlined context manager {self.qual} not found', node)
    self.pre, self.fin, self.post = self._shape(ex, fdef)
    env = ex.bind_params(fdef, self.args, self.kwargs, node, self.selfw)
    self.fr = Frame(self.qual, fdef, env)
    if item.optional_vars is not None:
      ex.oos('inlined context manager with an `as` target', node)
    self._run(ex, self.pre)

  def exit_ok(self, ex, node):
    self._run(ex, self.fin)
    self._run(ex, self.post)

  def exit_exc(self, ex, exc, node):
    self._run(ex, self.fin)       # an exception raised here replaces the pending one
    return False


class ContractCM:
  """Client side of a generator-based context manager under contract."""

  def __init__(self, c, args, kwargs, node):
    self.c, self.args, self.kwargs, self.node = c, args, kwargs, node

  def enter(self, ex, item, node):
    c = self.c
    a = {}
    names = list(c.params)
    for n, v in zip(names, self.args):
      a[n] = v
    a.update(self.kwargs)
    for n, (kind, default) in c.params.items():
      if n not in a:
        a[n] = default(ex)
      if not isinstance(a[n], VNone) or isinstance(kind, KOpt):
        a[n] = coerce(a[n], kind)
    self.a = {k: snapshot(v) for k, v in a.items()}
    self.old = ex.snapshot_state()
    site = f'{ex.contract.qual}/with:{c.qual.split("::")[-1]}'
    ctx = Ctx(ex.path, self.a, self.old, self.old)
    for cl in c.requires:
      ex.path.oblige(f'{site}/requires/{cl.label}', cl.fn(ctx))
      ex.path.assume(cl.fn(ctx))
    n_out = 1 + len(c.raises)
    choice = ex.path.choose(n_out, f'enter:{c.qual}')
    if choice > 0:
      case = c.raises[choice - 1]
      m = case.modifies if case.modifies is not None else c.modifies
      ex.havoc_state(sorted(m), 'xenter')
      exc = VExc(case.exc, ident=ex.path.fresh_const('exc', sym.Val),
                 note=f'raised on entering {c.qual}')
      ctx2 = Ctx(ex.path, self.a, self.old, ex.snapshot_state(), exc=exc)
      if case.when is not None:
        ex.path.assume(case.when(ctx2))
      for cl in case.ensures + c.exc_ensures:
        ex.path.assume(cl.fn(ctx2))
      raise PyRaise(exc)
    ex.havoc_state(sorted(c.modifies), 'enter')
    y = NONE
    if c.cm_yields is not None:
      y = working_copy(ex.fresh(c.cm_yields, 'yielded'))
    self.mid = ex.snapshot_state()
    ctx2 = Ctx(ex.path, self.a, self.old, self.mid, result=y, mid=self.mid)
    for cl in c.cm_enter:
      ex.path.assume(cl.fn(ctx2))
    if item.optional_vars is not None:
      ex.assign(item.optional_vars, y)

  def _exit(self, ex, exc):
    c = self.c
    # the manager's exit code runs from the state the body left; the client
    # must show that its body respected the manager's body_frame
    body_end = ex.snapshot_state()
    site = f'{ex.contract.qual}/with:{c.qual.split("::")[-1]}'
    ctxb = Ctx(ex.path, self.a, self.old, body_end, exc=exc, mid=self.mid)
    for cl in c.cm_body_assume:
      ex.path.oblige(f'{site}/body_frame/{cl.label}', cl.fn(ctxb))
      ex.path.assume(cl.fn(ctxb))
    ex.havoc_state(sorted(c.modifies), 'exit')
    ctx = Ctx(ex.path, self.a, self.old, ex.snapshot_state(), exc=exc, mid=self.mid)
    ctx.body_end = Ns(body_end)
    return ctx

  def exit_ok(self, ex, node):
    ctx = self._exit(ex, None)
    for cl in self.c.cm_exit:
      ex.path.assume(cl.fn(ctx))

  def exit_exc(self, ex, exc, node):
    ctx = self._exit(ex, exc)
    ctx.swallowed = False
    ctx.body_exc = exc
    for cl in self.c.cm_exit_exc:
      ex.path.assume(cl.fn(ctx))
    hook = getattr(self.c, 'translate_exc', None)
    if hook:
      new_exc = hook(ex, ctx, exc)
      if new_exc is not None and new_exc is not exc:
        raise PyRaise(new_exc)
    return False


# -----------------------------------------------------------------------------


def _same(a, b):
  """Syntactic identity of two wrappers' z3 content (cheap frame check)."""
  if type(a) is not type(b):
    return False
  if isinstance(a, (VBool, VInt, VStr, VObj)):
    return a.e.eq(b.e)
  if isinstance(a, VList):
    return a.len.eq(b.len) and a.arr.eq(b.arr)
  if isinstance(a, VDict):
    return a.dom.eq(b.dom) and a.val.eq(b.val)
  if isinstance(a, VRecord):
    return all(_same(a.fields[f], b.fields[f]) for f in a.fields)
  if isinstance(a, VOpt):
    return a.is_none.eq(b.is_none) and _same(a.inner, b.inner)
  return False


def _load(t):
  import copy
  t2 = copy.copy(t)
  t2.ctx = ast.Load()
  return t2


def _walk_no_defs(fdef):
  stack = list(fdef.body)
  while stack:
    n = stack.pop(0)
    yield n
    if isinstance(n, (ast.FunctionDef, ast.ClassDef, ast.Lambda)):
      continue
    stack = list(ast.iter_child_nodes(n)) + stack


def _pure_bool(node):
  """Expression shapes that cannot raise or have effects: safe for And/Or."""
  if isinstance(node, ast.Constant):
    return True
  if isinstance(node, ast.Name):
    return True
  if isinstance(node, ast.UnaryOp) and isinstance(node.op, ast.Not):
    return _pure_bool(node.operand)
  if isinstance(node, ast.BoolOp):
    return all(_pure_bool(v) for v in node.values)
  if isinstance(node, ast.Compare):
    if any(isinstance(o, (ast.In, ast.NotIn)) for o in node.ops):
      return False       # membership in a possibly-None container must stay guarded
    return all(isinstance(x, (ast.Name, ast.Constant)) or
               (isinstance(x, ast.Attribute) and isinstance(x.value, ast.Name)) or
               (isinstance(x, ast.Tuple) and all(isinstance(e, ast.Constant) for e in x.elts))
               for x in [node.left] + node.comparators)
  if isinstance(node, ast.Call) and isinstance(node.func, ast.Name) and \
      node.func.id == 'isinstance':
    return all(isinstance(a, (ast.Name, ast.Tuple, ast.Attribute)) for a in node.args)
  return False


def _merged(frame):
  d = dict(frame.closure)
  d.update(frame.env)
  return d
