"""pyvc.solve -- discharge obligations with a solver portfolio (subprocess CLIs).

Portfolio, in order (first definitive answer wins):
  z3-ematch : z3 5.1 (z3-new) with smt.mbqi=false smt.auto_config=false
              (E-matching on the given triggers only; answers in milliseconds)
  z3-ematch2: z3 5.1 with smt.mbqi=false (auto-configured; proves a few obligations the
              first configuration leaves `unknown`, and vice versa)
  z3-default: z3 5.1 default configuration (with model-based quantifier instantiation)
  cvc5      : cvc5 1.0.3
  z3-old    : z3 4.8.12
`unsat` of (background /\\ hyps /\\ not goal) == obligation discharged.
`sat` is believed only from a back end running its complete configuration
(z3-default / cvc5); `unknown`, timeouts and errors are "not discharged".
"""
import concurrent.futures
import hashlib
import os
import re
import subprocess
import tempfile
import time

import z3

from pyvc import sym

BACKENDS = [
    ('z3-ematch', ['z3-new', 'smt.mbqi=false', 'smt.auto_config=false'], 2),
    ('z3-ematch2', ['z3-new', 'smt.mbqi=false'], 3),
    ('z3-default', ['z3-new'], 6),
    ('cvc5', ['/usr/bin/cvc5', '--lang=smt2'], 6),
]
THOROUGH_EXTRA = [('z3-old', ['/usr/bin/z3'], 20)]
THOROUGH_FACTOR = 3


def to_smt2(hyps, goal):
  s = z3.Solver()
  for a in sym.background_axioms(list(hyps) + [goal]):
    s.add(a)
  for h in hyps:
    s.add(h)
  s.add(z3.Not(goal))
  return normalise(s.to_smt2())


_QID = re.compile(r' :qid k!\d+')


def normalise(text):
  """The text handed to the solvers must depend on the VC only.  z3's printer decides which
  subterms to let-bind from reference counts in the *process-wide* AST table, so the same VC
  printed after other functions were processed comes out with a different let structure (same
  formula, different text, possibly different solver heuristics).  Re-reading the text in a
  fresh context and printing it from there removes that dependence; let names and quantifier
  ids are then renumbered in order of occurrence."""
  ctx = z3.Context()
  s = z3.Solver(ctx=ctx)
  s.from_string(text)
  out = _stable_lets(_QID.sub('', s.to_smt2()))
  del s, ctx
  return out


_LET = re.compile(r'(?<![\w!.$?])([?$])x(\d+)\b')


def _stable_lets(text):
  """z3 names let-bound subterms after internal AST ids, which differ from process to process;
  renumber them in order of first occurrence so that the text (and its digest) of a VC depends
  only on the VC."""
  names = {}

  def sub(m):
    k = m.group(0)
    if k not in names:
      names[k] = f'{m.group(1)}l{len(names)}'
    return names[k]
  return _LET.sub(sub, text)


WALL_FACTOR = 6      # wall-clock backstop = CPU budget x this (+5 s)


def _limited(cmd, cpu_s):
  """The solver command under a CPU-time limit (ulimit -t): budgets are CPU seconds, so a
  verdict does not flip to `unknown` merely because all cores are busy."""
  return ['sh', '-c', f'ulimit -t {int(cpu_s) + 1}; exec "$@"', 'sh'] + cmd


def _killed_by_limit(p):
  return p.returncode in (-24, -9, 152, 137, 158) or \
      'CPU time limit' in ((p.stderr or '') + (p.stdout or ''))


def _run(cmd, path, timeout):
  t0 = time.time()
  wall = timeout * WALL_FACTOR + 5
  try:
    if 'cvc5' in cmd[0]:
      with open(path) as fh:
        body = fh.read()
      path2 = path + '.cvc5.smt2'
      with open(path2, 'w') as fh:
        fh.write('(set-logic HO_ALL)\n' + body)
      try:
        extra = ['--strings-exp'] if '(String' in body or 'str.' in body else []
        p = subprocess.run(_limited(cmd + extra + [f'--tlimit={int(wall * 1000)}', path2],
                                    timeout),
                           capture_output=True, text=True, timeout=wall + 5)
      finally:
        os.unlink(path2)
      out = (p.stdout or '').strip().splitlines()
      first = out[0].strip() if out else ''
      if first in ('unsat', 'sat', 'unknown'):
        return first, time.time() - t0, ''
      if 'interrupted' in (p.stdout + p.stderr) or 'timeout' in (p.stdout + p.stderr) or \
          _killed_by_limit(p):
        return 'timeout', time.time() - t0, ''
      return 'error', time.time() - t0, (p.stdout + p.stderr)[:300]
    else:
      full = _limited(cmd + [f'-T:{int(wall)}', path], timeout)
    p = subprocess.run(full, capture_output=True, text=True, timeout=wall + 5)
    out = (p.stdout or '').strip().splitlines()
    first = out[0].strip() if out else ''
    if first in ('unsat', 'sat', 'unknown'):
      return first, time.time() - t0, ''
    if 'timeout' in (p.stdout + p.stderr) or _killed_by_limit(p):
      return 'timeout', time.time() - t0, ''
    return 'error', time.time() - t0, (p.stdout + p.stderr)[:300]
  except subprocess.TimeoutExpired:
    return 'timeout', time.time() - t0, ''


def discharge_one(job):
  """job: (key, smt2 text, thorough flag, want_model). Returns result dict."""
  key, text, thorough, all_backends = job[:4]
  canary = len(job) > 4 and job[4]
  fd, path = tempfile.mkstemp(suffix='.smt2', prefix='pyvc_')
  with os.fdopen(fd, 'w') as fh:
    fh.write(text)
  res = {'key': key, 'verdict': 'unknown', 'backend': None, 'time': 0.0,
         'tried': []}
  try:
    backends = BACKENDS + (THOROUGH_EXTRA if thorough else [])
    if len(job) > 5 and job[5]:
      backends = [('z3-ematch', BACKENDS[0][1], 20), ('z3-ematch2', BACKENDS[1][1], 20),
                  ('z3-default', ['z3-new'], 25),
                  ('cvc5', BACKENDS[3][1], 15)]
      thorough = False
    if canary:
      # must-NOT-be-provable checks: a short attempt is all that is needed
      backends = [(n, c, 2) for n, c, _ in (BACKENDS[0], BACKENDS[2])]
    for name, cmd, tmo in backends:
      if thorough and not canary:
        tmo *= THOROUGH_FACTOR
      v, dt, err = _run(cmd, path, tmo)
      res['time'] += dt
      res['tried'].append((name, v, round(dt, 3)) + ((err,) if err else ()))
      if v == 'unsat':
        res['verdict'] = 'unsat'
        res['backend'] = res['backend'] or name
        if not all_backends:
          break
      elif v == 'sat' and name in ('z3-default', 'cvc5', 'z3-old'):
        if res['verdict'] != 'unsat':
          res['verdict'] = 'sat'
          res['backend'] = name
        if not all_backends:
          break
  finally:
    os.unlink(path)
  return res


def discharge_all(jobs, workers=None):
  workers = workers or min(16, os.cpu_count() or 4)
  out = {}
  with concurrent.futures.ThreadPoolExecutor(max_workers=workers) as pool:
    for r in pool.map(discharge_one, jobs):
      out[r['key']] = r
  # an answer that ended in a wall-clock timeout is retried with the machine
  # otherwise idle before it is believed (at most a handful of these)
  retry = [j for j in jobs if out[j[0]]['verdict'] == 'unknown' and
           not (len(j) > 4 and j[4]) and
           any(t[1] == 'timeout' for t in out[j[0]]['tried'])][:MAX_RETRY]
  with concurrent.futures.ThreadPoolExecutor(max_workers=4) as pool:
    for j, r in zip(retry, pool.map(
        discharge_one, [(j[0], j[1], False, j[3], False, True) for j in retry])):
      r['retried_alone'] = True
      r['time'] += out[j[0]]['time']
      out[j[0]] = r
  return out


MAX_RETRY = 6


def get_model(hyps, goal, timeout_ms=10000):
  """In-process model for a refuted obligation (used for replay hints)."""
  s = z3.Solver()
  s.set('timeout', timeout_ms)
  for a in sym.background_axioms():
    s.add(a)
  for h in hyps:
    s.add(h)
  s.add(z3.Not(goal))
  if s.check() == z3.sat:
    return s.model()
  return None


def digest(text):
  return hashlib.sha256(text.encode()).hexdigest()[:12]
