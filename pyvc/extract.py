"""pyvc.extract -- mechanical extraction of the real functions from /repo.

Nothing is cached: every run re-reads the working tree.  A function is
addressed by `<file>::<Outer>.<inner>...`; the walk descends through class and
function bodies by name.  What the extraction drops is computed here and
reported in the evidence: docstrings, `# type:` comments (the ast has none),
`logging.*` call statements, and pytype/pylint comments (not in the ast).
"""
import ast
import hashlib
import os

REPO = os.environ.get('PYVC_REPO', '/repo')
MODULE_FILES = ['config.py', 'config_parser.py', 'selector_map.py', 'utils.py',
                'resource_reader.py']


class Repo:

  def __init__(self, root=None):
    self.root = root or REPO
    self.src = {}
    self.tree = {}
    for f in MODULE_FILES:
      path = os.path.join(self.root, 'gin', f)
      with open(path) as fh:
        self.src[f] = fh.read()
      self.tree[f] = ast.parse(self.src[f], filename=path)
    self._cache = {}

  def find(self, qual):
    """Returns the FunctionDef / ClassDef addressed by `qual` or None."""
    if qual in self._cache:
      return self._cache[qual]
    fname, path = qual.split('::')
    node = self.tree[fname]
    for part in path.split('.'):
      nxt = None
      for child in _defs_in(node):
        if child.name == part:
          nxt = child
          break
      if nxt is None:
        self._cache[qual] = None
        return None
      node = nxt
    self._cache[qual] = node
    return node

  def segment(self, qual):
    fname = qual.split('::')[0]
    node = self.find(qual)
    return ast.get_source_segment(self.src[fname], node)

  def sha(self, qual):
    seg = self.segment(qual)
    return hashlib.sha256(seg.encode()).hexdigest()[:16]

  def lines(self, qual):
    node = self.find(qual)
    return node.lineno, node.end_lineno

  def module_functions(self, fname):
    """All top-level function / class names of a module."""
    return {n.name: n for n in self.tree[fname].body
            if isinstance(n, (ast.FunctionDef, ast.ClassDef))}

  def class_methods(self, fname, cls):
    for n in self.tree[fname].body:
      if isinstance(n, ast.ClassDef) and n.name == cls:
        return {m.name: m for m in n.body if isinstance(m, ast.FunctionDef)}
    return {}


def _defs_in(node):
  """Function/class definitions directly nested in `node` (descending through
  compound statements but not into other defs)."""
  out = []
  stack = list(getattr(node, 'body', []))
  while stack:
    n = stack.pop(0)
    if isinstance(n, (ast.FunctionDef, ast.ClassDef, ast.AsyncFunctionDef)):
      out.append(n)
      continue
    for field in ('body', 'orelse', 'finalbody', 'handlers'):
      stack.extend(getattr(n, field, []) or [])
  return out


def dropped_items(fdef):
  """What the symbolic executor ignores in this function body."""
  out = []
  if ast.get_docstring(fdef):
    out.append('docstring')
  for n in ast.walk(fdef):
    if (isinstance(n, ast.Expr) and isinstance(n.value, ast.Call) and
        isinstance(n.value.func, ast.Attribute) and
        isinstance(n.value.func.value, ast.Name) and
        n.value.func.value.id == 'logging'):
      out.append(f'logging call at line {n.lineno}')
  return out


def loops_of(fdef):
  """Loops of a function in source order (not descending into nested defs)."""
  out = []

  def walk(stmts):
    for s in stmts:
      if isinstance(s, (ast.FunctionDef, ast.ClassDef)):
        continue
      if isinstance(s, (ast.For, ast.While)):
        out.append(s)
      for field in ('body', 'orelse', 'finalbody'):
        walk(getattr(s, field, []) or [])
      for h in getattr(s, 'handlers', []) or []:
        walk(h.body)

  walk(fdef.body)
  return out


# methods of lists / dicts / sets / strings / regexes that do not mutate the
# receiver (anything else called on a name counts as a possible mutation)
NON_MUTATING_METHODS = {
    'get', 'items', 'keys', 'values', 'copy', 'join', 'split', 'rsplit',
    'format', 'startswith', 'endswith', 'lower', 'upper', 'strip', 'rstrip',
    'lstrip', 'splitlines', 'match', 'index', 'count', 'isidentifier',
    'union', 'difference', 'intersection', 'issubset', 'find', 'replace',
    'partition', 'rpartition', 'encode', 'decode',
}


def bound_names(stmts):
  """Names that Python's scoping rule makes LOCAL to a function with this body: targets that
  are plain names (assignment, for, with-as, import, def/class, except-as, walrus, del).
  Subscript or attribute stores and method calls do not bind (they read the name)."""
  names = set()

  def target(t):
    if isinstance(t, ast.Name):
      names.add(t.id)
    elif isinstance(t, (ast.Tuple, ast.List)):
      for e in t.elts:
        target(e)
    elif isinstance(t, ast.Starred):
      target(t.value)

  def walk(n):
    for ch in ast.iter_child_nodes(n):
      if isinstance(ch, (ast.FunctionDef, ast.AsyncFunctionDef, ast.ClassDef)):
        names.add(ch.name)
        continue                       # a nested scope binds its own names
      if isinstance(ch, ast.Lambda):
        continue
      if isinstance(ch, ast.Assign):
        for t in ch.targets:
          target(t)
      elif isinstance(ch, (ast.AugAssign, ast.AnnAssign)):
        target(ch.target)
      elif isinstance(ch, (ast.For, ast.AsyncFor)):
        target(ch.target)
      elif isinstance(ch, (ast.With, ast.AsyncWith)):
        for it in ch.items:
          if it.optional_vars is not None:
            target(it.optional_vars)
      elif isinstance(ch, ast.Delete):
        for t in ch.targets:
          target(t)
      elif isinstance(ch, (ast.Import, ast.ImportFrom)):
        for a in ch.names:
          names.add((a.asname or a.name).split('.')[0])
      elif isinstance(ch, ast.ExceptHandler) and ch.name:
        names.add(ch.name)
      elif isinstance(ch, ast.NamedExpr):
        target(ch.target)
      if isinstance(ch, (ast.ListComp, ast.SetComp, ast.DictComp, ast.GeneratorExp)):
        continue                       # comprehension targets live in their own scope
      walk(ch)

  m = ast.Module(body=list(stmts), type_ignores=[])
  walk(m)
  return names


def assigned_names(stmts):
  """Names (and `self.x` attribute paths) assigned or mutated in statements.

  Used to decide what a loop cut has to havoc.  Conservative: any name that is
  the target of an assignment / augmented assignment / for / with-as / del, any
  name on which a method is called or that is subscript-assigned.
  """
  names = set()

  def target(t):
    if isinstance(t, ast.Name):
      names.add(t.id)
    elif isinstance(t, (ast.Tuple, ast.List)):
      for e in t.elts:
        target(e)
    elif isinstance(t, ast.Starred):
      target(t.value)
    elif isinstance(t, (ast.Subscript, ast.Attribute)):
      root = t
      while isinstance(root, (ast.Subscript, ast.Attribute)):
        if (isinstance(root, ast.Attribute) and isinstance(root.value, ast.Name)
            and root.value.id == 'self'):
          names.add('self.' + root.attr)
        root = root.value
      if isinstance(root, ast.Name):
        names.add(root.id)

  for s in stmts:
    for n in ast.walk(s):
      if isinstance(n, ast.Assign):
        for t in n.targets:
          target(t)
      elif isinstance(n, (ast.AugAssign, ast.AnnAssign)):
        target(n.target)
      elif isinstance(n, ast.For):
        target(n.target)
      elif isinstance(n, ast.With):
        for it in n.items:
          if it.optional_vars is not None:
            target(it.optional_vars)
      elif isinstance(n, ast.Delete):
        for t in n.targets:
          target(t)
      elif isinstance(n, ast.ExceptHandler) and n.name:
        names.add(n.name)
      elif isinstance(n, ast.Call) and isinstance(n.func, ast.Attribute):
        if n.func.attr not in NON_MUTATING_METHODS:
          target(n.func.value)
      elif isinstance(n, ast.NamedExpr):
        target(n.target)
  return names
