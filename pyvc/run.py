"""pyvc.run -- generate and discharge the obligations of functions under contract."""
import importlib
import os
import pkgutil
import sys
import collections
import time
import traceback

import z3

from pyvc import sym, extract, solve
from pyvc import contract as C
from pyvc import world
from pyvc.exec import Executor, Path, PathEnd

MAX_PATHS = 4000


def load_contracts():
  """Imports every module of /verif/contracts (registering contracts)."""
  import contracts
  C.REGISTRY.clear()
  C.CALL_NAMES.clear()
  sym.reset_registry()
  for name in [n for n in sys.modules if n.startswith('contracts.')]:
    del sys.modules[name]
  for m in sorted(pkgutil.iter_modules(contracts.__path__), key=lambda m: m.name):
    importlib.import_module('contracts.' + m.name)     # each module runs exactly once
  return C.REGISTRY


class FunctionResult:

  def __init__(self, qual):
    self.qual = qual
    self.obligations = []     # (Obligation, path index)
    self.paths = 0
    self.status = 'ok'        # ok | missing | out-of-subset | engine-error
    self.detail = ''
    self.sha = None
    self.lines = None
    self.dropped = []
    self.gen_time = 0.0


def generate(repo, c):
  """All paths of one function; returns FunctionResult."""
  res = FunctionResult(c.qual)
  real = getattr(c, 'target', None) or c.qual
  fdef = repo.find(real)
  if fdef is None:
    res.status = 'missing'
    res.detail = 'function not found in the working tree'
    return res
  res.sha = repo.sha(real)
  res.lines = repo.lines(real)
  res.dropped = extract.dropped_items(fdef)
  t0 = time.time()
  work = [[]]
  seen = set()
  while work:
    decisions = work.pop()
    if res.paths >= MAX_PATHS:
      res.status = 'engine-error'
      res.detail = f'more than {MAX_PATHS} paths'
      break
    path = Path(decisions, c.qual, c.props)
    ex = Executor(repo, c, path, world.STATE, world)
    try:
      ex.run_entry(fdef)
    except sym.OutOfSubset as e:
      res.status = 'out-of-subset'
      res.detail = str(e)
      res.obligations = []
      break
    except PathEnd:
      pass
    except RecursionError:
      res.status = 'engine-error'
      res.detail = 'recursion limit'
      break
    except Exception as e:
      tb = traceback.extract_tb(e.__traceback__)
      in_contract = [f for f in tb if '/contracts/' in f.filename]
      if in_contract and isinstance(e, (AttributeError, KeyError, IndexError, TypeError)):
        # a clause could not even be evaluated on this code: the contract no
        # longer fits (e.g. a loop was added/removed, a local changed its type)
        res.status = 'out-of-subset'
        res.detail = (f'contract does not fit the code any more: {type(e).__name__}: {e} '
                      f'at {in_contract[-1].filename.split("/")[-1]}:{in_contract[-1].lineno}')
        res.obligations = []
        break
      raise
    res.paths += 1
    for alt in path.new_alternatives:
      work.append(alt)
    for ob in path.obls:
      res.obligations.append((ob, res.paths - 1))
  res.gen_time = time.time() - t0
  return res


def prune_infeasible(path_hyps):
  s = z3.Solver()
  s.set('timeout', 300)
  for h in path_hyps:
    s.add(h)
  return s.check() == z3.unsat


def check_functions(repo, quals, thorough=False, all_backends=False, log=None, only=None):
  """Generates and discharges; returns (function results, obligation results)."""
  fres = {}
  jobs = []
  index = {}
  for q in quals:
    c = C.REGISTRY[q]
    if c.kind != 'proved' or c.skip_proof:
      continue
    try:
      r = generate(repo, c)
    except Exception as e:   # engine bug: never a verdict about the code
      r = FunctionResult(q)
      r.status = 'engine-error'
      r.detail = ''.join(traceback.format_exception_only(type(e), e)).strip() + \
          ' @ ' + traceback.format_exc().strip().splitlines()[-3]
    fres[q] = r
    seen = {}
    for ob, pi in r.obligations:
      if only and only not in ob.name:
        continue
      text = solve.to_smt2(ob.hyps, ob.goal)
      d = solve.digest(text)
      k = (ob.name, d)
      if k in seen:
        continue
      key = f'{ob.name}@{d}'
      seen[k] = key
      index[key] = (ob, pi, q)
      jobs.append((key, text, thorough, all_backends, ob.kind == 'canary'))
  t0 = time.time()
  # must-not-be-provable checks (canaries, vacuity) succeed as soon as ONE instance of a name is
  # not provable: four instances per name are tried first, the others only if all four came out
  # `unsat` (a function with hundreds of return paths otherwise spends minutes on them)
  first, later, per_name = [], [], collections.Counter()
  for j in jobs:
    if j[4]:
      nm = index[j[0]][0].name
      per_name[nm] += 1
      (first if per_name[nm] <= 4 else later).append(j)
    else:
      first.append(j)
  results = solve.discharge_all(first)
  open_names = set()
  for j in first:
    if j[4] and results[j[0]]['verdict'] != 'unsat':
      open_names.add(index[j[0]][0].name)
  rest = [j for j in later if index[j[0]][0].name not in open_names]
  if rest:
    results.update(solve.discharge_all(rest))
  for j in later:
    if j[0] not in results:
      del index[j[0]]          # not needed for the verdict; not counted
  wall = time.time() - t0
  return fres, index, results, wall
