"""pyvc.replay -- turn a solver counterexample (a model of a refuted obligation) into
concrete inputs, run the REAL function on them, and evaluate the violated clause on
what the real function actually did.  Only for contracts over plain data
(native strings / bools / ints / optionals / NamedTuple records of those)."""
import json
import os
import subprocess

import z3

from pyvc import sym
from pyvc.sym import VStr, VBool, VInt, VOpt, VRecord, VTuple, VNone, KOpt, KTuple
from pyvc.exec import Ctx


def _concrete(model, w):
  if isinstance(w, VStr):
    v = model.eval(w.e, model_completion=True)
    return v.as_string() if z3.is_string_value(v) else None
  if isinstance(w, VBool):
    return z3.is_true(model.eval(w.e, model_completion=True))
  if isinstance(w, VInt):
    return model.eval(w.e, model_completion=True).as_long()
  if isinstance(w, VOpt):
    if z3.is_true(model.eval(w.is_none, model_completion=True)):
      return None
    return _concrete(model, w.inner)
  if isinstance(w, VRecord):
    return {f: _concrete(model, v) for f, v in w.fields.items() if f != 'location'}
  raise ValueError('not plain data')


def _wrap(kind, val):
  """Concrete python value -> concrete wrapper of the given kind."""
  if isinstance(kind, KOpt):
    if val is None:
      return sym.coerce(sym.NONE, kind)
    return sym.coerce(_wrap(kind.inner, val), kind)
  if kind is sym.KStrN:
    return VStr(z3.StringVal(val))
  if kind is sym.KBool:
    return VBool(bool(val))
  if kind is sym.KInt:
    return VInt(int(val))
  if isinstance(kind, KTuple):
    return VTuple([_wrap(k, v) for k, v in zip(kind.items, val)], kind)
  if isinstance(kind, sym.KRecord):
    return VRecord(kind, {f: (_wrap(k, val.get(f)) if f in val else k.fresh('r!' + f))
                          for f, k in kind.fields.items()})
  raise ValueError('not plain data')


def rerun(contract, label, req, repo_root, venv_py='/venv/bin/python'):
  """Re-executes a stored model replay against the current tree."""
  env = dict(os.environ, PYTHONPATH=repo_root)
  p = subprocess.run([venv_py, os.path.join(os.path.dirname(__file__), '..', 'tools',
                                            'native_call.py')],
                     input=json.dumps(req), capture_output=True, text=True, env=env, timeout=60)
  obs = json.loads(p.stdout.strip().splitlines()[-1])
  out = {'inputs': req, 'observed': obs}
  if 'result' in obs:
    clause = [c for c in contract.ensures if c.label == label]
    names = list(contract.params)
    a = {k: _wrap(contract.params[k][0], v) for k, v in zip(names, req['args'])}
    ctx = Ctx(None, a, {}, {}, result=_wrap(contract.result, obs['result']))
    if req.get('self') is not None:
      ctx.self_old = ctx.self_new = _wrap(contract.self_kind, req['self'])
    val = z3.simplify(clause[0].fn(ctx))
    if not (z3.is_true(val) or z3.is_false(val)):
      t = z3.Solver()
      t.set('timeout', 10000)
      t.add(z3.Not(val))
      val = z3.BoolVal(t.check() == z3.unsat)
    out['clause_holds_on_real_behaviour'] = z3.is_true(val)
  return out


def replay(contract, ob, repo_root, venv_py='/venv/bin/python'):
  """Returns a dict describing the native replay, or None if not applicable."""
  args0 = ob.meta.get('args0')
  if args0 is None or contract.strings != 'native':
    return None
  s = z3.Solver()
  s.set('timeout', 20000)
  for a in sym.background_axioms(list(ob.hyps) + [ob.goal]):
    s.add(a)
  for h in ob.hyps:
    s.add(h)
  s.add(z3.Not(ob.goal))
  if s.check() != z3.sat:
    return None
  m = s.model()
  try:
    inputs = {k: _concrete(m, v) for k, v in args0.items()}
  except Exception:
    return None
  selfv = inputs.pop('self', None)
  req = {'qual': contract.target or contract.qual, 'self': selfv,
         'args': [inputs[p] for p in contract.params]}
  env = dict(os.environ, PYTHONPATH=repo_root)
  p = subprocess.run([venv_py, os.path.join(os.path.dirname(__file__), '..', 'tools',
                                            'native_call.py')],
                     input=json.dumps(req), capture_output=True, text=True, env=env, timeout=60)
  try:
    obs = json.loads(p.stdout.strip().splitlines()[-1])
  except Exception:
    return {'inputs': req, 'native_error': (p.stderr or p.stdout)[-300:]}
  out = {'inputs': req, 'observed': obs, 'from_solver_model': True}
  label = ob.name.split('/')[-1]
  if 'result' in obs and contract.result is not None:
    clause = [c for c in contract.ensures if c.label == label]
    if clause:
      a = {k: _wrap(contract.params[k][0], inputs[k]) for k in contract.params}
      ctx = Ctx(None, a, {}, {}, result=_wrap(contract.result, obs['result']))
      if selfv is not None:
        ctx.self_old = ctx.self_new = _wrap(contract.self_kind, selfv)
      val = z3.simplify(clause[0].fn(ctx))
      if not (z3.is_true(val) or z3.is_false(val)):
        t = z3.Solver()
        t.set('timeout', 10000)
        t.add(z3.Not(val))
        val = z3.BoolVal(t.check() == z3.unsat)
      out['clause'] = label
      out['clause_holds_on_real_behaviour'] = z3.is_true(val)
  elif 'exception' in obs:
    out['clause'] = label
    out['clause_holds_on_real_behaviour'] = None
  return out
