"""pyvc.world -- name resolution, builtins and library semantics.

This is the table of *assumed Python semantics*: what a builtin, a list/dict/str
method or a library attribute means symbolically.  Everything here is generic
Python; nothing here describes gin's own functions (those are either executed
from the real AST or replaced by their contract).
"""
import ast
import z3

from pyvc import sym
from pyvc.sym import (OutOfSubset, PyRaise, VBool, VInt, VStr, VNone, NONE,
                      VObj, VList, VDict, VTuple, VOpt, VRecord, VExc, VPy,
                      KBool, KInt, KStr, KVal, KList, KDict, KSet, KTuple, KOpt,
                      KRecord, coerce, kind_of)
from pyvc import contract as C

BUILTINS = {'isinstance', 'len', 'list', 'dict', 'set', 'tuple', 'zip',
            'enumerate', 'reversed', 'range', 'sorted', 'callable', 'hasattr',
            'getattr', 'str', 'bool', 'map', 'all', 'any', 'type', 'min',
            'max', 'repr', 'next', 'iter', 'hash', 'int', 'sum'}
MODULES = {'config_parser', 'selector_map', 'utils', 'copy', 'inspect', 'os',
           'tokenize', 'ast', 'logging', 'functools', 'threading',
           'collections', 'pprint', 'traceback', 're', 'io', 'typing', 'enum',
           'contextlib'}
TYPE_TAGS = {'str': 'str', 'list': 'list', 'tuple': 'tuple', 'dict': 'dict',
             'set': 'set', 'bool': 'bool', 'int': 'int'}

# filled by contracts/state.py
STATE = {}
LOCKS = {}
LOCK_REENTRANT = {}
INLINE = set()
RECORD_CLASSES = {}      # class name -> (file, KRecord)
GLOBAL_VALUES = {}       # name -> factory(ex) for module-level constants
MODULE_ATTRS = {}        # (module, attr) -> factory(ex)
EXTERNALS = {}           # dotted name -> contract qual
OPAQUE_CLASSES = {'BindingStatement', 'BlockDeclaration', 'ImportStatement',
                  'IncludeStatement'}
EMPTY_DICT_AS_RECORD = {}   # record kind name -> factory: what a fresh `{}` means in that view
INLINE_CMS = set()          # quals of small generator context managers executed from source
VAL_METHOD_CONTRACTS = {}  # method name on an opaque object -> contract qual


def _declared_global_somewhere(ex, fname, name):
  key = ('globals', fname)
  cache = ex.repo.__dict__.setdefault('_adhoc_cache', {})
  if key not in cache:
    names = set()
    for n in ast.walk(ex.repo.tree[fname]):
      if isinstance(n, ast.Global):
        names.update(n.names)
    cache[key] = names
  return name in cache[key]


def adhoc_global_kind(ex, fname, name):
  """Kind of a module-level variable that some function rebinds (`global name`) and that is
  not part of the declared state: inferred from its initial literal.  None if `name` is not
  such a variable."""
  if name in STATE or not _declared_global_somewhere(ex, fname, name):
    return None
  for n in ex.repo.tree[fname].body:
    if isinstance(n, ast.Assign) and len(n.targets) == 1 and \
        isinstance(n.targets[0], ast.Name) and n.targets[0].id == name and \
        isinstance(n.value, ast.Constant):
      v = n.value.value
      if isinstance(v, bool):
        return sym.KBool
      if isinstance(v, int):
        return sym.KInt
      if isinstance(v, str):
        return sym.KStr
      if v is None:
        return sym.KVal
  return None


def resolve_global(ex, fname, name):
  if name.endswith('_RE'):
    pat = regex_pattern(ex.repo, fname, name)
    if pat is not None:
      return VPy('regex', pat)
  if name in GLOBAL_VALUES:
    return GLOBAL_VALUES[name](ex)
  for n in ex.repo.tree[fname].body:      # module-level literal constants
    if isinstance(n, ast.Assign) and len(n.targets) == 1 and \
        isinstance(n.targets[0], ast.Name) and n.targets[0].id == name and \
        isinstance(n.value, ast.Constant) and isinstance(n.value.value, (str, int, bool)) and \
        name.isupper():
      return ex.ex_Constant(n.value)
  mods = ex.repo.module_functions(fname)
  if name in mods and f'{fname}::{name}#ctor' in C.REGISTRY and \
      ex.contract.strings != 'native' and getattr(ex.contract, 'use_ctor_contracts', False):
    return VPy('func', f'{fname}::{name}#ctor')      # a class constructed through its contract
  if name in RECORD_CLASSES:
    return VPy('recclass', name)
  if name in mods:
    if f'{fname}::{name}#ctor' in C.REGISTRY and ex.contract.strings != 'native':
      return VPy('func', f'{fname}::{name}#ctor')
    return VPy('func', f'{fname}::{name}')
  if name in MODULES:
    return VPy('module', name)
  if name in sym._EXC_PARENT or name in sym._EXC_ALIASES:
    return VPy('excclass', name)
  if name in TYPE_TAGS:
    return VPy('type', name)
  if name in BUILTINS:
    return VPy('builtin', name)
  if name == 'object':
    return VPy('type', 'object')
  return None


def qual_of(ex, fn):
  if fn.what == 'func':
    return fn.payload
  if fn.what == 'method':
    obj, name = fn.payload
    if isinstance(obj, VRecord):
      f = RECORD_CLASSES[obj.kind.rname][0]
      q = f'{f}::{obj.kind.rname}.{name}'
      if obj.kind.name.endswith('A') and q + '#abstract' in C.REGISTRY:
        return q + '#abstract'
      return q
  raise OutOfSubset(f'cannot name callee {fn!r}')


def module_attr(ex, mod, attr, node):
  key = (mod, attr)
  if key in MODULE_ATTRS:
    return MODULE_ATTRS[key](ex)
  dotted = f'{mod}.{attr}'
  if dotted in EXTERNALS:
    return VPy('external', EXTERNALS[dotted])
  fmap = {'config_parser': 'config_parser.py', 'selector_map': 'selector_map.py',
          'utils': 'utils.py'}
  if mod in fmap:
    if attr in RECORD_CLASSES and RECORD_CLASSES[attr][0] == fmap[mod]:
      return VPy('recclass', attr)
    if attr in OPAQUE_CLASSES:
      return VPy('func', f'{fmap[mod]}::{attr}')
    if attr in ex.repo.module_functions(fmap[mod]):
      return VPy('func', f'{fmap[mod]}::{attr}')
    if attr.endswith('_RE'):
      pat = regex_pattern(ex.repo, fmap[mod], attr)
      if pat is None:
        raise OutOfSubset(f'cannot resolve regex {mod}.{attr}', node)
      return VPy('regex', pat)
  if mod == 'os' and attr == 'path':
    return VPy('module', 'os.path')
  if mod == 'tokenize' and attr.isupper():
    return VPy('toktype', attr)
  if mod == 'collections' and attr == 'abc':
    return VPy('module', 'collections.abc')
  return None


def py_attr(ex, obj, attr, node):
  if obj.what == 'regex' and attr == 'match':
    return VPy('regex_match', obj.payload)
  if obj.what == 'func' and attr in ('__name__',):
    return VStr(obj.payload.split('::')[-1])
  if obj.what == 'type' and (obj.payload, attr) in MODULE_ATTRS:
    return MODULE_ATTRS[(obj.payload, attr)](ex)       # e.g. object.__init__
  if obj.what == 'recclass':
    f = RECORD_CLASSES[obj.payload][0]
    if attr in ex.repo.class_methods(f, obj.payload):
      return VPy('func', f'{f}::{obj.payload}.{attr}')
  return None


SELECTOR_PATTERN = r'^([a-zA-Z_]\w*\.)*[a-zA-Z_]\w*\Z'
IDENTIFIER_PATTERN = r'^[a-zA-Z_]\w*\Z'
KNOWN_PATTERNS = {'SELECTOR_RE': SELECTOR_PATTERN, 'MODULE_RE': SELECTOR_PATTERN,
                  'IDENTIFIER_RE': IDENTIFIER_PATTERN}


def regex_pattern(repo, fname, name, depth=0):
  """The pattern text a module-level regex name denotes in the REAL source."""
  tree = repo.tree[fname]
  for n in tree.body:
    if isinstance(n, ast.Assign) and len(n.targets) == 1 and \
        isinstance(n.targets[0], ast.Name) and n.targets[0].id == name:
      v = n.value
      if isinstance(v, ast.Call) and isinstance(v.func, ast.Attribute) and \
          v.func.attr == 'compile' and v.args and isinstance(v.args[0], ast.Constant):
        return v.args[0].value
      if isinstance(v, ast.Attribute) and isinstance(v.value, ast.Name) and depth < 3:
        fmap = {'selector_map': 'selector_map.py', 'config_parser': 'config_parser.py'}
        if v.value.id in fmap:
          return regex_pattern(repo, fmap[v.value.id], v.attr, depth + 1)
      if isinstance(v, ast.Name) and depth < 3:
        return regex_pattern(repo, fname, v.id, depth + 1)
  return None


def re_pred(pattern, s):
  return sym.ufun('re_match$' + pattern, sym.Str, sym.BoolS)(s)


def re_match(name, s):
  """`RE.match(s)` truthiness as an uninterpreted predicate PER PATTERN TEXT.
  `name` is either a pattern text (from the real source) or a known name (specs)."""
  return re_pred(KNOWN_PATTERNS.get(name, name), s)


def val_attr(ex, obj, attr, node):
  """Attribute of an opaque value: an uninterpreted projection."""
  f = sym.ufun('attr_' + attr, sym.Val, sym.Val)
  return VObj(f(obj.e))


def exc_attr(ex, obj, attr, node):
  return None


def record_attr(ex, obj, attr, node):
  """@property / method of a record class, taken from the real AST."""
  fname = RECORD_CLASSES[obj.kind.rname][0]
  methods = ex.repo.class_methods(fname, obj.kind.rname)
  if attr in methods:
    m = methods[attr]
    is_prop = any(isinstance(d, ast.Name) and d.id == 'property'
                  for d in m.decorator_list)
    if is_prop:
      q = f'{fname}::{obj.kind.rname}.{attr}'
      c = C.REGISTRY.get(q)
      if c is not None and q not in ex.contract.inline_ok and c is not ex.contract:
        return ex.call_contract(c, [], {}, node, obj)
      return ex.inline_call(q, [], {}, node, selfw=obj)
    return VPy('method', (obj, attr))
  if attr == '_replace':
    return VPy('method', (obj, '_replace'))
  return None


def record_eq(ex, a, b, node):
  """`==` between two records, resolved as Python does: through the class's
  own `__eq__` if the real class defines one (executed from the AST), else
  field-wise (NamedTuple semantics)."""
  if a.kind.rname != b.kind.rname:
    return z3.BoolVal(False)
  fname = RECORD_CLASSES[a.kind.rname][0]
  methods = ex.repo.class_methods(fname, a.kind.rname)
  if '__eq__' in methods:
    r = ex.inline_call(f'{fname}::{a.kind.rname}.__eq__', [b], {}, node, selfw=a)
    return ex.truth(r, node)
  order = getattr(a.kind, 'tuple_order', None) or list(a.kind.fields)
  return z3.And(*[ex.equal(a.fields[f], b.fields[f], node) for f in order])


def make_record(ex, cname, args, kwargs, node):
  f, kind = RECORD_CLASSES[cname]
  order = getattr(kind, 'tuple_order', None) or list(kind.fields)
  fields = {}
  if any(isinstance(a, tuple) for a in args):
    # cls(*record)
    if len(args) == 1 and isinstance(args[0][1], VObj):
      args = [('*', coerce(args[0][1], kind))]
    if len(args) == 1 and isinstance(args[0][1], VRecord):
      src = args[0][1]
      so = getattr(src.kind, 'tuple_order', list(src.kind.fields))
      args = [src.fields[x] for x in so]
    else:
      raise OutOfSubset('starred record construction', node)
  for n, v in zip(order, args):
    fields[n] = v
  fields.update(kwargs)
  defaults = getattr(kind, 'defaults', {})
  for n in order:
    if n not in fields:
      if n in defaults:
        fields[n] = defaults[n](ex)
      else:
        raise OutOfSubset(f'missing field {n} constructing {cname}', node)
  return VRecord(kind, {n: coerce(fields[n], kind.fields[n]) for n in kind.fields})


def _dunder(ex, obj, name):
  if not isinstance(obj, VRecord) or obj.kind.rname not in RECORD_CLASSES:
    return None
  fname = RECORD_CLASSES[obj.kind.rname][0]
  if name in ex.repo.class_methods(fname, obj.kind.rname):
    return VPy('method', (obj, name))
  return None


def _treeish(w):
  from pyvc import tree
  return tree.is_tree(w) or isinstance(w, (tree.VNode, tree.VNodeCopy))


def contains(ex, coll, x, node):
  if _treeish(coll):
    from pyvc import tree
    return tree.node_contains(ex, coll, x, node)
  m = _dunder(ex, coll, '__contains__')
  if m is not None:
    return ex.truth(ex.call(m, [x], {}, node), node)
  if isinstance(coll, VObj):
    # membership in an opaque collection: an uninterpreted relation
    return sym.ufun('val_contains', sym.Val, sym.Val, sym.BoolS)(coll.e, sym.to_val(x))
  return None


def get_item(ex, obj, idx, node):
  if _treeish(obj):
    from pyvc import tree
    return tree.node_getitem(ex, obj, idx, node)
  m = _dunder(ex, obj, '__getitem__')
  if m is not None:
    return ex.call(m, [idx], {}, node)
  return None


def set_item(ex, obj, idx, v, node):
  if _treeish(obj):
    from pyvc import tree
    tree.node_setitem(ex, obj, idx, v, node)
    return True
  m = _dunder(ex, obj, '__setitem__')
  if m is not None:
    ex.call(m, [idx, v], {}, node)
    return True
  return False


def len_of(ex, v, node):
  if _treeish(v):
    from pyvc import tree
    return tree.node_len(ex, v, node)
  m = _dunder(ex, v, '__len__')
  if m is not None:
    return ex.call(m, [], {}, node)
  return None


def get_slice(ex, obj, lo, hi, step, node):
  hook = getattr(ex.contract, 'slice_hook', None)
  if hook is not None:
    return hook(ex, obj, lo, hi, step, node)
  return None


def filter_comprehension(ex, node, g, it, elt):
  """[x for x in src if P(x)] over a symbolic source: the order-preserving sub-list of the
  elements satisfying P.  Characterised by ghost index maps f (result index -> source index,
  strictly increasing) and rank (source index -> result index)  [assumed Python semantics]."""
  if not (isinstance(elt, ast.Name) and isinstance(g.target, ast.Name) and
          elt.id == g.target.id):
    raise OutOfSubset('filtering comprehension with a mapping element', node)
  env0 = dict(ex.frame.env)

  def P(idx):
    ex.frame.env = dict(env0)
    ex.assign(g.target, it.at(idx))
    conds = [ex.truth(ex.ev(c), c) for c in g.ifs]
    ex.frame.env = env0
    return z3.And(*conds) if len(conds) > 1 else conds[0]

  w0 = it.at(z3.IntVal(0))
  ek = kind_of(w0)
  m = ex.path.fresh_const('flen', sym.IntS)
  arr = ex.path.fresh_const('farr', z3.ArraySort(sym.IntS, ek.sort()))
  f = z3.Function(ex.path.fresh_name('fsrc'), sym.IntS, sym.IntS)
  rank = z3.Function(ex.path.fresh_name('frank'), sym.IntS, sym.IntS)
  j, j2, i = z3.Int('j!f'), z3.Int('j2!f'), z3.Int('i!f')
  n = it.len
  src_at = lambda k: ek.box(it.at(k))
  ex.path.assume(z3.And(m >= 0, m <= n))
  ex.path.assume(sym.forall([j], z3.Implies(z3.And(0 <= j, j < m), z3.And(
      0 <= f(j), f(j) < n, arr[j] == src_at(f(j)), P(f(j)), rank(f(j)) == j)),
      patterns=[arr[j], f(j)]))
  ex.path.assume(sym.forall([j, j2], z3.Implies(z3.And(0 <= j, j < j2, j2 < m), f(j) < f(j2)),
                            patterns=[[f(j), f(j2)]]))
  ex.path.assume(sym.forall([i], z3.Implies(z3.And(0 <= i, i < n, P(i)), z3.And(
      0 <= rank(i), rank(i) < m, f(rank(i)) == i, arr[rank(i)] == src_at(i))),
      patterns=[rank(i), src_at(i)]))
  lst = VList(KList(ek), m, arr)
  lst.filter_of = (it, f, rank, P)
  return lst


# -----------------------------------------------------------------------------
# builtins


def _isinstance(ex, v, t, node):
  names = []
  if isinstance(t, VTuple):
    for i in t.items:
      names.append(i)
  else:
    names.append(t)
  conds = []
  for tn in names:
    conds.append(_isinstance1(ex, v, tn, node))
  return z3.Or(*conds) if len(conds) > 1 else conds[0]


def _isinstance1(ex, v, t, node):
  if isinstance(t, VPy) and t.what == 'type':
    tn = t.payload
    if isinstance(v, VObj):
      sym.val_axioms()
      tag = sym.tag_of(v.e)
      if tn == 'int':
        return z3.Or(tag == sym.TAG['int'], tag == sym.TAG['bool'])
      return tag == sym.TAG[tn]
    if isinstance(v, VOpt):
      return z3.And(z3.Not(v.is_none), _isinstance1(ex, v.inner, t, node))
    actual = {VStr: 'str', VList: 'list', VBool: 'bool', VInt: 'int',
              VTuple: 'tuple'}.get(type(v))
    if isinstance(v, VDict):
      actual = 'set' if getattr(v.kind, 'is_set', False) else 'dict'
    if isinstance(v, VNone):
      actual = 'none'
    if actual is None:
      return z3.BoolVal(False)
    if tn == 'int' and actual == 'bool':
      return z3.BoolVal(True)
    return z3.BoolVal(actual == tn)
  if isinstance(t, VPy) and t.what == 'excclass':
    if isinstance(v, VExc):
      return sym.exc_sub(v.cls, sym.exc_const(t.payload))
    return z3.BoolVal(False)
  if isinstance(t, VPy) and t.what == 'recclass':
    if isinstance(v, VRecord):
      return z3.BoolVal(v.kind.rname == t.payload)
    if isinstance(v, VObj):
      return sym.ufun('isinst_' + t.payload, sym.Val, sym.BoolS)(v.e)
    return z3.BoolVal(False)
  if isinstance(t, VPy) and t.what == 'func':
    # a class defined in the repo (e.g. ConfigurableReference)
    cname = t.payload.split('::')[-1]
    if isinstance(v, VObj):
      return sym.ufun('isinst_' + cname, sym.Val, sym.BoolS)(v.e)
    if isinstance(v, VRecord):
      return z3.BoolVal(v.kind.rname == cname)
    return z3.BoolVal(False)
  raise OutOfSubset(f'isinstance against {t!r}', node)


def call_builtin(ex, name, args, kwargs, node):
  hook = getattr(ex.contract, 'builtin_hook', None)
  if hook is not None:
    r = hook(ex, name, args, kwargs, node)
    if r is not None:
      return r
  if name == 'isinstance':
    return VBool(_isinstance(ex, args[0], args[1], node))
  if name == 'len':
    v = args[0]
    if isinstance(v, VOpt):
      ex.path.oblige(f'{ex.contract.qual}/safety/len_not_none#{ex.at(node)}',
                     z3.Not(v.is_none))
      ex.path.assume(z3.Not(v.is_none))
      v = v.inner
    if isinstance(v, VList):
      return VInt(v.len)
    if isinstance(v, VTuple):
      return VInt(len(v.items))
    if isinstance(v, VStr):
      if v.native:
        return VInt(z3.Length(v.e))
      n = sym.ufun('str_len', sym.Str, sym.IntS)(v.e)
      ex.path.assume(n >= 0)
      return VInt(n)
    r = getattr(ex.world, 'len_of', lambda *a: None)(ex, v, node)
    if r is not None:
      return r
    raise OutOfSubset(f'len of {v!r}', node)
  if name == 'list':
    if not args:
      return VPy('emptylist')
    v = args[0]
    if isinstance(v, VPy) and v.what == 'emptylist':
      return VPy('emptylist')
    if isinstance(v, VList):
      return v.copy()
    if isinstance(v, VTuple):
      if not v.items:
        return VPy('emptylist')
      return KList(kind_of(v.items[0])).from_items(v.items)
    if isinstance(v, VDict):
      it = ex.dict_iter(v, 'keys')
      return _iter_to_list(ex, it, v.kind.key)
    from pyvc.exec import Iter
    if isinstance(v, Iter):
      return _iter_to_list(ex, v, getattr(v, 'elem_kind', None))
    raise OutOfSubset(f'list({v!r})', node)
  if name == 'tuple' and args and isinstance(args[0], (VList, VTuple)):
    return args[0]
  if name == 'dict':
    if not args and not kwargs:
      return VPy('emptydict')
    if len(args) == 1 and isinstance(args[0], VList):
      return VObj(sym.ufun('dict_of_items', sym.Val, sym.Val)(sym.to_val(args[0])))
    from pyvc.exec import Iter
    if len(args) == 1 and isinstance(args[0], Iter) and not kwargs:
      # dict(iterable of pairs): a key is present iff some pair has it; its value is that of
      # the LAST such pair  [assumed Python semantics, see tools/axiom_conformance.py]
      it = args[0]
      j = z3.Int(ex.path.fresh_name('j!dz'))
      pair = it.at(j)
      if not (isinstance(pair, VTuple) and len(pair.items) == 2):
        raise OutOfSubset('dict() of an iterable whose items are not pairs', node)
      kw, vw = pair.items
      kk, vk = kind_of(kw), kind_of(vw)
      dk = KDict(kk, vk)
      keyf = ex.path.define('dz_key', [j], kk.box(kw))
      valf = ex.path.define('dz_val', [j], vk.box(vw))
      n = it.len
      dom = ex.path.fresh_const('dz_dom', z3.ArraySort(kk.sort(), sym.BoolS))
      val = ex.path.fresh_const('dz_map', z3.ArraySort(kk.sort(), vk.sort()))
      k = z3.Const('k!dz', kk.sort())
      i2 = z3.Int('i2!dz')
      ex.path.assume(sym.forall([k], z3.Select(dom, k) == z3.Exists(
          [i2], z3.And(0 <= i2, i2 < n, keyf(i2) == k)), patterns=[z3.Select(dom, k)]))
      ex.path.assume(sym.forall([j], z3.Implies(z3.And(0 <= j, j < n), z3.Select(dom, keyf(j))),
                                patterns=[keyf(j)]))
      ex.path.assume(sym.forall([j], z3.Implies(
          z3.And(0 <= j, j < n, sym.forall([i2], z3.Implies(z3.And(j < i2, i2 < n),
                                                           keyf(i2) != keyf(j)),
                                          patterns=[keyf(i2)])),
          z3.Select(val, keyf(j)) == valf(j)), patterns=[valf(j)]))
      return VDict(dk, dom, val)
  if name == 'set':
    if not args:
      return VPy('emptyset')
    v = args[0]
    if isinstance(v, VObj):
      return VObj(sym.ufun('val_to_set', sym.Val, sym.Val)(v.e))
    if isinstance(v, VList):
      ks = KSet(v.kind.elem)
      k = z3.Const('k!set', v.kind.elem.sort())
      i = z3.Int('i!set')
      s = ks.empty()
      s.dom = z3.Lambda([k], z3.Exists([i], z3.And(0 <= i, i < v.len, v.arr[i] == k)))
      return s
    from pyvc.exec import Iter
    if isinstance(v, Iter):
      # set(iterable): k is a member iff some item equals it
      j = z3.Int(ex.path.fresh_name('j!st'))
      w = v.at(j)
      ek = kind_of(w)
      itemf = ex.path.define('set_item', [j], ek.box(w))
      ks = KSet(ek)
      dom = ex.path.fresh_const('set_dom', z3.ArraySort(ek.sort(), sym.BoolS))
      k = z3.Const('k!st', ek.sort())
      i2 = z3.Int('i2!st')
      ex.path.assume(sym.forall([k], z3.Select(dom, k) == z3.Exists(
          [i2], z3.And(0 <= i2, i2 < v.len, itemf(i2) == k)), patterns=[z3.Select(dom, k)]))
      ex.path.assume(sym.forall([j], z3.Implies(z3.And(0 <= j, j < v.len),
                                                z3.Select(dom, itemf(j))), patterns=[itemf(j)]))
      s = ks.empty()
      s.dom = dom
      return s
    if isinstance(v, VTuple):
      raise OutOfSubset('set(tuple)', node)
  if name == 'callable':
    v = args[0]
    return VBool(sym.ufun('callable', sym.Val, sym.BoolS)(sym.to_val(v)))
  if name == 'reversed':
    v = args[0]
    if isinstance(v, VList):
      return v.reversed()
  if name == 'enumerate':
    v = ex.as_iter(args[0], node)
    from pyvc.exec import Iter
    if isinstance(v, list):
      return VTuple([VTuple([VInt(i), x]) for i, x in enumerate(v)])
    return Iter(v.len, lambda j, v=v: VTuple([VInt(j), v.at(j)]))
  if name == 'zip':
    from pyvc.exec import Iter
    its = [ex.as_iter(a, node) for a in args]
    if all(isinstance(i, list) for i in its):
      return VTuple([VTuple(list(t)) for t in zip(*its)])
    its = [Iter(z3.IntVal(len(i)), (lambda j, i=i: _pick(i, j))) if isinstance(i, list)
           else i for i in its]
    n = its[0].len
    for i in its[1:]:
      n = z3.If(i.len < n, i.len, n)
    return Iter(z3.simplify(n), lambda j, its=its: VTuple([i.at(j) for i in its]))
  if name == 'range':
    from pyvc.exec import Iter
    if len(args) == 1 and isinstance(args[0], VInt):
      n = args[0].e
      cn = args[0].concrete()
      if cn is not None and cn <= 8:
        return VTuple([VInt(i) for i in range(cn)])
      it = Iter(z3.If(n < 0, 0, n), lambda j: VInt(j))
      it.elem_kind = KInt
      return it
  if name == 'str':
    return ex.to_str(args[0], node)
  if name == 'bool':
    return VBool(ex.truth(args[0], node))
  if name == 'hasattr':
    o, a = args
    an = a.concrete() if isinstance(a, VStr) else None
    if isinstance(o, VRecord) and an is not None:
      if an in o.fields and isinstance(o.fields[an], VOpt):
        return VBool(z3.Not(o.fields[an].is_none))
      return VBool(an in o.fields)
    if isinstance(o, VObj) and an is not None:
      return VBool(sym.ufun('hasattr_' + an, sym.Val, sym.BoolS)(o.e))
  if name == 'getattr':
    o, a = args[0], args[1]
    an = a.concrete() if isinstance(a, VStr) else None
    if isinstance(o, VObj) and an is not None:
      if len(args) == 3:
        has = sym.ufun('hasattr_' + an, sym.Val, sym.BoolS)(o.e)
        if ex.path.decide(has):
          return val_attr(ex, o, an, node)
        return args[2]
      return val_attr(ex, o, an, node)
  if name == 'type':
    if len(args) == 1:
      return VObj(sym.ufun('type_of', sym.Val, sym.Val)(sym.to_val(args[0])))
  if name == 'all' or name == 'any':
    v = args[0]
    from pyvc.exec import Iter
    if isinstance(v, VList):
      i = z3.Int('i!all')
      t = v.arr[i] if v.kind.elem is KBool else v.kind.elem.unbox(v.arr[i]).truthy()
      body = z3.Implies(z3.And(0 <= i, i < v.len), t) if name == 'all' else \
          z3.And(0 <= i, i < v.len, t)
      return VBool(z3.ForAll([i], body) if name == 'all' else z3.Exists([i], body))
    if isinstance(v, VTuple):
      ts = [ex.truth(x, node) for x in v.items]
      if not ts:
        return VBool(name == 'all')
      return VBool(z3.And(*ts) if name == 'all' else z3.Or(*ts))
    if isinstance(v, VPy) and v.what == 'emptylist':
      return VBool(name == 'all')
    if isinstance(v, Iter):
      i = z3.Int(ex.path.fresh_name('i!all'))
      t = ex.truth(v.at(i), node)
      if name == 'all':
        return VBool(z3.ForAll([i], z3.Implies(z3.And(0 <= i, i < v.len), t)))
      return VBool(z3.Exists([i], z3.And(0 <= i, i < v.len, t)))
  if name == 'map':
    from pyvc.exec import Iter
    fn, coll = args
    it = ex.as_iter(coll, node)
    if isinstance(it, list):
      return VTuple([ex.call(fn, [x], {}, node) for x in it])
    return Iter(it.len, lambda j: ex.call(fn, [it.at(j)], {}, node))
  if name == 'sum' and len(args) == 1:
    from pyvc.exec import Iter
    v = args[0]
    if isinstance(v, (Iter, VList)):
      # only what is certain about a sum of truth values: it lies between 0 and the length
      n = ex.path.fresh_const('sum', sym.IntS)
      ex.path.assume(z3.And(n >= 0, n <= v.len))
      return VInt(n)
  if name == 'hash':
    return VObj(sym.ufun('py_hash', sym.Val, sym.Val)(sym.to_val(args[0])))
  if name == 'repr':
    return VStr(sym.ufun('repr_of', sym.Val, sym.Str)(sym.to_val(args[0])))
  r = getattr(ex.world, 'extra_builtin', lambda *a: None)(ex, name, args, kwargs, node)
  if r is not None:
    return r
  if name in ('min', 'max') and len(args) == 2 and not kwargs and \
      all(isinstance(a, VInt) for a in args):
    a, b = args[0].e, args[1].e
    # Python keeps the first argument on ties; for ints the value is the same either way
    return VInt(z3.If(a <= b, a, b) if name == 'min' else z3.If(a >= b, a, b))
  raise OutOfSubset(f'builtin {name}({args})', node)


def _pick(items, j):
  cj = z3.simplify(j)
  if z3.is_int_value(cj):
    return items[cj.as_long()]
  raise OutOfSubset('symbolic index into a concrete sequence')


def name_array(ex, arr, tag='arr'):
  """Replaces a lambda-defined array by a named constant characterised pointwise, so
  that quantified facts about its elements have a term to trigger on."""
  named = ex.path.fresh_const(tag, arr.sort())
  j = z3.Const('j!na', arr.sort().domain())
  ex.path.assume(z3.ForAll([j], z3.Select(named, j) == z3.Select(arr, j),
                           patterns=[z3.Select(named, j)]))
  return named


def _iter_to_list(ex, it, ek):
  if isinstance(it, list):
    if not it:
      return VPy('emptylist')
    return KList(kind_of(it[0])).from_items(it)
  j = z3.Int(ex.path.fresh_name('j!l'))
  w = it.at(j)
  ek = kind_of(w)
  lst = VList(KList(ek), it.len, name_array(ex, z3.Lambda([j], ek.box(w)), 'itl'))
  for a in ('keys', 'idx', 'dict'):
    if hasattr(it, a):
      setattr(lst, 'dict_' + a, getattr(it, a))
  return lst


# -----------------------------------------------------------------------------
# methods of lists / dicts / strings


def materialize(ex, w, kind):
  """Turns the typeless displays (`[]`, `{}`, `[[]]`) into typed containers."""
  if isinstance(kind, KOpt):
    kind = kind.inner
  if isinstance(w, VPy) and w.what == 'emptydict' and \
      getattr(kind, 'rname', None) in EMPTY_DICT_AS_RECORD:
    return EMPTY_DICT_AS_RECORD[kind.rname]()      # e.g. a fresh {} as the root of a tree view
  if isinstance(w, VPy) and w.what in ('emptylist', 'emptydict', 'emptyset'):
    if not isinstance(kind, (KList, KDict)):
      raise OutOfSubset(f'empty display used as {kind.name}')
    return kind.empty()
  if isinstance(w, VPy) and w.what == 'listlit':
    if not isinstance(kind, KList):
      raise OutOfSubset(f'list display used as {kind.name}')
    return kind.from_items([materialize(ex, i, kind.elem) for i in w.payload])
  return w


STR_METHODS = {'split', 'rsplit', 'startswith', 'endswith', 'lower', 'join',
               'format', 'rstrip', 'strip', 'splitlines'}


def call_value_method(ex, obj, name, args, kwargs, node):
  if isinstance(obj, VList):
    return _list_method(ex, obj, name, args, kwargs, node)
  if isinstance(obj, VDict):
    return _dict_method(ex, obj, name, args, kwargs, node)
  if isinstance(obj, VStr):
    return _str_method(ex, obj, name, args, kwargs, node)
  raise OutOfSubset(f'method {name} of {obj!r}', node)


def _list_method(ex, obj, name, args, kwargs, node):
  if name == 'append':
    v = materialize(ex, args[0], obj.kind.elem)
    if isinstance(v, VOpt) and not isinstance(obj.kind.elem, KOpt):
      ex.path.oblige(f'{ex.contract.qual}/safety/appended_value_not_none#{ex.at(node)}',
                     z3.Not(v.is_none))
      ex.path.assume(z3.Not(v.is_none))
      v = v.inner
    sym.escape(v)
    obj.append(v)
    return NONE
  if name == 'extend':
    v = args[0]
    if isinstance(v, VPy) and v.what == 'emptylist':
      return NONE
    if isinstance(v, VTuple):
      for it in v.items:
        obj.append(it)
      return NONE
    from pyvc.exec import Iter
    if isinstance(v, Iter):
      v = _iter_to_list(ex, v, obj.kind.elem)
    if isinstance(v, VList):
      a, b = obj._concrete_items(), v._concrete_items()
      if a is not None and b is not None and len(a) + len(b) <= 8:
        for it in b:            # both small and of known length: plain appends
          obj.append(it)
        obj.len = z3.simplify(obj.len)
        return NONE
      a_len, a_arr = obj.len, obj.arr
      obj.extend(v)
      obj.arr = name_array(ex, obj.arr, 'ext')
      # the same fact, stated from the side of the two source lists (gives the solver the
      # element terms of the result to instantiate existentials with)
      j = z3.Int('j!ex')
      if not (z3.is_quantifier(a_arr) or z3.is_quantifier(v.arr)):
        ex.path.assume(z3.ForAll([j], z3.Implies(z3.And(0 <= j, j < a_len),
                                                 obj.arr[j] == a_arr[j]),
                                 patterns=[a_arr[j]]))
        ex.path.assume(z3.ForAll([j], z3.Implies(z3.And(0 <= j, j < v.len),
                                                 obj.arr[a_len + j] == v.arr[j]),
                                 patterns=[v.arr[j]]))
      obj._wb()
      return NONE
  if name == 'extendleft' and isinstance(args[0], VList):
    # deque.extendleft(xs): the items end up in front, in REVERSED order
    front = args[0].reversed()
    front = VList(front.kind, front.len, front.arr)
    front.extend(obj)
    obj._mutate()
    obj.len, obj.arr = front.len, name_array(ex, front.arr, 'extl')
    obj._wb()
    return NONE
  if name == 'popleft':
    args = [VInt(0)]
    name = 'pop'
  if name == 'pop':
    if len(args) == 1 and isinstance(args[0], VInt) and args[0].concrete() == -1:
      args = []                    # lst.pop(-1) is lst.pop()
    if not args:
      if not ex.path.decide(obj.len > 0):
        ex.py_raise('IndexError', node)
      return obj.pop_last()
    i = args[0]
    if isinstance(i, VInt) and i.concrete() == 0:
      if not ex.path.decide(obj.len > 0):
        ex.py_raise('IndexError', node)
      v = obj.get(0)
      s = obj.suffix(1)
      obj._mutate()
      obj.len, obj.arr = s.len, s.arr
      obj._wb()
      return v
  if name == 'copy':
    return obj.copy()
  raise OutOfSubset(f'list.{name}', node)


def _dict_method(ex, obj, name, args, kwargs, node):
  vk = obj.kind.val
  if name == 'get':
    k = args[0]
    default = args[1] if len(args) > 1 else kwargs.get('default', NONE)
    if ex.path.decide(obj.has(k)):
      return ex.dict_read(obj, k)
    return materialize(ex, default, vk)
  if name == 'setdefault':
    k, default = args
    if not ex.path.decide(obj.has(k)):
      obj.set(k, materialize(ex, default, vk))
    return ex.dict_read(obj, k)
  if name == 'pop':
    k = args[0]
    if ex.path.decide(obj.has(k)):
      v = obj.get(k)
      obj.delete(k)
      return v
    if len(args) > 1:
      return args[1]
    ex.py_raise('KeyError', node)
  if name == 'update':
    o = args[0]
    if isinstance(o, VPy) and o.what == 'emptydict':
      return NONE
    if isinstance(o, VOpt):
      ex.path.assume(z3.Not(o.is_none))
      o = o.inner
    if isinstance(o, VDict):
      obj.update(o)
      return NONE
    if isinstance(o, VObj) and getattr(obj.kind, 'is_set', False) and obj.kind.key is KVal:
      obj._mutate()
      k = z3.Const('k!us', sym.Val)
      mem = sym.ufun('val_contains', sym.Val, sym.Val, sym.BoolS)
      obj.dom = z3.Lambda([k], z3.Or(obj.dom[k], mem(o.e, k)))
      obj._wb()
      return NONE
  if name == 'copy':
    return obj.copy()
  if name == 'clear':
    obj.clear()
    return NONE
  if name in ('items', 'keys', 'values'):
    return ex.dict_iter(obj, name)
  if name == 'add' and getattr(obj.kind, 'is_set', False):
    obj.set(args[0], VBool(True))
    return NONE
  raise OutOfSubset(f'dict.{name}', node)


def _cat2(a, b):
  return sym.ufun('str_concat', sym.Str, sym.Str, sym.Str)(a, b)


def _lit_text(e):
  for s, cst in sym._STR_LITS.items():
    if cst.eq(e):
      return s
  return None


def str_cat(parts):
  """Canonical abstract concatenation: nested concatenations are flattened, adjacent literals
  merged, empty literals dropped, and the result folded to the right -- so `a + '.' + b`,
  `f'{a}.{b}'` and `'{}.{}'.format(a, b)` are the same term."""
  flat = []

  def walk(e):
    if z3.is_app(e) and e.decl().name() == 'str_concat' and e.num_args() == 2:
      walk(e.arg(0))
      walk(e.arg(1))
    else:
      flat.append(e)
  for p in parts:
    walk(p)
  out = []
  for e in flat:
    t = _lit_text(e)
    if t == '':
      continue
    if t is not None and out and _lit_text(out[-1]) is not None:
      out[-1] = sym.str_lit(_lit_text(out[-1]) + t)
    else:
      out.append(e)
  if not out:
    return sym.str_lit('')
  r = out[-1]
  for e in reversed(out[:-1]):
    r = _cat2(e, r)
  return r


def str_concat(a, b):
  return str_cat([a, b])


def str_join(sep, lst):
  """'sep'.join(list) -- uninterpreted in (sep, len, arr)."""
  k = KList(KStr)
  return sym.ufun('str_join', sym.Str, k.sort(), sym.Str)(sep, k.box(lst))


def str_split(s, sep):
  k = KList(KStr)
  return k.unbox(sym.ufun('str_split', sym.Str, sym.Str, k.sort())(s, sep))


def str_xsplit1(which, s, sep):
  """s.rsplit(sep, 1) / s.split(sep, 1): one or two pieces (uninterpreted)."""
  k = KList(KStr)
  return k.unbox(sym.ufun('str_' + which + '1', sym.Str, sym.Str, k.sort())(s, sep))


def _native_str_method(ex, obj, name, args, kwargs, node):
  s = obj.e
  if name in ('startswith', 'endswith'):
    f = z3.PrefixOf if name == 'startswith' else z3.SuffixOf
    return VBool(f(args[0].e, s))
  if name in ('rsplit', 'split') and (len(args) == 2 or 'maxsplit' in kwargs):
    mx = args[1] if len(args) == 2 else kwargs['maxsplit']
    sep = args[0].e
    if not (isinstance(mx, VInt) and mx.concrete() == 1):
      raise OutOfSubset('split with maxsplit != 1 on a native string', node)
    kl = KList(sym.KStrN)
    if not ex.path.decide(z3.Contains(s, sep)):
      return kl.from_items([obj])
    a = ex.path.fresh_const('piece', z3.StringSort())
    b = ex.path.fresh_const('piece', z3.StringSort())
    ex.path.assume(s == z3.Concat(a, sep, b))
    # the separator found is the LAST one (rsplit) / the FIRST one (split)
    ex.path.assume(z3.Not(z3.Contains(b if name == 'rsplit' else a, sep)))
    return kl.from_items([VStr(a), VStr(b)])
  if name == 'split' and len(args) == 1 and not kwargs:
    sep = args[0].e
    kl = KList(sym.KStrN)
    n = ex.path.fresh_const('nparts', sym.IntS)
    arr = ex.path.fresh_const('parts', z3.ArraySort(sym.IntS, z3.StringSort()))
    pre = ex.path.fresh_const('upto_last_sep', z3.StringSort())
    rest = ex.path.fresh_const('after_first_sep', z3.StringSort())
    lst = VList(kl, n, arr)
    has = z3.Contains(s, sep)
    ex.path.assume(n >= 1)
    ex.path.assume(z3.Implies(z3.Not(has), z3.And(n == 1, arr[0] == s)))
    ex.path.assume(z3.Implies(has, z3.And(
        n >= 2, s == z3.Concat(arr[0], sep, rest), z3.Not(z3.Contains(arr[0], sep)),
        s == z3.Concat(pre, sep, arr[n - 1]), z3.Not(z3.Contains(arr[n - 1], sep)))))
    lst.split_of = (s, sep, pre, arr, n)
    return lst
  if name == 'join':
    lst = args[0]
    if isinstance(lst, VStr) and z3.simplify(z3.Length(s) == 0):
      return lst                  # ''.join(string) is the string itself
    if isinstance(lst, VPy) and lst.what == 'emptylist':
      return VStr(z3.StringVal(''))
    if isinstance(lst, VTuple):
      lst = KList(sym.KStrN).from_items(lst.items)
    if isinstance(lst, VList):
      ln = z3.simplify(lst.len)
      if z3.is_int_value(ln):
        items = [lst.at(i) for i in range(ln.as_long())]
        if not items:
          return VStr(z3.StringVal(''))
        out = items[0]
        for it in items[1:]:
          out = z3.Concat(out, s, it)
        return VStr(out)
      so = getattr(lst, 'split_of', None)
      if so is not None and so[1].eq(s) and lst.len.eq(so[4]):
        # a split list whose LAST element was (possibly) replaced: everything up to
        # the last separator is unchanged  [assumed fact about str.split/join]
        src, sep, pre, arr0, n = so
        last = lst.at(n - 1)
        unchanged_front = z3.simplify(lst.arr == z3.Store(arr0, n - 1, last))
        if z3.is_true(unchanged_front) or lst.arr.eq(arr0):
          return VStr(z3.If(n == 1, last, z3.Concat(pre, sep, last)))
    raise OutOfSubset('join of this native list', node)
  if name == 'format':
    return VStr(ex.path.fresh_const('fmt', z3.StringSort()))   # message text only
  raise OutOfSubset(f'native str.{name}', node)


def _str_method(ex, obj, name, args, kwargs, node):
  if obj.native:
    return _native_str_method(ex, obj, name, args, kwargs, node)
  if name == 'join':
    lst = args[0]
    if isinstance(lst, VPy) and lst.what == 'emptylist':
      return VStr('')
    if isinstance(lst, VTuple):
      lst = KList(KStr).from_items(lst.items)
    if isinstance(lst, VList) and lst.kind.elem is KStr:
      return VStr(str_join(obj.e, lst))
  if name == 'split' and len(args) == 1 and not kwargs:
    r = str_split(obj.e, args[0].e)
    ex.path.assume(r.len >= 1)
    return r
  if name in ('rsplit', 'split') and (len(args) == 2 or 'maxsplit' in kwargs):
    mx = args[1] if len(args) == 2 else kwargs['maxsplit']
    if isinstance(mx, VInt) and mx.concrete() == 1:
      r = str_xsplit1(name, obj.e, args[0].e)
      ex.path.assume(z3.And(r.len >= 1, r.len <= 2))
      return r
  if name == 'format':
    parts = []
    pat = obj.concrete()
    if pat is None:
      return VStr(ex.path.fresh_const('fmt', sym.Str))
    import re
    pieces = re.split(r'(\{[^}]*\})', pat)
    ai = 0
    for p in pieces:
      if p.startswith('{') and p.endswith('}'):
        fld = p[1:-1]
        if fld == '':
          if ai >= len(args):
            return VStr(ex.path.fresh_const('fmt', sym.Str))
          parts.append(ex.to_str(args[ai], node))
          ai += 1
        elif fld in kwargs:
          parts.append(ex.to_str(kwargs[fld], node))
        else:
          return VStr(ex.path.fresh_const('fmt', sym.Str))
      elif p:
        parts.append(VStr(p))
    return ex.str_build('fmt', parts, node)
  if name in ('startswith', 'endswith'):
    return VBool(sym.ufun('str_' + name, sym.Str, sym.Str, sym.BoolS)(obj.e, args[0].e))
  if name in ('lower', 'rstrip', 'strip'):
    return VStr(sym.ufun('str_' + name, sym.Str, sym.Str)(obj.e))
  r = getattr(ex.world, 'extra_str_method', lambda *a: None)(ex, obj, name, args, kwargs, node)
  if r is not None:
    return r
  raise OutOfSubset(f'str.{name}', node)
